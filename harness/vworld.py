"""Deterministic simulation world for full-stack, trace-driven checks (DESIGN.md section 3.3).

Everything is applied from /verif by monkey-patching names inside the scales modules; /repo is not
touched.  One `World` per case: virtual clock, virtual gevent primitives (sleep, Timeout,
Event.wait(timeout), AsyncResult.wait/get(timeout), Greenlet.start_later), fresh TimerQueues built
from the unmodified class, a fake network under `scales.scales_socket.gsocket`, scripted `random`,
and a record of every exception that escapes a greenlet.
"""
from __future__ import annotations

import heapq
import importlib
import itertools
import os
import socket as _socket
import sys

import gevent
import gevent.event
import gevent.hub
from gevent.event import Event as REvent

TICK = 1.0 / 64.0

_CUR = [None]          # the active World


def W():
  w = _CUR[0]
  if w is None:
    raise RuntimeError('no active World')
  return w


# ------------------------------------------------------------------------------------------------
# virtual clock
# ------------------------------------------------------------------------------------------------
class VClock(object):
  def __init__(self, t0=1024.0, tie='fifo'):
    self.now = float(t0)
    self.timers = []
    self.seq = itertools.count(1)
    self.tie = tie

  def time(self):
    return self.now

  def call_at(self, t, fn):
    s = next(self.seq)
    ent = [float(t), s if self.tie == 'fifo' else -s, fn]
    heapq.heappush(self.timers, ent)
    return ent

  @staticmethod
  def cancel(ent):
    ent[2] = None

  def next_time(self):
    while self.timers and self.timers[0][2] is None:
      heapq.heappop(self.timers)
    return self.timers[0][0] if self.timers else None


def settle(rounds=1):
  """Runs every runnable greenlet until all are blocked."""
  for _ in range(rounds):
    gevent.idle()


# ------------------------------------------------------------------------------------------------
# virtual gevent primitives
# ------------------------------------------------------------------------------------------------
class VTimeout(gevent.Timeout):
  """gevent.Timeout on the virtual clock (start_new / cancel / pending; used as exception too)."""

  def __init__(self, seconds=None, exception=None, ref=True, priority=-1):
    # deliberately not calling gevent.Timeout.__init__ (it allocates a real loop timer)
    BaseException.__init__(self)
    self.seconds = seconds
    self.exception = exception
    self._ent = None

  def start(self):
    g = gevent.getcurrent()

    def throw():
      if not g.dead:
        if self.exception is None or self.exception is False:
          g.throw(self)
        else:
          g.throw(self.exception)

    def fire():
      self._ent = None
      # delivered from the hub, like a real gevent timer callback
      gevent.get_hub().loop.run_callback(throw)
    if self.seconds is not None:
      self._ent = W().clock.call_at(W().clock.now + self.seconds, fire)

  @classmethod
  def start_new(cls, timeout=None, exception=None, ref=True):
    if isinstance(timeout, gevent.Timeout):
      if not timeout.pending:
        timeout.start()
      return timeout
    t = cls(timeout, exception)
    t.start()
    return t

  @property
  def pending(self):
    return self._ent is not None and self._ent[2] is not None

  def cancel(self):
    if self._ent is not None:
      VClock.cancel(self._ent)
      self._ent = None

  def close(self):
    self.cancel()

  def __str__(self):
    return '%s seconds (virtual)' % self.seconds


def vsleep(seconds=0, ref=True):
  if seconds is None or seconds <= 0:
    return gevent.sleep(0)
  ev = REvent()
  W().clock.call_at(W().clock.now + seconds, ev.set)
  ev.wait()


def _vwait_on(obj, is_done, timeout):
  """Blocks until obj is done or `timeout` virtual seconds elapsed (never touches the real clock:
  a real zero-second wait would let the driver advance virtual time before the waiter continues)."""
  if is_done():
    return
  woke = REvent()
  ent = W().clock.call_at(W().clock.now + timeout, woke.set)

  def onset(_):
    woke.set()
  obj.rawlink(onset)
  try:
    woke.wait()
  finally:
    obj.unlink(onset)
    VClock.cancel(ent)


class VEvent(REvent):
  def wait(self, timeout=None):
    if timeout is None:
      return REvent.wait(self)
    _vwait_on(self, self.is_set, timeout)
    return self.is_set()


class _GeventProxy(object):
  """Stands for the `gevent` module inside scales modules."""

  def __getattr__(self, k):
    return getattr(gevent, k)

  sleep = staticmethod(vsleep)
  Timeout = VTimeout

  @staticmethod
  def spawn(fn, *a, **kw):
    g = gevent.spawn(fn, *a, **kw)
    w = _CUR[0]
    if w is not None:
      w.greenlets.append(g)
    return g


class _TimeProxy(object):
  def __getattr__(self, k):
    import time as _t
    return getattr(_t, k)

  @staticmethod
  def time():
    return W().clock.now

  @staticmethod
  def sleep(dt):
    # time.sleep blocks the whole process: no other greenlet runs and no timer fires meanwhile. On the virtual clock
    # that is a jump of `now` with every timer that became due firing late (advance_to tolerates now > timer time);
    # never a real sleep (a check must not stall for the 5-60 s of a back-off)
    w = W()
    w.log.append((w.clock.now, 'blocking-sleep', str(dt)))
    w.clock.now += max(0.0, float(dt))
    w.blocking_sleeps = getattr(w, 'blocking_sleeps', 0) + 1
    if w.blocking_sleeps > 50:
      # a loop that sleeps without ever yielding would block the real process for good; end it so the run terminates
      raise RuntimeError('blocking time.sleep() called %d times without the process making progress' % w.blocking_sleeps)


GP = _GeventProxy()
TP = _TimeProxy()

SCALES_MODULES = [
    'scales.timer_queue', 'scales.sink', 'scales.dispatch', 'scales.thrift.sink', 'scales.mux.sink',
    'scales.thriftmux.sink', 'scales.resurrector', 'scales.loadbalancer.base', 'scales.loadbalancer.heap',
    'scales.loadbalancer.aperture', 'scales.varz', 'scales.message', 'scales.pool.watermark',
    'scales.pool.singleton', 'scales.pool.base', 'scales.observable', 'scales.asynchronous', 'scales.core',
    'scales.kafka.sink', 'scales.loadbalancer.serverset',
]

_installed = [False]


class ScriptedRandom(object):
  """Replacement for the `random` module inside scales modules: draws from the world's PRNG, logs draws."""

  def __getattr__(self, k):
    import random as _r
    return getattr(_r, k)

  def randint(self, a, b):
    w = W()
    v = w.rand_hook('randint', a, b) if w.rand_hook else w.rng.randint(a, b)
    w.draws.append(('randint', a, b, v))
    return v

  def random(self):
    w = W()
    v = w.rng.random()
    w.draws.append(('random', v))
    return v

  def choice(self, seq):
    w = W()
    seq = list(seq)
    try:
      seq = sorted(seq, key=str)
    except Exception:
      pass
    v = seq[w.rng.randrange(len(seq))]
    w.draws.append(('choice', len(seq), str(v)))
    return v

  def shuffle(self, lst):
    w = W()
    if w.shuffle:
      w.rng.shuffle(lst)

  def sample(self, pop, k):
    w = W()
    pop = list(pop)
    return w.rng.sample(pop, k)


SR = ScriptedRandom()


def _patch_modules():
  """time / gevent / Event / random as seen from inside scales modules -> the virtual ones. Covers the listed modules and
  every other scales module that is loaded (a module may start using the clock after this harness was written)."""
  import sys as _sys
  for name in SCALES_MODULES:
    try:
      importlib.import_module(name)
    except Exception:
      continue
  for name, mod in list(_sys.modules.items()):
    if mod is None or not (name == 'scales' or name.startswith('scales.')):
      continue
    if os.environ.get('VWORLD_PATCH_LISTED_ONLY') and name not in SCALES_MODULES:
      continue
    if hasattr(mod, 'time') and not isinstance(getattr(mod, 'time'), _TimeProxy) and getattr(mod.time, '__name__', '') == 'time':
      mod.time = TP
    if hasattr(mod, 'gevent') and getattr(mod.gevent, '__name__', '') == 'gevent':
      mod.gevent = GP
    if getattr(mod, 'Event', None) is REvent:
      mod.Event = VEvent
    if hasattr(mod, 'random') and getattr(mod.random, '__name__', '') == 'random':
      mod.random = SR


def install():
  """Patches the scales modules (module-level names on every call, the rest once per process)."""
  import scales  # noqa
  _patch_modules()
  if _installed[0]:
    return
  for name in []:
    mod = None
    if hasattr(mod, 'time') and not isinstance(getattr(mod, 'time'), _TimeProxy) and getattr(mod.time, '__name__', '') == 'time':
      mod.time = TP
    if hasattr(mod, 'gevent') and getattr(mod.gevent, '__name__', '') == 'gevent':
      mod.gevent = GP
    if getattr(mod, 'Event', None) is REvent:
      mod.Event = VEvent
    if hasattr(mod, 'random') and getattr(mod.random, '__name__', '') == 'random':
      mod.random = SR
  # AsyncResult.wait/get(timeout) on the virtual clock
  import scales.asynchronous as sa
  from gevent.event import AsyncResult as GAR
  AR = sa.AsyncResult

  def ar_wait(self, timeout=None):
    if timeout is None:
      return GAR.wait(self)
    _vwait_on(self, self.ready, timeout)
    return self.value if self.ready() else None

  def ar_get(self, block=True, timeout=None):
    if block and timeout is not None and not self.ready():
      ar_wait(self, timeout)
      if not self.ready():
        raise gevent.Timeout(timeout)
    return GAR.get(self, block, None if block else timeout)
  AR.wait = ar_wait
  AR.get = ar_get

  # Greenlet.start_later used by AsyncResult.CompleteIn
  class VGreenlet(sa.Greenlet):
    def start_later(self, seconds):
      W().clock.call_at(W().clock.now + seconds, self.start)
  sa.Greenlet = VGreenlet
  # fake network
  import scales.scales_socket as ss
  ss.gsocket = FakeG
  ss.ScalesSocket._resolveAddr = lambda self: [(2, 1, 6, '', (self.host, self.port))]
  _installed[0] = True


# ------------------------------------------------------------------------------------------------
# fake network
# ------------------------------------------------------------------------------------------------
class Conn(object):
  """One accepted connection, server side view."""

  def __init__(self, world, port, cid, sock):
    self.world = world
    self.port = port
    self.cid = cid
    self.sock = sock
    self.rx = b''              # bytes received from the client, not yet parsed by the peer
    self.stream = b''          # every byte of the client's stream that reached the peer, in arrival order
    self.consumed = 0          # bytes of the client's stream already parsed by the peer
    self.written = 0           # bytes of the client's stream handed to sendall so far
    self.write_starts = []     # (stream offset, global seq, time) of every client sendall
    self.closed_by_client = False
    self.closed_by_peer = False

  # peer -> client
  def send(self, data, chunks=None):
    if self.closed_by_client or self.closed_by_peer:
      return
    self.world.log.append((self.world.clock.now, 'peer-tx', self.port, self.cid, len(data)))
    if chunks:
      o = 0
      for c in chunks:
        if o >= len(data):
          break
        self.sock._rxq.append(data[o:o + c])
        o += c
      if o < len(data):
        self.sock._rxq.append(data[o:])
    else:
      self.sock._rxq.append(data)
    self.sock._ev.set()

  def close(self):
    """Peer closes: client reads EOF after draining."""
    self.closed_by_peer = True
    self.sock._eof = True
    self.sock._ev.set()

  def reset(self, exc=None):
    """Connection error surfaced on the client's next read/write."""
    self.closed_by_peer = True
    self.sock._err = exc or _socket.error(104, 'Connection reset by peer')
    self.sock._ev.set()


def write_start(conn, offset):
  """(seq, time) at which the client write containing stream offset `offset` began."""
  best = (None, None)
  for off, sq, t in conn.write_starts:
    if off <= offset:
      best = (sq, t)
    else:
      break
  return best


class Server(object):
  """Scripted endpoint. Subclass or pass callbacks."""

  def __init__(self, port, reachable=True):
    self.port = port
    self.reachable = reachable        # bool or callable(now) -> True | False | 'hang'
    self.conns = []
    self.connect_delay = 0            # ticks a successful connect takes
    self.send_delay = 0               # ticks a client write blocks after half of it was accepted
    self.connect_log = []             # (time, outcome)

  def is_reachable(self, now):
    r = self.reachable
    return r(now) if callable(r) else r

  def on_connect(self, conn):
    pass

  def on_data(self, conn):
    """Called after conn.rx grew."""
    pass

  def on_client_close(self, conn):
    pass


class FakeG(object):
  """Stands for gevent.socket.socket."""

  def __init__(self, family=None, typ=None, *a):
    self.world = W()
    self._rxq = []
    self._ev = REvent()
    self._eof = False
    self._err = None
    self._closed = False
    self._conn = None
    self._connected = False
    self.port = None
    self.send_count = 0
    self.recv_count = 0

  def setsockopt(self, *a):
    pass

  def settimeout(self, *a):
    pass

  def connect(self, addr):
    w = self.world
    self.port = addr[1]
    srv = w.servers.get(self.port)
    now = w.clock.now
    fault = w.io_fault('connect', self.port, self)
    r = srv.is_reachable(now) if srv else False
    if fault is not None:
      r = fault
    if srv:
      srv.connect_log.append((now, r if isinstance(r, (bool, str)) else 'exc'))
    w.log.append((now, 'connect', self.port, str(r)))
    if isinstance(r, BaseException):
      raise r
    if r == 'hang':
      REvent().wait()     # never returns
    if not r:
      raise _socket.error(111, 'Connection refused')
    d = getattr(srv, 'connect_delay', 0)
    if d:
      vsleep(d * TICK)
      if self._closed:
        raise _socket.error(9, 'Bad file descriptor')
    self._connected = True
    cid = next(w.conn_ids)
    self._conn = Conn(w, self.port, cid, self)
    srv.conns.append(self._conn)
    srv.on_connect(self._conn)

  def _check_usable(self, what):
    if self._closed:
      raise _socket.error(9, 'Bad file descriptor')
    if not self._connected:
      raise _socket.error(107 if what == 'recv' else 32, 'not connected')

  def sendall(self, data):
    w = self.world
    self._check_usable('send')
    self.send_count += 1
    fault = w.io_fault('send', self.port, self)
    if fault is not None:
      w.log.append((w.clock.now, 'send-fault', self.port, self._conn.cid, repr(fault)))
      raise fault
    if self._err is not None:
      raise self._err
    data = bytes(data)
    w.log.append((w.clock.now, 'send', self.port, self._conn.cid, len(data)))
    w.wire.append((w.clock.now, self.port, self._conn.cid, data))
    # where in the connection's byte stream this write starts, and when (global order) it started
    self._conn.write_starts.append((self._conn.written, w.next_seq() if hasattr(w, 'next_seq') else None, w.clock.now))
    self._conn.written += len(data)
    srv = w.servers[self.port]
    d = getattr(srv, 'send_delay', 0)
    if d and len(data) > 1:
      # a slow write: part of the buffer is accepted at once, the caller blocks, the rest follows; an exception
      # thrown into the blocked writer (gevent.Timeout, kill) leaves the first part on the wire
      cut = len(data) // 2
      self._deliver(data[:cut])
      vsleep(d * TICK)
      if self._closed:
        raise _socket.error(9, 'Bad file descriptor')
      self._deliver(data[cut:])
    else:
      self._deliver(data)

  def _deliver(self, data):
    if not self._conn.closed_by_peer and not self._conn.closed_by_client:
      self._conn.rx += data
      self._conn.stream += data
      self.world.servers[self.port].on_data(self._conn)

  def send(self, data):
    """socket.send: may accept only part of the buffer (it does whenever the endpoint has a send_delay, i.e. is
    congested) and returns the number of bytes taken; never blocks."""
    w = self.world
    self._check_usable('send')
    self.send_count += 1
    fault = w.io_fault('send', self.port, self)
    if fault is not None:
      w.log.append((w.clock.now, 'send-fault', self.port, self._conn.cid, repr(fault)))
      raise fault
    if self._err is not None:
      raise self._err
    data = bytes(data)
    srv = w.servers[self.port]
    n = len(data) // 2 if (getattr(srv, 'send_delay', 0) and len(data) > 1) else len(data)
    part = data[:n]
    w.log.append((w.clock.now, 'send', self.port, self._conn.cid, len(part)))
    w.wire.append((w.clock.now, self.port, self._conn.cid, part))
    self._conn.write_starts.append((self._conn.written, w.next_seq() if hasattr(w, 'next_seq') else None, w.clock.now))
    self._conn.written += len(part)
    self._deliver(part)
    return n

  def recv_into(self, view, sz=0):
    w = self.world
    self._check_usable('recv')
    self.recv_count += 1
    fault = w.io_fault('recv', self.port, self)
    if fault is not None:
      w.log.append((w.clock.now, 'recv-fault', self.port, self._conn.cid, repr(fault)))
      if fault == 'eof':
        return 0
      raise fault
    while not self._rxq:
      if self._err is not None:
        raise self._err
      if self._eof or self._closed:
        return 0
      self._ev.clear()
      self._ev.wait()
    chunk = self._rxq[0]
    n = min(sz or len(view), len(chunk))
    view[:n] = chunk[:n]
    if n == len(chunk):
      self._rxq.pop(0)
    else:
      self._rxq[0] = chunk[n:]
    return n

  def recv(self, sz):
    buf = bytearray(sz)
    n = self.recv_into(memoryview(buf), sz)
    return bytes(buf[:n])

  def close(self):
    if self._closed:
      return
    self._closed = True
    w = self.world
    w.log.append((w.clock.now, 'close', self.port, self._conn.cid if self._conn else None))
    if self._conn is not None:
      if not hasattr(w, 'closes'):
        w.closes = []
      w.closes.append((w.clock.now, self.port, self._conn.cid, w.next_seq() if hasattr(w, 'next_seq') else None))
    if self._conn is not None:
      self._conn.closed_by_client = True
      srv = w.servers.get(self.port)
      if srv:
        srv.on_client_close(self._conn)
    self._ev.set()


# ------------------------------------------------------------------------------------------------
# the world
# ------------------------------------------------------------------------------------------------
class World(object):
  def __init__(self, rng, t0=1024.0, tie='fifo', resolution=TICK, shuffle=False):
    install()
    self.rng = rng
    self.clock = VClock(t0, tie)
    self.resolution = resolution
    self.shuffle = shuffle
    self.servers = {}
    self.log = []            # (time, kind, ...)
    self.wire = []           # (time, port, conn id, bytes) every successful client write
    self.draws = []
    self.rand_hook = None
    self.crashes = []        # exceptions that escaped a greenlet
    self.greenlets = []
    self.conn_ids = itertools.count(1)
    self.faults = []         # list of dict(op=, port=, nth=, what=) consumed by io_fault
    self._io_counts = {}
    self._saved = {}
    self.activate()

  # -- fault injection: what = exception instance | 'eof' | False/'hang'/True for connect
  def add_fault(self, op, nth, what, port=None):
    self.faults.append({'op': op, 'nth': nth, 'what': what, 'port': port})

  def io_fault(self, op, port, sock):
    k = (op, port)
    for key in ((op, None), k):
      self._io_counts[key] = self._io_counts.get(key, 0) + 1
    for f in self.faults:
      if f['op'] != op or f.get('done'):
        continue
      cnt = self._io_counts[(op, f['port'])] if f['port'] is not None else self._io_counts[(op, None)]
      if f['port'] is not None and f['port'] != port:
        continue
      if cnt == f['nth']:
        f['done'] = True
        return f['what']
    return None

  def add_server(self, srv):
    self.servers[srv.port] = srv
    return srv

  def activate(self):
    _CUR[0] = self
    import scales.timer_queue as tq
    import scales.sink as sk
    hub = gevent.get_hub()
    self._saved['handle_error'] = hub.handle_error
    world = self

    def handle_error(context, type, value, tb):
      if issubclass(type, (gevent.GreenletExit, SystemExit, KeyboardInterrupt)):
        return self._saved['handle_error'](context, type, value, tb)
      import traceback
      world.crashes.append({'time': world.clock.now, 'type': type.__name__, 'value': str(value)[:200],
                            'where': ''.join(traceback.format_tb(tb)[-2:])[-400:], 'context': repr(context)[:120]})
    hub.handle_error = handle_error
    q = tq.TimerQueue(time_source=self.clock.time, resolution=self.resolution)
    self.timer_queue = q
    tq.GLOBAL_TIMER_QUEUE = q
    sk.GLOBAL_TIMER_QUEUE = q
    try:
      import scales.dispatch as dp
      if hasattr(dp, 'GLOBAL_TIMER_QUEUE'):
        dp.GLOBAL_TIMER_QUEUE = q
    except Exception:
      pass
    lrt = tq.LowResolutionTime.__new__(tq.LowResolutionTime)
    lrt._interval = 1
    lrt.now = self.clock.now

    def lrt_update():
      lrt.now = self.clock.now
      self.clock.call_at(self.clock.now + 1.0, lrt_update)
    self.clock.call_at(self.clock.now + 1.0, lrt_update)
    tq.LOW_RESOLUTION_TIME_SOURCE = lrt
    lq = tq.TimerQueue(time_source=lrt.Get, resolution=1)
    self.low_res_queue = lq
    tq.LOW_RESOLUTION_TIMER_QUEUE = lq
    try:
      import scales.loadbalancer.aperture as ap
      ap.LOW_RESOLUTION_TIMER_QUEUE = lq
      ap.LOW_RESOLUTION_TIME_SOURCE = lrt
    except Exception:
      pass
    try:
      import scales.varz as vz
      if hasattr(vz, 'LOW_RESOLUTION_TIME_SOURCE'):
        vz.LOW_RESOLUTION_TIME_SOURCE = lrt
    except Exception:
      pass
    # the same singletons may be imported by name into any scales module (also by code that did not do so when this
    # harness was written): rebind them wherever they appear, so that no module keeps a real-time clock or queue
    import sys as _sys
    for _name, _mod in list(_sys.modules.items()):
      if _mod is None or not (_name == 'scales' or _name.startswith('scales.')):
        continue
      for _attr, _val in (('GLOBAL_TIMER_QUEUE', q), ('LOW_RESOLUTION_TIMER_QUEUE', lq), ('LOW_RESOLUTION_TIME_SOURCE', lrt)):
        if _attr in getattr(_mod, '__dict__', {}):
          try:
            setattr(_mod, _attr, _val)
          except Exception:
            pass
    self.greenlets.extend([q._worker, lq._worker])

  # -- time --------------------------------------------------------------------------------------
  def settle(self):
    gevent.idle()

  def advance_to(self, t):
    c = self.clock
    self.settle()
    while True:
      nt = c.next_time()
      if nt is None or nt > t:
        break
      at, _, fn = heapq.heappop(c.timers)
      if fn is None:
        continue
      c.now = max(c.now, at)
      fn()
      self.settle()
    c.now = max(c.now, t)
    self.settle()

  def advance(self, dt):
    self.advance_to(self.clock.now + dt)

  def run_until(self, pred, limit):
    """Advances timer by timer until pred() or the clock reaches `limit`."""
    self.settle()
    while not pred():
      nt = self.clock.next_time()
      if nt is None or nt > limit:
        self.advance_to(limit)
        break
      self.advance_to(nt)
    return pred()

  def close(self):
    hub = gevent.get_hub()
    for g in self.greenlets:
      try:
        if not g.dead:
          g.kill(block=False)
      except Exception:
        pass
    try:
      gevent.idle()
    except Exception:
      pass
    hub.handle_error = self._saved.get('handle_error', hub.handle_error)
    if 'handle_error' in hub.__dict__ and hub.__dict__['handle_error'] is self._saved.get('handle_error'):
      try:
        del hub.__dict__['handle_error']
      except Exception:
        pass
    _CUR[0] = None
