"""Self-contained virtual clock + deterministic greenlet scheduler for the C10 (TimerQueue) check.

`install(tq_module)` replaces the names `gevent`, `Event` and `time` inside scales.timer_queue by
proxies bound to the *current* World (see `World.activate`).  No gevent hub is involved: the worker
greenlet and the action greenlets are raw `greenlet.greenlet`s whose parent is the driver (the harness);
every blocking call of the code under test (`Event.wait()`, `Event.wait(timeout)`, `gevent.sleep(n)`)
switches back to the driver, which decides when and why (set() vs time-out) the greenlet resumes.

Semantics provided (the gevent contract assumed by DESIGN.md section 5, C10):
  Event.set/clear/is_set     flag only; set() makes a parked waiter *resumable*, it does not run it
  Event.wait(None)           returns True at once when the flag is set, else parks ('idle')
  Event.wait(t)              returns True at once when the flag is set, else parks ('timed', now + t);
                             resumed with True (by set) or False (time-out elapsed on the virtual clock)
  gevent.sleep(0)            always parks ('sleep0'), resumable immediately
  gevent.sleep(t > 0)        parks ('sleepn', now + t)           (not used by the unchanged code)
  gevent.spawn(f, *a)        first call per TimerQueue = the worker; later calls are appended to a FIFO of
                             action greenlets which the driver starts one at a time, oldest first
"""
import greenlet

_CUR = [None]


def cur():
  w = _CUR[0]
  if w is None:
    raise RuntimeError('no active C10 world')
  return w


class _G(object):
  """What gevent.spawn returns (TimerQueue.__del__ calls kill(block=False))."""

  def __init__(self, world, fn, args, kwargs):
    self.world = world
    self.fn = fn
    self.gr = greenlet.greenlet(lambda: fn(*args, **kwargs), parent=world.driver)
    self.exc = None
    self.tag = None

  def kill(self, exception=None, block=True, timeout=None):
    self.world.kill(self)

  @property
  def dead(self):
    return self.gr.dead


def Event():
  """What `Event()` inside scales.timer_queue evaluates to."""
  return cur().make_event()


class VEvent(object):
  def __init__(self, world):
    self._flag = False
    self.world = world
    world.events.append(self)

  def set(self):
    self._flag = True

  def clear(self):
    self._flag = False

  def is_set(self):
    return self._flag

  isSet = is_set
  ready = is_set

  def wait(self, timeout=None):
    if self._flag:
      return True
    w = self.world
    if timeout is None:
      return w.park('idle', None, self)
    return w.park('timed', w.now + timeout, self)


class _GeventProxy(object):
  def __getattr__(self, k):
    import gevent
    return getattr(gevent, k)

  def spawn(self, fn, *args, **kwargs):
    return cur().spawn(fn, args, kwargs)

  def sleep(self, seconds=0, ref=True):
    return cur().sleep(seconds)

  def idle(self, priority=0):
    return cur().sleep(0)


class _TimeProxy(object):
  def __getattr__(self, k):
    import time
    return getattr(time, k)

  def time(self):
    return cur().now


GEVENT = _GeventProxy()
TIME = _TimeProxy()


def install(tq_module):
  tq_module.gevent = GEVENT
  tq_module.Event = Event
  tq_module.time = TIME


class World(object):
  """One TimerQueue under test + its clock + its greenlets.  All times are float seconds."""

  def __init__(self, t0=0.0):
    self.now = t0
    self.driver = greenlet.getcurrent()
    self.worker = None          # _G
    self.parked = None          # (kind, expiry, event) while the worker is parked; ('top', None, None) before start
    self.worker_exc = None
    self.fifo = []              # spawned action greenlets not yet run: list of _G
    self.events = []
    self.on_spawn = None        # callback(fn) when the code under test spawns an action
    self.action_errors = []

  def activate(self):
    _CUR[0] = self
    return self

  def time(self):
    return self.now

  # ---- called from inside the code under test -------------------------------------------------
  def make_event(self):
    return VEvent(self)

  def sleep(self, seconds):
    if seconds <= 0:
      return self.park('sleep0', None, None)
    return self.park('sleepn', self.now + seconds, None)

  def spawn(self, fn, args, kwargs):
    if not callable(fn):
      raise TypeError('The run argument or attribute must be callable')      # as gevent.spawn does
    g = _G(self, fn, args, kwargs)
    if self.worker is None:
      self.worker = g
      self.parked = ('top', None, None)
    else:
      self.fifo.append(g)
      g.tag = self.on_spawn(fn) if self.on_spawn else None
    return g

  def park(self, kind, expiry, event):
    me = greenlet.getcurrent()
    if self.worker is None or me is not self.worker.gr:
      raise RuntimeError('blocking call (%s) outside the worker greenlet' % kind)
    self.parked = (kind, expiry, event)
    return self.driver.switch()          # the value passed by resume_worker

  # ---- driver side --------------------------------------------------------------------------
  def worker_dead(self):
    return self.worker is not None and self.worker.gr.dead

  def worker_enabled(self):
    """(resumable by the event, resumable without it: start / sleep(0) over / time-out elapsed)."""
    if self.worker is None or self.worker.gr.dead or self.parked is None:
      return (False, False)
    kind, exp, evt = self.parked
    if kind in ('top', 'sleep0'):
      return (False, True)
    if kind == 'idle':
      return (evt.is_set(), False)
    if kind == 'timed':
      return (evt.is_set(), self.now >= exp)
    if kind == 'sleepn':
      return (False, self.now >= exp)
    return (False, False)

  def resume_worker(self, by_event):
    en = self.worker_enabled()
    if not (en[0] if by_event else en[1]):
      raise RuntimeError('worker not resumable this way')
    kind = self.parked[0]
    self.parked = None
    prev, _CUR[0] = _CUR[0], self             # several worlds may be alive: the running greenlet's world is current
    try:
      if kind in ('idle', 'timed'):
        self.worker.gr.switch(bool(by_event))
      else:
        self.worker.gr.switch()
    except greenlet.GreenletExit:
      pass
    except Exception as e:                     # the worker greenlet died with an exception
      self.worker_exc = type(e).__name__
    finally:
      _CUR[0] = prev
    if self.worker.gr.dead:
      self.parked = None

  def run_next(self):
    g = self.fifo.pop(0)
    prev, _CUR[0] = _CUR[0], self
    try:
      g.gr.switch()
    except greenlet.GreenletExit:
      pass
    except BaseException as e:             # an action greenlet that dies takes nothing else with it
      if not getattr(e, 'expected', False):
        self.action_errors.append(type(e).__name__)
    finally:
      _CUR[0] = prev
    if not g.gr.dead:
      raise RuntimeError('action greenlet blocked')

  def kill(self, g):
    if g.gr.dead:
      return
    if greenlet.getcurrent() is g.gr:
      raise greenlet.GreenletExit()
    try:
      g.gr.throw(greenlet.GreenletExit)
    except Exception:
      pass

  def close(self):
    if self.worker is not None:
      self.kill(self.worker)
    for g in self.fifo:
      self.kill(g)
    self.fifo = []
    if _CUR[0] is self:
      _CUR[0] = None


# ------------------------------------------------------------------------------------------------
# Second world: the REAL gevent hub, Event and spawn; only time is virtual.  Used for end-to-end runs
# that are checked by the monitor alone (they validate the Event/sleep/spawn contract assumed above
# against the installed gevent).
# ------------------------------------------------------------------------------------------------
class RealWorld(object):
  def __init__(self, t0=0.0):
    import heapq
    import itertools
    self._heapq = heapq
    self.now = t0
    self.timers = []
    self._n = itertools.count()
    self.worker = None
    self.on_spawn = None
    self.greenlets = []
    self.livelock = False
    self.owners = {}
    self.workers = []
    import gevent
    gevent.get_hub().exception_stream = None      # actions that raise on purpose must not spam stderr

  def activate(self):
    _CUR[0] = self
    return self

  def time(self):
    return self.now

  def call_at(self, t, fn):
    ent = [t, next(self._n), fn]
    self._heapq.heappush(self.timers, ent)
    return ent

  def make_event(self):
    import gevent.event
    world = self

    class RealVEvent(gevent.event.Event):
      def wait(self, timeout=None):
        if timeout is None:
          return gevent.event.Event.wait(self)
        if self.is_set():
          return True
        woke = gevent.event.Event()
        by = []

        def on_timer():
          by.append('timeout')
          woke.set()

        def on_set(_):
          by.append('event')
          woke.set()
        ent = world.call_at(world.now + timeout, on_timer)
        self.rawlink(on_set)
        woke.wait()
        self.unlink(on_set)
        ent[2] = None
        return by[0] == 'event'        # gevent: True iff the wait was ended by set(), not by the time-out
    return RealVEvent()

  def sleep(self, seconds):
    import gevent
    import gevent.event
    if seconds <= 0:
      return gevent.sleep(0)
    e = gevent.event.Event()
    self.call_at(self.now + seconds, e.set)
    e.wait()

  def spawn(self, fn, args, kwargs):
    import gevent
    owner = getattr(fn, '__self__', None)
    if owner is not None and hasattr(owner, 'Schedule') and id(owner) not in self.owners:
      # first spawn by a TimerQueue instance = its worker
      self.owners[id(owner)] = True
      g = gevent.spawn(fn, *args, **kwargs)
      self.workers.append(g)
      if self.worker is None:
        self.worker = g
      return g
    if self.on_spawn:
      self.on_spawn(fn)
    g = gevent.spawn(fn, *args, **kwargs)
    self.greenlets.append(g)
    return g

  # ---- driver side ----
  def yield_once(self):
    import gevent
    gevent.sleep(0)

  def settle(self):
    """Runs the hub until nothing is runnable.  A greenlet that stays runnable for 2 s of real time without any
    clock advance is a livelock: flagged, never waited for."""
    import gevent
    if self.livelock:
      return
    with gevent.Timeout(2.0, False):
      gevent.idle()
      return
    self.livelock = True

  def advance_to(self, t, on_time=None):
    self.settle()
    while self.timers and self.timers[0][0] <= t:
      at, _n, fn = self._heapq.heappop(self.timers)
      if fn is None:
        continue
      if at > self.now:
        self.now = at
        if on_time:
          on_time()
      fn()
      self.settle()
    if t > self.now:
      self.now = t
      if on_time:
        on_time()
    self.settle()

  def close(self):
    import gevent
    gs = [g for g in self.workers + self.greenlets if g is not None]
    gevent.killall(gs, block=True, timeout=2.0)
    if _CUR[0] is self:
      _CUR[0] = None
