"""C12 - Timed-out calls are never transmitted afterwards; sent ones are discarded.

Implementation under test: the shipped Thrift and ThriftMux client stacks in the simulation world (as for C01).
Model: coq/Model/Pipeline.v.  For every call of every scenario the harness extracts, in the global order in which
they happened, the moments the call entered the timeout sink, reached a transport, was written (seen by the
scripted peer, decoded from the bytes on the fake socket), had its timer fire, was completed, had its connection
closed and had a Tdiscarded written; the sequence is replayed through Pipeline.step inside Coq (each label must be
enabled: e.g. a Write after the timer fired is refused by the model) and the writes/discards/outcome compared.
Monitor: the property statement on bytes received by the peers vs. what callers were handed.
"""
import logging
import sys

from .. import common as C

PID = 'C12'
PROPS_FILE = 'Props/C12.v'
COQ_HEADER = 'From Scales Require Import Model.Pipeline.'
COQ_CASE_TYPE = 'list Pipeline.case'
COQ_CHECK = '(forallb Pipeline.check_case)'
COQ_EXPLAIN = '(map (fun c => (Pipeline.check_case c, Pipeline.explain_case c)))'
SHARD = 300
WORKERS = 8
RULE = ('seeded full-stack scenarios biased to deadline races: per hop (balancer still opening, pool queue with max_watermark 1, '
        'slow connect, mux send queue, on the wire) the deadline is pinned just before / exactly at / just after the moment the '
        'call reaches that hop, plus the general C01 scenario stream; both same-tick timer orders; non-trivial = some call ended with '
        'TimeoutError; distinct by canonical JSON of the per-call label sequence')
TRUSTED = ['simulation world, scripted peers and tracing wrappers (harness/vworld.py, peers.py, scenario.py)',
           'the scripted peers decode what was written to the fake sockets with their own frame parsers']
ASSUMPTIONS = ['a socket sendall is atomic: a timeout firing during a partially written frame is not modelled',
               'hops above the transports are one model position (they never write); their individual guards are exercised by the '
               'scenarios and checked by the monitor, the theorem relies only on the guards in front of the write',
               'discard is expected only when the connection is still open and the peer has not answered']
MANIFEST = {
    'text': ('Theorems over every label sequence of the per-call pipeline model: with the caller handed TimeoutError the write is '
             'disabled wherever the request was waiting; at most one write; a timer firing on a written, subscribed mux request on an '
             'open connection queues a discard that persists until written or the connection closes and names the request\'s own tag; '
             'a request dropped from the send queue is never written; a serial frame arrives complete only while the deadline has not passed. Tied to the real stacks by replaying each simulated call.'),
    'note': ('Trusted: Coq kernel; simulation world, scripted peers, tracing wrappers; frame write atomicity. Theorems closed under '
             'the global context.'),
    'technique': 'Coq invariant over a per-call transition system + trace-driven replay of full-stack executions with deadlines pinned at each hop',
    'design_ref': 'DESIGN.md section 5, C12',
}

_S = {}


def setup():
  if _S:
    return
  logging.disable(logging.CRITICAL)
  if C.REPO not in sys.path:
    sys.path.insert(0, C.REPO)
  import scales
  assert scales.__file__.startswith(C.REPO), scales.__file__
  from harness import scenario
  _S['scenario'] = scenario


def pinned(r, i):
  """Scenarios that pin a deadline at a chosen hop."""
  stack = ['thrift', 'mux'][i % 2]
  hop = r.choice(['gate', 'gatewire', 'pool', 'connect', 'sendq', 'slowq', 'wire', 'wire'])
  off = r.choice([-1, 0, 0, 1])
  spec = {'stack': stack, 'tie': r.choice(['fifo', 'lifo']), 'timeout': 64, 'seed': r.randrange(1 << 30),
          'resolution': r.choice([1, 1, 4]), 'endpoints': [{'port': 9001, 'default': {'act': 'reply', 'delay': r.choice([0, 2, 30])},
                                                          'plan': {}, 'reach': []}],
          'events': [], 'faults': [], 'horizon': 400}
  ep = spec['endpoints'][0]
  if hop == 'gate':
    # client still opening (slow connect) when the call is issued; deadline around the moment the open completes
    d = r.choice([3, 8, 20])
    ep['connect_delay'] = d
    spec['open_timeout0'] = True
    direct = r.random() < 0.7
    spec['events'] = [{'at': 0, 'op': 'call', 'id': 'c0', 'timeout': max(1, d + off), 'direct': direct},
                      {'at': 0, 'op': 'call', 'id': 'c1', 'timeout': max(1, d + off + r.choice([0, 1])), 'direct': direct}]
  elif hop == 'gatewire':
    # issued while the balancer is still opening, survives the wait, then times out on the wire unanswered
    d = r.choice([2, 6, 15])
    ep['connect_delay'] = d
    spec['open_timeout0'] = True
    T = d + r.choice([3, 8, 20])
    ep['plan'] = {'c0': {'act': 'drop'}, 'c1': {'act': 'reply', 'delay': T + 5}}
    direct = r.random() < 0.8
    spec['events'] = [{'at': 0, 'op': 'call', 'id': 'c0', 'timeout': T, 'direct': direct},
                      {'at': 1, 'op': 'call', 'id': 'c1', 'timeout': T, 'direct': direct},
                      {'at': d + 1, 'op': 'call', 'id': 'c2', 'timeout': T}]
  elif hop == 'slowq':
    # a slow write stalls the send loop (or the serial transaction) while later requests time out behind it
    sd = r.choice([3, 6, 10])
    ep['send_delay'] = sd
    n = r.choice([3, 4, 6])
    spec['events'] = [{'at': 0, 'op': 'call', 'id': 'c0', 'timeout': 64}]
    for k in range(1, n):
      spec['events'].append({'at': r.choice([0, 0, 1]), 'op': 'call', 'id': 'c%d' % k,
                             'timeout': r.choice([1, 2, sd - 1, sd, sd + 1, 64])})
    ep['default'] = {'act': 'reply', 'delay': r.choice([0, 2])}
    spec['pool'] = {'min': 1, 'max': r.choice([1, 2]), 'maxq': 8}
  elif hop == 'pool' and stack == 'thrift':
    # max_watermark 1: c1 waits for c0's connection; c0 answers after `d`; c1's deadline around that moment
    d = r.choice([4, 10, 25])
    spec['pool'] = {'min': 1, 'max': 1, 'maxq': 8}
    ep['plan'] = {'c0': {'act': 'reply', 'delay': d}}
    spec['events'] = [{'at': 0, 'op': 'call', 'id': 'c0', 'timeout': 64},
                      {'at': 1, 'op': 'call', 'id': 'c1', 'timeout': max(1, d - 1 + off)},
                      {'at': 1, 'op': 'call', 'id': 'c2', 'timeout': max(1, d - 1 + off + 1)}]
  elif hop == 'connect':
    # connection established only when the first request arrives at a fresh pool member / after a reconnect
    d = r.choice([3, 9, 17])
    ep['connect_delay'] = d
    spec['pool'] = {'min': 0, 'max': 3, 'maxq': 8}
    spec['events'] = [{'at': 0, 'op': 'call', 'id': 'c0', 'timeout': max(1, d + off)},
                      {'at': 0, 'op': 'call', 'id': 'c1', 'timeout': max(1, d + off + 1)},
                      {'at': 2, 'op': 'call', 'id': 'c2', 'timeout': max(1, d - 2 + off)}]
  elif hop == 'sendq' or (hop == 'pool' and stack == 'mux'):
    # many calls in the same tick: they sit in the mux send queue / are issued in one burst with tiny deadlines
    n = r.choice([2, 4, 8])
    spec['events'] = [{'at': 0, 'op': 'call', 'id': 'c%d' % k, 'timeout': r.choice([1, 1, 2, 64])} for k in range(n)]
    ep['default'] = {'act': 'reply', 'delay': r.choice([0, 1, 2, 5])}
  else:
    # on the wire: peer answers around the deadline or never
    d = r.choice([5, 12, 33])
    ep['plan'] = {'c0': r.choice([{'act': 'drop'}, {'act': 'reply', 'delay': d + off}, {'act': 'reply', 'delay': d + 1}]),
                  'c1': {'act': 'reply', 'delay': d + off}}
    spec['events'] = [{'at': 0, 'op': 'call', 'id': 'c0', 'timeout': d}, {'at': 0, 'op': 'call', 'id': 'c1', 'timeout': d},
                      {'at': d + 3, 'op': 'call', 'id': 'c2', 'timeout': 20}]
    if r.random() < 0.3:
      spec['faults'] = [{'op': 'recv', 'nth': r.choice([3, 4, 5, 6]), 'what': r.choice(['exc', 'eof']), 'port': None}]
  return spec


def gen_cases(tier, seed):
  from harness import scengen
  n = 360 if tier == 'quick' else 6000
  out = []
  for i in range(n):
    r = C.case_rng(seed, PID, i)
    if i % 3 != 2:
      spec = pinned(r, i)
      kind = spec['stack'] + '/pinned'
    else:
      spec = scengen.gen(r, profile=['timeouts', 'mixed', 'faults'][(i // 3) % 3], idx=i)
      for ep in spec['endpoints']:
        for cid, a in list((ep.get('plan') or {}).items()):
          if a.get('act') == 'bogus':       # a peer answering on a tag of its own choosing can "answer" a request that
            ep['plan'][cid] = {'act': 'reply', 'delay': a.get('delay', 0)}   # is still queued: outside this property
      kind = spec['stack'] + '/general'
    out.append({'kind': kind, 'spec': spec})
  return out


def search_cases(tier, seed, diverging):
  out = []
  for i in range(1500):
    r = C.case_rng(seed + 15485863, PID, i)
    out.append({'kind': 'search', 'spec': pinned(r, i)})
  return out


def run_impl(case):
  setup()
  tr = _S['scenario'].run(case['spec'])
  calls = {cid: {k: c.get(k) for k in ('issued', 'timeout', 'done', 'opened', 'issue_error')} for cid, c in tr['calls'].items()}
  return {'calls': calls, 'events': tr['events'], 'servers': {p: {'requests': s['requests'], 'discards': s['discards']}
                                                               for p, s in tr['servers'].items()},
          'closes': tr.get('closes', []), 'crashes': tr['crashes'], 'now': tr['now']}


def _per_call(case, obs):
  """Collects, per call, everything that happened to it with global sequence numbers."""
  spec = case['spec']
  plans = {}
  for ep in spec['endpoints']:
    plans[str(ep['port'])] = (ep.get('plan') or {}, ep.get('default') or {'act': 'reply', 'delay': 0})
  info = {}
  for cid, c in obs['calls'].items():
    info[cid] = {'c': c, 'ev': [], 'reqs': [], 'discards': []}
  for e in obs['events']:
    cid = e[2]
    if cid in info:
      info[cid]['ev'].append(e)
  allreqs = []
  for port, s in obs['servers'].items():
    for rq in s['requests']:
      rq = dict(rq, port=port)
      allreqs.append(rq)
      if rq['id'] in info:
        info[rq['id']]['reqs'].append(rq)
  spurious = []
  for port, s in obs['servers'].items():
    for d in s['discards']:
      # the call whose request carried the named tag on this connection most recently before the discard
      best = None
      for rq in allreqs:
        if rq['port'] == port and rq['conn'] == d['conn'] and rq.get('tag') == d['named'] and rq['seq'] < d['seq']:
          if best is None or rq['seq'] > best['seq']:
            best = rq
      if best is None or best['id'] not in info:
        spurious.append(dict(d, port=port))
      else:
        info[best['id']]['discards'].append(dict(d, port=port))
  return info, plans, spurious


def monitor(case, obs):
  v = []
  info, plans, spurious = _per_call(case, obs)
  for d in spurious:
    v.append(('discard-for-unknown-tag', 'Tdiscarded naming tag %s on connection %s that no written request carries' % (d['named'], d['conn'])))
  for cid, x in info.items():
    c = x['c']
    handed = None
    for e in x['ev']:
      if e[1] == 'caller-set' and e[3] == 'TimeoutError' and handed is None:
        handed = e
    if len(x['reqs']) > 1:
      v.append(('request-written-twice', 'call %s was written %d times' % (cid, len(x['reqs']))))
    if handed is None:
      continue
    hseq, htick = handed[-1], handed[0]
    for rq in x['reqs']:
      # a write counts from the moment it starts (a frame whose write began before the time-out is completed:
      # aborting it would corrupt the stream; see ASSUMPTIONS)
      if rq['wseq'] > hseq:
        v.append(('write-after-timeout', 'call %s was handed TimeoutError at tick %s and the write of its request to port %s started at tick %s afterwards'
                  % (cid, htick, rq['port'], rq['wat'])))
      # the serial transport arms its own deadline timer before it writes: a write that is still blocked when the
      # deadline passes is aborted (and the connection recycled), so the frame can never arrive complete at a later tick
      # than the one at which the caller was handed TimeoutError (the mux send loop, by contrast, finishes a frame it has
      # started - aborting would corrupt the shared stream - and then sends Tdiscarded)
      if case['spec']['stack'] == 'thrift' and rq['at'] > htick:
        v.append(('serial-write-completed-after-timeout', 'call %s was handed TimeoutError at tick %s; its request, whose write began at '
                  'tick %s, was still being transmitted and reached port %s complete at tick %s' % (cid, htick, rq['wat'], rq['port'], rq['at'])))
    # discard expectation (mux only)
    if case['spec']['stack'] == 'mux':
      fired = [e for e in x['ev'] if e[1] == 'timer-fire' and e[3]]
      written = [rq for rq in x['reqs'] if rq['wseq'] < hseq]
      if fired and written:
        rq = written[0]
        plan, default = plans[rq['port']]
        act = plan.get(cid, default)
        answered_later_or_never = act.get('act') in ('drop',) or (act.get('act') in ('reply', 'exc', 'null', 'dup', 'bogus', 'rerr', 'garbage')
                                                                   and rq['at'] + act.get('delay', 0) > htick)
        closed = [cl for cl in obs['closes'] if str(cl[1]) == rq['port'] and cl[2] == rq['conn']]
        slow = max([ep.get('send_delay', 0) for ep in case['spec']['endpoints']] + [0])
        # the discard is queued behind whatever the send loop still has to write (slow writes): it is only owed if
        # the connection stays open long enough for that
        still_open = not closed or min(cl[0] for cl in closed) > htick + 1 + 40 * slow
        settled = obs['now'] >= htick + 2 + 40 * slow
        mine = [d for d in x['discards'] if d['conn'] == rq['conn']]
        if answered_later_or_never and still_open and settled and not mine:
          v.append(('discard-missing', 'call %s (tag %s) timed out at tick %s after being written at tick %s on an open connection, no Tdiscarded naming its tag was sent'
                    % (cid, rq.get('tag'), htick, rq['at'])))
        for d in mine:
          if d['frame_tag'] != 0:
            v.append(('discard-frame-tag', 'Tdiscarded frame tag %s' % d['frame_tag']))
  # exceptions escaping a greenlet are recorded in the evidence (stats) but are not by themselves a violation of this
  # property: e.g. a message entering through StaticDispatchMessage while the balancer is still opening is processed
  # inside a hub callback, where the resurrector's sleep(0) / a pool's Open().wait() raise BlockingSwitchOutError;
  # the call then still completes through its timer.
  return v


def _labels(cid, x, obs, spec):
  c = x['c']
  items = []   # (seq, tick, label)
  wrote = None
  for rq in x['reqs']:
    items.append((rq['wseq'], rq['wat'], 'Write'))
    if spec['stack'] == 'thrift' and rq.get('seq') is not None and rq['seq'] > rq['wseq']:
      # the serial frame has arrived at the peer completely (later than the write started when the write is slow)
      items.append((rq['seq'], rq['at'], 'WriteDone'))
    wrote = rq
  fired = False
  entered = None
  to_serial_ok = None
  for e in x['ev']:
    k, t, sq = e[1], e[0], e[-1]
    if k == 'tsink':
      entered = e
      items.append((sq, t, '(Enter %s)' % C.zlit(e[3] if e[3] is not None else 10 ** 9)))
    elif k == 'timer-fire' and e[3]:
      fired = True
      items.append((sq, t, 'Fire'))
    elif k == 'to-serial' and e[3]:
      to_serial_ok = e
      items.append((sq, t, 'ToSerial'))
    elif k == 'to-sendq' and e[3]:
      items.append((sq, t, '(ToSendQ %s)' % C.zlit(e[3])))
    elif k == 'caller-set' and e[3] == 'TimeoutError' and entered is None:
      items.append((sq, t, 'OuterTimeout'))     # timed out while waiting for Open(): never dispatched
    elif k == 'notify':
      items.append((sq, t, 'Notify'))
    elif k == 'answered':
      items.append((sq, t, 'Answered'))
    elif k == 'complete':
      if e[3] == 'TimeoutError':
        if fired:
          items.append((sq, t, 'TimedOut'))
        elif entered is None:
          pass
        elif wrote is not None and spec['stack'] == 'thrift':
          items.append((sq, t, 'SerialTimeout'))
        elif to_serial_ok is not None:
          items.append((sq, t, 'NoWrite'))
        # else: expired on entry, part of Enter
      else:
        items.append((sq, t, 'Complete'))
  if wrote is not None:
    for cl in obs['closes']:
      if str(cl[1]) == wrote['port'] and cl[2] == wrote['conn'] and cl[3] is not None and cl[3] > wrote['wseq']:
        items.append((cl[3], cl[0], 'ConnClosed'))
        break
  for d in x['discards']:
    items.append((d['seq'], d['at'], '(Discard %s)' % C.zlit(d['named'])))
  items.sort()
  labels = []
  cur = c['issued']
  for sq, t, l in items:
    if t > cur:
      labels.append('(Tick %s)' % C.zlit(t))
      cur = t
    labels.append(l)
  handed = any(e[1] == 'caller-set' and e[3] == 'TimeoutError' for e in x['ev'])
  fire_tick = max([e[0] for e in x['ev'] if e[1] == 'timer-fire' and e[3]] + [-1])
  slow = max([ep.get('send_delay', 0) for ep in spec['endpoints']] + [0])
  settled = fire_tick >= 0 and obs['now'] >= fire_tick + 2 + 40 * slow
  return labels, handed, settled


def to_coq(case, obs):
  info, plans, spurious = _per_call(case, obs)
  terms = []
  for cid in sorted(info):
    x = info[cid]
    if x['c'].get('issue_error') or x['c']['timeout'] <= 0 or not any(e[1] in ('tsink', 'caller-set') for e in x['ev']):
      continue
    if any(e[1] == 'tsink' and e[3] is None for e in x['ev']):
      continue   # no deadline on this call
    labels, handed, settled = _labels(cid, x, obs, case['spec'])
    writes = C.zlist([rq['wat'] for rq in sorted(x['reqs'], key=lambda q: -q['wseq'])])
    discards = C.zlist([d['named'] for d in sorted(x['discards'], key=lambda q: -q['seq'])])
    terms.append('{| c_start := %s; c_labels := %s; c_handed := %s; c_writes := %s; c_discards := %s; c_settled := %s |}' % (
        C.zlit(x['c']['issued']), C.lst(labels), C.blit(handed), writes, discards, C.blit(settled)))
  return C.lst(terms)


def nontrivial(case, obs):
  return any(c['done'] and c['done'][0]['kind'] == 'TimeoutError' for c in obs['calls'].values())


def describe(case, obs):
  return {'spec': case['spec'], 'calls': obs['calls'], 'servers': obs['servers']}


def stats(cases, obs):
  n = t = w = d = nowrite = 0
  for c, o in zip(cases, obs):
    if not isinstance(o, dict) or 'calls' not in o:
      continue
    info, _p, _s = _per_call(c, o)
    for cid, x in info.items():
      n += 1
      if any(e[1] == 'caller-set' and e[3] == 'TimeoutError' for e in x['ev']):
        t += 1
        if x['reqs']:
          w += 1
        else:
          nowrite += 1
      d += len(x['discards'])
  return {'calls': n, 'timed_out': t, 'timed_out_after_write': w, 'timed_out_never_written': nowrite, 'discards_seen': d}
