"""C13 - ThriftMux frames are byte-exact for every message, tag and context.

Implementation under test (imported from /repo as it is now):
  scales.thriftmux.sink.SocketTransportSink._BuildHeader / ThriftMuxMessageSerializerSink.ReadHeader
  scales.thriftmux.serializer.MessageSerializer.Marshal (Tdispatch, Tdiscarded), _Unmarshal_Rdispatch
  scales.mux.sink.MuxSocketTransportSink.AsyncProcessRequest (header ++ body, via a captured send queue)
Model: coq/Model/MuxCodec.v.  Monitor: an independent Python mux decoder (third implementation).
"""
import json
import io
import struct
import sys

from .. import common as C

PID = 'C13'
PROPS_FILE = 'Props/C13.v'
COQ_HEADER = 'From Scales Require Import Model.Bytes Model.Utf8 Model.MuxCodec.'
COQ_CASE_TYPE = 'MuxCodec.case'
COQ_CHECK = 'MuxCodec.check_case'
COQ_EXPLAIN = 'MuxCodec.explain_case'
SHARD = 250
RULE = ('seeded generator over header fields (all message-type constants, tag edge values 0,1,2,255,256,65535,65536,'
        '2^24-1 and random, out-of-range values), context dictionaries with ASCII/Latin-1/BMP/astral/empty/32767-32768-byte '
        'strings, colliding property/header keys, private "__" keys, deadlines at int64 edges, payload sizes 0..2000 '
        '(to 200k for the python-only third decoder), reply prefixes with 0..4 context pairs incl. truncated ones; '
        'whole-connection byte streams (real thriftmux client stack in the simulated world, two-part blocking socket writes, '
        'keep-alive pings every 2-40 ticks, payloads 0-3000 bytes, deadlines producing Tdiscarded, peers closing/resetting, '
        'client close): the bytes that reached the peer are split by the model reader and must be exactly the buffers handed to '
        'the socket, each a well-formed client frame; '
        'non-trivial = the implementation produced bytes (no exception) and the input is not all-ASCII-empty; distinct by '
        'canonical JSON of (case, observation)')
TRUSTED = ['Thrift library (TBinaryProtocol) produces the opaque call payload inside Tdispatch; it is compared byte for byte '
           'with an independent use of the same library',
           'independent Python mux decoder in harness/props/c13.py (monitor)']
ASSUMPTIONS = ['struct.pack/unpack semantics of CPython as transcribed in Model/Bytes.v (pack_s/pack_u/unpack_s)',
               'payloads above 2000 bytes are checked against the Python decoder only, not evaluated inside Coq']

MANIFEST = {
    'text': ('Theorems C13_length_exact, C13_dispatch_roundtrip, C13_discard_roundtrip, C13_header_inverse, C13_header_total, '
             'C13_rdispatch_skip, C13_utf8_len_ge, C13_stream_self_delimiting, C13_stream_cut_tail, C13_frames_are_well_formed hold for every type, tag, context dictionary, string and payload (no size bound) of '
             'the Gallina transcription of the ThriftMux encoder/readers, against an independently written decoder; the '
             'transcription is compared with the real code on ~1.6k (quick) / ~13k (thorough) generated inputs per run.'),
    'note': ('Trusted: Coq kernel; the correspondence harness (harness/props/c13.py) and its sampling; struct semantics as modelled in '
             'Model/Bytes.v; the Thrift call payload is opaque bytes (C14). All theorems closed under the global context.'),
    'technique': 'Coq proof (round-trip against independent decoder, arithmetic header inverse) + differential execution model vs code',
    'design_ref': 'DESIGN.md section 5, C13',
}

_S = {}


def setup():
  if _S:
    return
  if C.REPO not in sys.path:
    sys.path.insert(0, C.REPO)
  import scales
  assert scales.__file__.startswith(C.REPO), scales.__file__
  from scales.thriftmux.sink import SocketTransportSink, ThriftMuxMessageSerializerSink
  from scales.thriftmux.serializer import MessageSerializer
  from scales.thriftmux.protocol import MessageType
  from scales.message import MethodCallMessage, MethodDiscardMessage, Deadline
  from scales.constants import TransportHeaders
  from harness.ifaces.hello import Hello
  _S.update(SocketTransportSink=SocketTransportSink, Ser=ThriftMuxMessageSerializerSink,
            MessageSerializer=MessageSerializer, MessageType=MessageType, MethodCallMessage=MethodCallMessage,
            MethodDiscardMessage=MethodDiscardMessage, Deadline=Deadline, TransportHeaders=TransportHeaders,
            Hello=Hello)


# ---------------------------------------------------------------------------------------------
# generators
# ---------------------------------------------------------------------------------------------
TYPES = [2, -2, -128, 127, 65, -65, 66, -62, 0, 1, -1, 64, -64, 126, -127]
TAGS = [0, 1, 2, 3, 255, 256, 257, 65535, 65536, 65537, 2 ** 24 - 2, 2 ** 24 - 1]
ALPH = [
    'abcxyzKEY._-0123456789',                    # ascii
    'éàüñÿ¡¿',                                   # latin-1 (2 bytes)
    '€漢字ღ✓߿ࠀ￿',                   # BMP (3 bytes), boundaries
    '\U0001F600\U00010000\U0010FFFF𝔘',           # astral (4 bytes)
    '\x00\x7f\x80',                              # edges
]


def rand_text(r, maxlen=12):
  n = r.choice([0, 1, 2, 3, 5, 8, maxlen])
  a = r.choice(ALPH + [''.join(ALPH)])
  return ''.join(r.choice(a) for _ in range(n))


def rand_key(r):
  t = rand_text(r)
  k = r.random()
  if k < 0.15:
    return '__' + t
  if k < 0.2:
    return '_' + t
  return t


def rand_val(r):
  k = r.random()
  if k < 0.6:
    return {'s': rand_text(r, 20)}
  if k < 0.9:
    e = r.choice([0, 1, -1, 2 ** 63 - 1, -2 ** 63, 2 ** 63, -2 ** 63 - 1, r.randrange(0, 2 ** 62), 1790000000 * 10 ** 9])
    f = r.choice([0, 1, 10 ** 9, 2 ** 63 - 1, -5, r.randrange(0, 2 ** 40)])
    return {'d': [e, f]}
  return {'o': r.choice([5, None, 1.5])}


def rand_dict(r, n):
  d = []
  seen = set()
  for _ in range(n):
    k = rand_key(r)
    if k in seen:
      continue
    seen.add(k)
    d.append([k, rand_val(r)])
  return d


def gen_stream(r):
  """A whole connection's byte stream: the real thriftmux client stack in the simulated world, slow (two-part, blocking)
  socket writes, keep-alive pings every few ticks, calls with assorted payload sizes and deadlines (so Tdispatch, Tping
  and Tdiscarded frames compete for the socket), now and then a peer that closes or a client that is closed mid-run."""
  timeout = r.choice([6, 12, 24, 48])
  n_calls = r.choice([2, 4, 6, 10])
  ep = {'port': 9001, 'send_delay': r.choice([1, 2, 3, 5, 8]), 'ping': True,
        'default': {'act': 'reply', 'delay': r.choice([0, 1, 3, timeout + 2])}, 'plan': {}, 'reach': []}
  evs = []
  t = 0
  for i in range(n_calls):
    cid = 'c%d' % i
    t += r.choice([0, 0, 1, 2, 5, 9])
    evs.append({'at': t, 'op': 'call', 'id': cid, 'pad': 'p' * r.choice([0, 1, 10, 100, 700, 3000])})
    x = r.random()
    if x < 0.3:
      ep['plan'][cid] = {'act': 'drop'}
    elif x < 0.4:
      ep['plan'][cid] = {'act': r.choice(['close', 'reset']), 'delay': r.choice([0, 2, 7])}
  if r.random() < 0.2 and n_calls >= 2:
    # a large body (>= 64 KiB) whose deadline passes while it is still queued behind the previous call's slow write
    k = r.randrange(1, n_calls)
    evs[k]['pad'] = 'p' * r.choice([65536, 70000])
    evs[k]['at'] = evs[k - 1]['at']
    evs[k]['timeout'] = r.choice([1, 1, 2, ep['send_delay']])
    for j in range(k + 1, n_calls):
      evs[j]['at'] = max(evs[j]['at'], evs[k]['at'])
  if r.random() < 0.15:
    evs.append({'at': r.randrange(0, t + 10), 'op': 'close'})
  spec = {'stack': 'mux', 'tie': r.choice(['fifo', 'lifo']), 'timeout': timeout, 'seed': r.randrange(1 << 30),
          'endpoints': [ep], 'events': sorted(evs, key=lambda e: e['at']), 'faults': [],
          'ping_ticks': [r.choice([2, 3, 5]), r.choice([7, 11, 13]), r.choice([17, 40])],
          'horizon': t + timeout + r.choice([20, 60, 150]), 'open_limit': 640}
  return {'kind': 'stream', 'spec': spec}


def gen_cases(tier, seed):
  n = 1200 if tier == 'quick' else 12000
  out = []
  # deterministic edge grid for header writer / reader
  for t in TYPES:
    for g in TAGS:
      out.append({'kind': 'header', 'tag': g, 'type': t, 'dlen': (t * 37 + g) % 5000})
  for t in [-129, 128, 300]:
    out.append({'kind': 'header', 'tag': 5, 'type': t, 'dlen': 0})
  for d in [2 ** 31 - 5, 2 ** 31 - 4, -4, -5, -2 ** 31 - 4, -2 ** 31 - 5]:
    out.append({'kind': 'header', 'tag': 5, 'type': 2, 'dlen': d})
  for g in [-1, 2 ** 24, 2 ** 24 + 7, 2 ** 32 + 1]:
    out.append({'kind': 'header', 'tag': g, 'type': 2, 'dlen': 1})
  for b in range(256):                      # every type byte through the reader
    out.append({'kind': 'readheader', 'bytes': [b, (b * 7) % 256, (b * 13) % 256, 255 - b, 9, 9]})
  for k in range(0, 5):                     # short reads
    out.append({'kind': 'readheader', 'bytes': [1] * k})
  for i in range(n // 8):
    r = C.case_rng(seed, PID + 'pipe', i)
    msgs = []
    for _ in range(r.choice([2, 3, 5, 8])):
      msgs.append({'arg': rand_text(r, 6), 'plen': r.choice([0, 0, 1, 30, 300, r.randrange(0, 1200)]),
                   'props': [[kk, vv] for kk, vv in rand_dict(r, r.choice([0, 1, 3])) if 's' in vv],
                   'deadline': r.choice([None, None, 1790000000.5 + r.randrange(0, 1000), 0.25])})
    out.append({'kind': 'pipeline', 'msgs': msgs, 'now': 1790000000 + r.randrange(0, 10 ** 6) + r.choice([0.0, 0.75]),
                'client_id': r.choice([None, 'cid', rand_text(r, 8) or 'x'])})
  for i in range(n // 40):
    out.append(gen_stream(C.case_rng(seed, PID + 'stream', i)))
  for i in range(n):
    r = C.case_rng(seed, PID, i)
    k = r.random()
    if k < 0.2:
      out.append({'kind': 'header', 'tag': r.choice(TAGS + [r.randrange(0, 2 ** 24)]),
                  'type': r.choice(TYPES + [r.randrange(-128, 128)]), 'dlen': r.choice([0, 1, r.randrange(0, 2 ** 20)])})
    elif k < 0.35:
      t = r.choice(TYPES + [r.randrange(-128, 128)])
      g = r.choice(TAGS + [r.randrange(0, 2 ** 24)])
      hdr = struct.pack('!bBBB', t, g >> 16 & 255, g >> 8 & 255, g & 255)
      out.append({'kind': 'readheader', 'bytes': list(hdr) + [r.randrange(256) for _ in range(r.choice([0, 3]))],
                  'want': [t, g]})
    elif k < 0.75:
      props = rand_dict(r, r.choice([0, 1, 2, 3, 6]))
      hdrs = rand_dict(r, r.choice([0, 0, 1, 2]))
      if props and r.random() < 0.4:       # colliding key between properties and headers
        pk = [p for p in props if not p[0].startswith('__')]
        if pk:
          hdrs.append([r.choice(pk)[0], rand_val(r)])
          hdrs = [list(x) for x in {h[0]: h for h in hdrs}.values()]
      if r.random() < 0.5:
        hdrs.append(['com.twitter.finagle.Deadline', {'d': [r.randrange(0, 2 ** 62), r.randrange(0, 2 ** 62)]}])
        hdrs = [list(x) for x in {h[0]: h for h in hdrs}.values()]
      if r.random() < 0.3:
        props.append(['com.twitter.finagle.thrift.ClientIdContext', {'s': rand_text(r, 10)}])
        props = [list(x) for x in {h[0]: h for h in props}.values()]
      big = None
      if i % (n // 6) == 7:               # a handful of boundary-size entries per run (literals are large)
        big = [['k', 32767], ['k', 32768], ['v', 32767], ['v', 32768], ['v3', 10923], ['v3', 10922]][(i // (n // 6)) % 6]
      plen = r.choice([0, 1, 5, 100, r.randrange(0, 2000)])
      if tier == 'thorough' and r.random() < 0.02:
        plen = r.randrange(2000, 200000)
      out.append({'kind': 'dispatch', 'tag': r.choice(TAGS + [r.randrange(2, 2 ** 24)]), 'props': props, 'headers': hdrs,
                  'big': big, 'arg': rand_text(r, 6), 'plen': plen})
    elif k < 0.87:
      out.append({'kind': 'discard', 'which': r.choice(TAGS + [r.randrange(0, 2 ** 24), -1, 2 ** 24 + 3]),
                  'reason': r.choice(['Client timeout', '', rand_text(r, 30)])})
    else:
      pairs = [[[r.randrange(256) for _ in range(r.choice([0, 1, 4, 40]))],
                [r.randrange(256) for _ in range(r.choice([0, 2, 16]))]] for _ in range(r.choice([0, 1, 2, 4]))]
      rest = [r.randrange(256) for _ in range(r.choice([0, 1, 10, 60]))]
      status = r.choice([0, 1, 2, 3, 127, -1])
      body = struct.pack('!bh', status, len(pairs))
      for kx, vx in pairs:
        body += struct.pack('!h', len(kx)) + bytes(kx) + struct.pack('!h', len(vx)) + bytes(vx)
      body += bytes(rest)
      trunc = None
      if r.random() < 0.15 and len(body) > 0:
        trunc = r.randrange(0, len(body))
        body = body[:trunc]
      elif r.random() < 0.05:
        body = bytes(r.randrange(256) for _ in range(r.randrange(0, 12)))
        trunc = -1
      out.append({'kind': 'rdispatch', 'bytes': list(body),
                  'want': None if trunc is not None else [status, rest]})
  return out


def search_cases(tier, seed, diverging):
  """Adversarial stream used only when proof/correspondence broke: many more non-ASCII contexts and all tags."""
  out = []
  for i in range(4000):
    r = C.case_rng(seed + 7919, PID, i)
    props = rand_dict(r, r.choice([1, 2, 3]))
    out.append({'kind': 'dispatch', 'tag': r.randrange(0, 2 ** 24), 'props': props, 'headers': rand_dict(r, 1),
                'big': None, 'arg': rand_text(r, 6), 'plen': r.randrange(0, 50)})
  for t in range(-128, 128):
    for g in TAGS:
      hdr = struct.pack('!bBBB', t, g >> 16 & 255, g >> 8 & 255, g & 255)
      out.append({'kind': 'readheader', 'bytes': list(hdr), 'want': [t, g]})
      out.append({'kind': 'header', 'tag': g, 'type': t, 'dlen': g % 977})
  return out


# ---------------------------------------------------------------------------------------------
# implementation driver
# ---------------------------------------------------------------------------------------------
def _mkval(v):
  if 's' in v:
    return v['s']
  if 'd' in v:
    d = _S['Deadline'](0)
    d._ts, d._timeout = v['d']
    return d
  return v['o']


def _expand(case):
  """Materialises the (possibly huge) key/value requested by case['big']."""
  props = [[k, dict(v)] for k, v in case['props']]
  big = case.get('big')
  if big:
    what, n = big
    if what == 'k':
      props.append(['K' * n, {'s': 'v'}])
    elif what == 'v':
      props.append(['bigv', {'s': 'V' * n}])
    else:
      props.append(['bigv3', {'s': '€' * n}])
  return props


class _CaptureQueue(object):
  def __init__(self):
    self.items = []

  def put(self, x):
    self.items.append(x)


def _run_pipeline(case):
  """Messages through the real sink chain ClientIdInterceptorSink -> ThriftMuxMessageSerializerSink -> thriftmux
  SocketTransportSink.AsyncProcessRequest (send queue captured), one sink instance for the whole sequence."""
  import time as _time
  from scales.thriftmux.sink import ClientIdInterceptorSink
  from scales.constants import SinkProperties, ChannelState
  from scales.sink import ClientMessageSinkStack
  from scales.message import Deadline as _D

  class FakeSock(object):
    host = 'h'
    port = 1

    def isOpen(self):
      return True

    def close(self):
      pass
  tr = _S['SocketTransportSink'](FakeSock(), 'svc')
  tr._Init()
  tr._state = ChannelState.Open
  q = _CaptureQueue()
  tr._send_queue = q

  class Prov(object):
    def __init__(self, sink):
      self.sink = sink

    def CreateSink(self, props):
      return self.sink
  gp = {SinkProperties.ServiceInterface: _S['Hello'].Iface, SinkProperties.Label: 'svc'}
  ser = _S['Ser'](Prov(tr), None, gp)
  top = ser
  if case.get('client_id') is not None:
    top = ClientIdInterceptorSink(Prov(ser), ClientIdInterceptorSink.Builder(client_id=case['client_id']).sink_properties, gp)
  real_time = _time.time
  _time.time = lambda: case['now']
  out = []
  try:
    for m in case['msgs']:
      msg = _S['MethodCallMessage'](_S['Hello'].Iface, 'hi', (m['arg'] + 'x' * m['plen'],), {})
      for kk, vv in m['props']:
        msg.properties[kk] = vv['s']
      if m['deadline'] is not None:
        msg.properties[_D.KEY] = m['deadline']
      before = len(q.items)
      try:
        top.AsyncProcessRequest(ClientMessageSinkStack(), msg, None, {})
      except Exception as e:
        out.append({'exc': type(e).__name__})
        continue
      if len(q.items) == before + 1:
        out.append({'bytes': list(q.items[-1][0]), 'tag': msg.properties.get('__Tag')})
      else:
        out.append({'exc': 'not-queued'})
  finally:
    _time.time = real_time
  return {'frames': out}


def _run_stream(case):
  import subprocess
  import sys
  p = subprocess.run([sys.executable, '-m', 'harness.streamrun'], input=json.dumps([case['spec']]).encode(),
                     stdout=subprocess.PIPE, stderr=subprocess.PIPE, cwd=C.VERIF, timeout=600)
  if p.returncode != 0:
    raise RuntimeError('streamrun failed: %s' % p.stderr.decode()[-400:])
  o = json.loads(p.stdout.decode())[0]
  if 'harness_error' in o:
    raise RuntimeError('streamrun: ' + o['harness_error'])
  return o


def _pipeline_parts(case, m):
  """(props as supplied to the serializer, headers it adds) for one message of a pipeline case."""
  props = [[kk, dict(vv)] for kk, vv in m['props']]
  if m['deadline'] is not None:
    props.append(['__Deadline', {'o': m['deadline']}])
  if case.get('client_id') is not None:
    props = [p for p in props if p[0] != 'com.twitter.finagle.thrift.ClientIdContext']
    # dict semantics: an existing key keeps its position
    idx = [i for i, p in enumerate([[kk, vv] for kk, vv in m['props']]) if p[0] == 'com.twitter.finagle.thrift.ClientIdContext']
    ent = ['com.twitter.finagle.thrift.ClientIdContext', {'s': case['client_id']}]
    if idx:
      props.insert(idx[0], ent)
    else:
      props.append(ent)
  headers = []
  if m['deadline']:
    headers.append(['com.twitter.finagle.Deadline', {'d': [int(case['now']) * 1000000000, int(m['deadline'] * 1000000000)]}])
  return props, headers


def run_impl(case):
  setup()
  k = case['kind']
  if k == 'pipeline':
    return _run_pipeline(case)
  if k == 'stream':
    return _run_stream(case)
  try:
    if k == 'header':
      sink = _S['SocketTransportSink'].__new__(_S['SocketTransportSink'])
      b = sink._BuildHeader(case['tag'], case['type'], case['dlen'])
      return {'bytes': list(b)}
    if k == 'readheader':
      t, g = _S['Ser'].ReadHeader(io.BytesIO(bytes(case['bytes'])))
      return {'type': t, 'tag': g}
    if k == 'dispatch':
      ser = _S['MessageSerializer'](_S['Hello'].Iface)
      arg = case['arg'] + 'x' * case['plen']
      msg = _S['MethodCallMessage'](_S['Hello'].Iface, 'hi', (arg,), {})
      for kk, vv in _expand(case):
        msg.properties[kk] = _mkval(vv)
      headers = {kk: _mkval(vv) for kk, vv in case['headers']}
      buf = io.BytesIO()
      ser.Marshal(msg, buf, headers)
      mtype = headers[_S['TransportHeaders'].MessageType]
      sink = _S['SocketTransportSink'].__new__(_S['SocketTransportSink'])
      hdr = sink._BuildHeader(case['tag'], mtype, buf.tell())
      return {'bytes': list(hdr + buf.getvalue()), 'mtype': int(mtype)}
    if k == 'discard':
      buf = io.BytesIO()
      headers = {}
      m = _S['MethodDiscardMessage'](case['which'], case['reason'])
      _S['MessageSerializer'](None).Marshal(m, buf, headers)
      mtype = headers[_S['TransportHeaders'].MessageType]
      sink = _S['SocketTransportSink'].__new__(_S['SocketTransportSink'])
      hdr = sink._BuildHeader(0, mtype, buf.tell())
      return {'bytes': list(hdr + buf.getvalue()), 'mtype': int(mtype)}
    if k == 'rdispatch':
      ser = _S['MessageSerializer'](_S['Hello'].Iface)
      marks = {}

      class Stub(object):
        def DeserializeThriftCall(self, b):
          marks['rest'] = list(b.read())
          return 'thrift'
      ser._thrift_serializer = Stub()
      buf = io.BytesIO(bytes(case['bytes']))
      status = struct.unpack('!b', bytes(case['bytes'][:1]))[0] if case['bytes'] else None
      ret = ser._Unmarshal_Rdispatch(buf)
      if ret == 'thrift':
        return {'status': 0, 'rest': marks['rest']}
      # error replies: the text after the contexts is decoded as utf-8 (may fail -> exception)
      err = ret.error
      return {'status': status, 'err': type(err).__name__, 'text': str(err)}
  except Exception as e:
    return {'exc': type(e).__name__}
  raise ValueError(k)


# ---------------------------------------------------------------------------------------------
# independent decoder + monitor
# ---------------------------------------------------------------------------------------------
def _thrift_payload(arg):
  """The call payload as the Thrift library itself writes it (oracle), independent of scales."""
  from thrift.protocol.TBinaryProtocol import TBinaryProtocol
  from thrift.transport.TTransport import TMemoryBuffer
  from thrift.Thrift import TMessageType
  from harness.ifaces.hello import Hello
  tb = TMemoryBuffer()
  p = TBinaryProtocol(tb)
  p.writeMessageBegin('hi', TMessageType.CALL, 0)
  Hello.hi_args(arg).write(p)
  p.writeMessageEnd()
  return tb.getvalue()


def py_parse_frame(b):
  if len(b) < 8:
    raise ValueError('short frame')
  size = int.from_bytes(b[:4], 'big')
  if size != len(b) - 4:
    raise ValueError('declared size %d but %d bytes follow' % (size, len(b) - 4))
  t = b[4] - 256 if b[4] >= 128 else b[4]
  tag = int.from_bytes(b[5:8], 'big')
  return t, tag, b[8:]


def _lp(b, o):
  n = int.from_bytes(b[o:o + 2], 'big')
  if o + 2 + n > len(b):
    raise ValueError('length prefix runs past the end')
  return b[o + 2:o + 2 + n], o + 2 + n


def py_parse_tdispatch(body):
  n = int.from_bytes(body[:2], 'big')
  o = 2
  ctx = []
  for _ in range(n):
    k, o = _lp(body, o)
    v, o = _lp(body, o)
    ctx.append((k, v))
  dst, o = _lp(body, o)
  nd = int.from_bytes(body[o:o + 2], 'big')
  o += 2
  dtab = []
  for _ in range(nd):
    a, o = _lp(body, o)
    c, o = _lp(body, o)
    dtab.append((a, c))
  return ctx, dst, dtab, body[o:]


def _supplied_ctx(case):
  """What was supplied, in dict-update order: public properties updated with headers."""
  d = {}
  for k, v in _expand(case):
    if not k.startswith('__'):
      d[k] = v
  for k, v in case['headers']:
    d[k] = v
  return list(d.items())


def _encodable(case):
  """True iff the input lies inside what the wire format can carry (else an error is the right answer)."""
  ctx = _supplied_ctx(case)
  if len(ctx) > 32767:
    return False
  for k, v in ctx:
    try:
      kb = k.encode('utf-8')
    except UnicodeEncodeError:
      return False
    if len(kb) > 32767:
      return False
    if 's' in v:
      try:
        vb = v['s'].encode('utf-8')
      except UnicodeEncodeError:
        return False
      if len(vb) > 32767:
        return False
    elif 'd' in v:
      if not all(-2 ** 63 <= x < 2 ** 63 for x in v['d']):
        return False
    else:
      return False
  return True


def _monitor_pipeline(case, obs):
  v = []
  for j, (m, fr) in enumerate(zip(case['msgs'], obs['frames'])):
    props, headers = _pipeline_parts(case, m)
    sub = {'props': props, 'headers': headers, 'big': None}
    enc = _encodable(sub)
    if 'exc' in fr:
      if enc:
        v.append(('dispatch-rejected', 'message #%d of the sequence raised %s' % (j, fr['exc'])))
      continue
    b = bytes(fr['bytes'])
    try:
      t, tag, body = py_parse_frame(b)
      ctx, dst, dtab, payload = py_parse_tdispatch(body)
    except Exception as e:
      v.append(('frame-undecodable', 'frame #%d of the sequence: %s' % (j, e)))
      continue
    if t != 2 or tag != fr['tag']:
      v.append(('dispatch-header', 'frame #%d: type %d tag %d (assigned tag %s)' % (j, t, tag, fr['tag'])))
    want = []
    for kk, vv in _supplied_ctx(sub):
      want.append((kk.encode('utf-8'), vv['s'].encode('utf-8') if 's' in vv else struct.pack('!qq', *vv['d'])))
    if ctx != want:
      v.append(('dispatch-contexts', 'frame #%d: decoded contexts %r differ from supplied %r' % (j, ctx[:3], want[:3])))
    if dst != b'' or dtab != []:
      v.append(('dispatch-dst-dtab', 'frame #%d' % j))
    if payload != _thrift_payload(m['arg'] + 'x' * m['plen']):
      v.append(('dispatch-payload', 'frame #%d: payload differs from the Thrift library encoding of the call' % j))
  return v


def py_split_stream(b):
  """Independent stream reader: 4-byte size, that many bytes, repeat; returns (frames, unread tail)."""
  frames = []
  o = 0
  while len(b) - o >= 4:
    size = int.from_bytes(b[o:o + 4], 'big')
    if len(b) - o - 4 < size:
      break
    frames.append(b[o:o + 4 + size])
    o += 4 + size
  return frames, b[o:]


def _must(c):
  """Number of leading socket writes that have to be on the wire completely: up to the last write call that returned
  normally while the peer was still connected (later ones were interrupted or fell on a dead connection)."""
  ret = c.get('returned', [])
  return max([i + 1 for i, r in enumerate(ret) if r] + [0])


def _monitor_stream(case, obs):
  v = []
  for c in obs['conns']:
    where = 'connection %d to port %d' % (c['cid'], c['port'])
    writes = [bytes(x) for x in c['writes']]
    stream = bytes(c['stream'])
    frames, tail = py_split_stream(stream)
    for i, f in enumerate(frames):
      try:
        t, tag, body = py_parse_frame(f)
        if t == 2:
          py_parse_tdispatch(body)
        elif t == 65:
          if body:
            raise ValueError('Tping with a body')
        elif t == 66:
          if tag != 0 or len(body) < 3:
            raise ValueError('malformed Tdiscarded')
        else:
          raise ValueError('type %d is not a client frame' % t)
      except Exception as e:
        v.append(('stream-out-of-sync', '%s: frame %d read from the byte stream is not a frame the client may send (%s): '
                  'the size prefix is not followed by its own bytes' % (where, i, e)))
        break
    if v:
      break
    if frames != writes[:len(frames)]:
      i = [j for j in range(len(frames)) if j >= len(writes) or frames[j] != writes[j]][0]
      v.append(('stream-not-the-written-frames', '%s: frame %d on the wire differs from the %dth buffer handed to the socket'
                % (where, i, i)))
      break
    rest = b''.join(writes[len(frames):])
    if not rest.startswith(tail):
      v.append(('stream-tail-garbled', '%s: %d trailing bytes are not the beginning of the next written frame' % (where, len(tail))))
      break
    must = _must(c)
    if len(frames) < must:
      v.append(('stream-frames-missing', '%s: write %d returned normally (peer still connected) but its frame never reached the peer '
                'completely (%d complete frames arrived)' % (where, must - 1, len(frames))))
      break
  return v


def monitor(case, obs):
  k = case['kind']
  v = []
  if k == 'pipeline':
    return _monitor_pipeline(case, obs)
  if k == 'stream':
    return _monitor_stream(case, obs)
  if k == 'header':
    ok_in = -128 <= case['type'] <= 127 and -2 ** 31 <= case['dlen'] + 4 < 2 ** 31
    if 'exc' in obs:
      if ok_in:
        v.append(('header-rejected', 'header writer raised %s for in-range input' % obs['exc']))
      return v
    if not ok_in:
      v.append(('header-accepted-out-of-range', 'no error for out-of-range field'))
      return v
    b = bytes(obs['bytes'])
    if 0 <= case['tag'] < 2 ** 24 and case['dlen'] >= 0:
      want = (4 + case['dlen']).to_bytes(4, 'big') + struct.pack('b', case['type']) + case['tag'].to_bytes(3, 'big')
      if b != want:
        v.append(('header-bytes', 'header %s != %s' % (b.hex(), want.hex())))
      # reader inverts writer
      try:
        t, g = _S['Ser'].ReadHeader(io.BytesIO(b[4:]))
        if (t, g) != (case['type'], case['tag']):
          v.append(('reader-not-inverse', 'ReadHeader(BuildHeader(type=%d, tag=%d)) = (%d, %d)' % (case['type'], case['tag'], t, g)))
      except Exception as e:
        v.append(('reader-not-inverse', 'ReadHeader raised %r' % e))
  elif k == 'readheader':
    if 'want' in case:
      if 'exc' in obs or [obs.get('type'), obs.get('tag')] != case['want']:
        v.append(('reader-not-inverse', 'ReadHeader gave %s for type/tag %s' % (obs, case['want'])))
  elif k == 'dispatch':
    enc = _encodable(case)
    if 'exc' in obs:
      if enc:
        v.append(('dispatch-rejected', 'encodable dispatch raised %s' % obs['exc']))
      return v
    if not enc:
      v.append(('dispatch-accepted-unencodable', 'no error although a context entry cannot be carried'))
      return v
    b = bytes(obs['bytes'])
    try:
      t, tag, body = py_parse_frame(b)
      ctx, dst, dtab, payload = py_parse_tdispatch(body)
    except Exception as e:
      v.append(('frame-undecodable', 'independent decoder failed: %s' % e))
      return v
    if t != 2:
      v.append(('dispatch-type', 'type %d' % t))
    if 0 <= case['tag'] < 2 ** 24 and tag != case['tag']:
      v.append(('dispatch-tag', 'tag %d != %d' % (tag, case['tag'])))
    want = []
    for kk, vv in _supplied_ctx(case):
      if 's' in vv:
        want.append((kk.encode('utf-8'), vv['s'].encode('utf-8')))
      else:
        want.append((kk.encode('utf-8'), struct.pack('!qq', *vv['d'])))
    if ctx != want:
      v.append(('dispatch-contexts', 'decoded contexts differ from supplied: %r vs %r' % (ctx[:3], want[:3])))
    if dst != b'' or dtab != []:
      v.append(('dispatch-dst-dtab', 'destination/dtab not empty'))
    if payload != _thrift_payload(case['arg'] + 'x' * case['plen']):
      v.append(('dispatch-payload', 'payload differs from the Thrift library encoding of the call'))
  elif k == 'discard':
    try:
      rb = case['reason'].encode('utf-8')
    except UnicodeEncodeError:
      rb = None
    if 'exc' in obs:
      if rb is not None:
        v.append(('discard-rejected', 'discard raised %s' % obs['exc']))
      return v
    b = bytes(obs['bytes'])
    try:
      t, tag, body = py_parse_frame(b)
    except Exception as e:
      v.append(('frame-undecodable', 'independent decoder failed: %s' % e))
      return v
    if t != 66 or tag != 0:
      v.append(('discard-header', 'type %d tag %d' % (t, tag)))
    if 0 <= case['which'] < 2 ** 24:
      if body[:3] != case['which'].to_bytes(3, 'big') or body[3:] != rb:
        v.append(('discard-body', 'body %s' % body.hex()))
  elif k == 'rdispatch':
    if case.get('want') is not None:
      status, rest = case['want']
      if status == 0:
        if obs.get('rest') != rest:
          v.append(('rdispatch-skip', 'payload after contexts %s != %s' % (obs.get('rest'), rest)))
      elif status == 2:
        if obs.get('err') != 'ServerError':
          v.append(('rdispatch-nack', str(obs)))
      else:
        try:
          txt = bytes(rest).decode('utf-8')
        except UnicodeDecodeError:
          txt = None
        if txt is not None and (obs.get('err') != 'ServerError' or obs.get('text') != txt):
          v.append(('rdispatch-error-text', str(obs)))
  return v


# ---------------------------------------------------------------------------------------------
# translation to Coq terms
# ---------------------------------------------------------------------------------------------
def _text(s):
  return C.zlist([ord(c) for c in s])


def _cval(v):
  if 's' in v:
    return '(VStr %s)' % _text(v['s'])
  if 'd' in v:
    return '(VDeadline %s %s)' % (C.zlit(v['d'][0]), C.zlit(v['d'][1]))
  return 'VOther'


def _entries(es):
  return C.lst(['(%s, %s)' % (_text(k), _cval(v)) for k, v in es])


def to_coq(case, obs):
  k = case['kind']
  if k == 'pipeline':
    terms = []
    for m, fr in zip(case['msgs'], obs['frames']):
      props, headers = _pipeline_parts(case, m)
      payload = _thrift_payload(m['arg'] + 'x' * m['plen'])
      e = C.opt(C.bytes_lit(fr['bytes'])) if 'bytes' in fr else 'None'
      tag = fr.get('tag') or 0
      terms.append('CDispatch %s %s %s %s %s' % (C.zlit(tag), _entries(props), _entries(headers), C.bytes_lit(payload), e))
    return terms
  if k == 'stream':
    terms = []
    for c in obs['conns']:
      if len(c['stream']) > 6000:
        continue          # evaluated by the Python reader only (size of the Coq literal)
      terms.append('CStream %s %s %s' % (C.lst([C.bytes_lit(x) for x in c['writes']]), C.bytes_lit(c['stream']), C.natlit(_must(c))))
    return terms
  exp_bytes = C.opt(C.bytes_lit(obs['bytes'])) if 'bytes' in obs else 'None'
  if k == 'header':
    return 'CHeader %s %s %s %s' % (C.zlit(case['tag']), C.zlit(case['type']), C.zlit(case['dlen']), exp_bytes)
  if k == 'readheader':
    e = 'None' if 'exc' in obs else '(Some (%s, %s))' % (C.zlit(obs['type']), C.zlit(obs['tag']))
    return 'CReadHeader %s %s' % (C.bytes_lit(case['bytes']), e)
  if k == 'dispatch':
    if case['plen'] > 2000:
      return None
    payload = _thrift_payload(case['arg'] + 'x' * case['plen'])
    return 'CDispatch %s %s %s %s %s' % (C.zlit(case['tag']), _entries(_expand(case)), _entries(case['headers']),
                                         C.bytes_lit(payload), exp_bytes)
  if k == 'discard':
    return 'CDiscard %s %s %s' % (C.zlit(case['which']), _text(case['reason']), exp_bytes)
  if k == 'rdispatch':
    if 'exc' in obs:
      if obs['exc'] in ('UnicodeDecodeError',):
        return None     # the text decoding after the prefix is outside the model
      e = 'None'
    elif 'rest' in obs:
      e = '(Some (%s, %s))' % (C.zlit(0), C.bytes_lit(obs['rest']))
    else:
      return None       # error statuses: prefix not observable separately; covered by the monitor
    return 'CRdispatch %s %s' % (C.bytes_lit(case['bytes']), e)
  raise ValueError(k)


def nontrivial(case, obs):
  if case['kind'] == 'pipeline':
    return len(obs.get('frames', [])) >= 2
  if case['kind'] == 'stream':
    return any(len(c['writes']) >= 3 for c in obs.get('conns', []))
  if 'exc' in obs:
    return False
  if case['kind'] == 'dispatch':
    return any(ord(c) > 127 for kk, vv in case['props'] + case['headers'] for c in kk + vv.get('s', '')) or bool(case['headers'])
  return True


def describe(case, obs):
  c = dict(case)
  o = dict(obs)
  if case['kind'] == 'stream':
    o['conns'] = [{'port': x['port'], 'cid': x['cid'], 'closed': x['closed'], 'write_sizes': [len(y) for y in x['writes']],
                   'stream_len': len(x['stream']), 'stream_head': x['stream'][:96]} for x in obs.get('conns', [])]
  if 'bytes' in o and len(o['bytes']) > 64:
    o['bytes'] = o['bytes'][:64] + ['...%d more' % (len(o['bytes']) - 64)]
  return {'case': c, 'obs': o}


def stats(cases, obs):
  exc = {}
  nonascii = 0
  for c, o in zip(cases, obs):
    if c['kind'] in ('pipeline', 'stream'):
      continue
    if 'exc' in o:
      exc[o['exc']] = exc.get(o['exc'], 0) + 1
    if c['kind'] == 'dispatch' and any(ord(ch) > 127 for kk, vv in c['props'] + c['headers'] for ch in kk + vv.get('s', '')):
      nonascii += 1
  return {'error_kinds': exc, 'dispatch_cases_with_non_ascii_context': nonascii}
