"""C16 - Singleton pool and shared sinks keep one connection, opened and closed once.

Implementation under test (imported from $SCALES_REPO as it is now):
  scales.pool.singleton.SingletonPoolSink (Open, Close, state, _Get) + scales.pool.base.PoolSink.AsyncProcessRequest
  scales.sink.RefCountedSink (Open, Close, AsyncProcessRequest), scales.sink.SharedSinkProvider.CreateSink
Models: coq/Model/Singleton.v, coq/Model/RefCount.v, coq/Model/Shared.v (lock-step, label by label).
Monitor: the property statement evaluated on what the mock provider / mock sinks saw.

The mocks are written here (not the repo's test mocks) and implement the environment contract of
DESIGN.md section 10: a sink is created Idle, its Open() completes only when the harness says so, a
closed sink never reports Open again.  The yield inside SingletonPoolSink._Get (Open().wait()) is
controlled per waiting greenlet, so concurrent first requests are resumed in any order.
"""
import gc
import itertools
import sys

from .. import common as C

PID = 'C16'
PROPS_FILE = 'Props/C16.v'
COQ_HEADER = 'From Scales Require Import Model.RefCount Model.Shared Model.Singleton.'
COQ_CASE_TYPE = 'Singleton.case'
COQ_CHECK = 'Singleton.check_case'
COQ_EXPLAIN = 'Singleton.explain_case'
SHARD = 400
WORKERS = 1
RULE = ('three lock-step case kinds. single: histories over Req/OpenPool/Start/ClosePool/OpenDone/Fault/Resume on the real '
        'SingletonPoolSink with a mock provider (exhaustive over a 13-label alphabet to depth 3 (quick) / 4 (thorough) and over its 9 core labels to depth 4 / 5, '
        'scenario templates with k = 1..6 concurrent first requests resumed in every rotation/reversal, seeded random '
        'histories of 4..40 labels incl. create failures, faults of old sinks, resumes of unknown/blocked tasks, connections '
        'that report Busy, and every history over 8 labels to depth 3 / 4 after a connection became Busy; sinks whose Open() '
        'completes or fails synchronously inside the call (11 labels to depth 3); a consumer that reacts to the pool\'s fault '
        'signal from inside the notification with Close() / a request / Open(); histories of 120 labels; every case runs a '
        'second instance with a fixed history in the same process); '
        'ref: every Open/Close sequence up to length 9 (quick) / 12 (thorough) and every Open/Close/Fault sequence (underlying sink '
        'reports Closed while holders are alive) up to length 7 / 9, every Open/Close sequence up to length 7 / 9 issued in 5 '
        'groupings of concurrent callers against an underlying sink whose Open/Close yield before and after their work '
        '(events also compared in chronological order), on the real RefCountedSink plus random '
        'histories with 3 holders, requests and groups of calls issued concurrently against an underlying sink whose '
        'Open/Close yield; shared: random Create/DropHolder histories over 3 keys and falsy keys on the real '
        'SharedSinkProvider with explicit holder references and gc.collect(), with the underlying sink of a held key faulting / being closed / '
        're-opened by its holders between CreateSink calls (the provider must keep returning the held sink). non-trivial = at least one underlying '
        'Open/Create observed; distinct by canonical JSON of (case, observation)')
TRUSTED = ['mock provider / mock sinks / controlled open results in harness/props/c16.py (environment contract of DESIGN.md '
           'section 10: created Idle, Open completes only when told, Closed is final)',
           'CPython reference counting and weakref.WeakValueDictionary (an entry disappears when the last holder drops its reference)',
           'gevent cooperative scheduling: greenlets switch only at Open().wait() inside the pool; gevent RLock is FIFO',
           'SpawnProxy installed as scales.asynchronous.gevent (defers the start of the greenlet created by AsyncResult.Run while pool.Open() is called)']
ASSUMPTIONS = ['the underlying sinks obey the environment contract (Idle until the open completes; a failed open, fault or Close '
               'makes the sink Closed for ever); the provider returns a new Idle sink or raises',
               'notification greenlets spawned by Observable.Set run before the next label; the greenlet spawned by pool.Open() '
               'starts at its own Start label (any later point); waiter wake-up order is arbitrary (Resume labels), which '
               'includes gevent\'s FIFO order',
               'C16_same_key is stated over the explicit holder set of Model/Shared.v; weak-reference timing of CPython is trusted']

MANIFEST = {
    'text': ('Theorems C16_at_most_one, C16_share, C16_share_requests, C16_replace, C16_pool_holders, C16_refcount, C16_refcount_holders, C16_same_key hold for every '
             'label sequence (requests, pool opens/closes, late start of the greenlet pool.Open() spawns, open completions, faults, '
             'any wake-up order of blocked requests; '
             'Open/Close by any holders; Create/DropHolder) of the Gallina transcriptions of SingletonPoolSink, RefCountedSink and '
             'SharedSinkProvider; the transcriptions are compared step by step with the real classes on ~3k (quick) / ~60k '
             '(thorough) generated histories per run.'),
    'note': ('Trusted: Coq kernel; harness mocks implementing the stated environment contract; CPython weak references; gevent '
             'scheduling. Observed, not claimed by the property: closing the pool while a request waits for the open makes _Get '
             'return None and AttributeError escapes AsyncProcessRequest (modelled as Crash); SingletonPoolSink.Close decrements '
             'its count unconditionally (surplus closes are ignored only by RefCountedSink, as the property says).'),
    'technique': 'Coq proof (state invariants by induction over label sequences) + lock-step differential execution model vs code + trace monitor',
    'design_ref': 'DESIGN.md section 5, C16',
}

_S = {}


def setup():
  if _S:
    return
  if C.REPO not in sys.path:
    sys.path.insert(0, C.REPO)
  import gevent
  import gevent.event
  import scales
  assert scales.__file__.startswith(C.REPO), scales.__file__
  from scales.pool.singleton import SingletonPoolSink
  from scales.sink import RefCountedSink, SharedSinkProvider, ClientMessageSink, ClientMessageSinkStack
  from scales.constants import ChannelState, SinkProperties
  from scales.message import MethodCallMessage
  import scales.asynchronous as A
  if not isinstance(A.gevent, SpawnProxy):
    A.gevent = SpawnProxy(A.gevent)
  _S.update(gevent=gevent, Event=gevent.event.Event, SingletonPoolSink=SingletonPoolSink, RefCountedSink=RefCountedSink,
            SharedSinkProvider=SharedSinkProvider, ClientMessageSink=ClientMessageSink,
            ClientMessageSinkStack=ClientMessageSinkStack, ChannelState=ChannelState, SinkProperties=SinkProperties,
            MethodCallMessage=MethodCallMessage)
  _make_mocks()


_CUR = [None]


class SpawnProxy(object):
  """Stands in for the `gevent` module inside scales.asynchronous: while the harness asks for it, greenlets
  spawned by AsyncResult.Run/SafeLink are created but not started, so that the label sequence decides when
  the greenlet of pool.Open() starts (label Start)."""

  def __init__(self, real):
    self._real = real

  def __getattr__(self, name):
    return getattr(self._real, name)

  def spawn(self, fn, *a, **k):
    w = _CUR[0]
    if w is None or not w.capture:
      return self._real.spawn(fn, *a, **k)
    g = self._real.Greenlet(fn, *a, **k)
    w.captured.append(g)
    return g


def settle(n=6):
  g = _S['gevent']
  for _ in range(n):
    g.sleep(0)


# ---------------------------------------------------------------------------------------------
# mocks (environment)
# ---------------------------------------------------------------------------------------------
class _Endpoint(object):
  host = 'h'
  port = 1


class OpenResult(object):
  """What a mock sink's Open() returns: completes only when the harness says so; every greenlet that
  waits on it is parked on its own event and released individually (Resume)."""

  def __init__(self, world, done=False, failed=False):
    self.world = world
    self.done = done
    self.failed = failed

  def ready(self):
    return self.done

  def successful(self):
    return self.done and not self.failed

  @property
  def exception(self):
    return Exception('open failed') if self.failed else None

  def _park(self):
    w = self.world
    g = _S['gevent'].getcurrent()
    tid = w.task_of.get(g)
    if tid is None:          # the greenlet pool.Open() spawned: belongs to the label being executed
      tid = w.cur_task
      w.task_of[g] = tid
    ev = _S['Event']()
    w.waiting[tid] = (self, ev, g)
    w.wait_order.append(tid)
    ev.wait()

  def wait(self, timeout=None):
    if not self.done:
      self._park()
    return None

  def get(self, block=True, timeout=None):
    if not self.done:
      self._park()
    if self.failed:
      raise Exception('open failed')
    return None


def _make_mocks():
  CMS = _S['ClientMessageSink']
  CS = _S['ChannelState']

  class MockSink(CMS):
    def __init__(self, world, sid):
      super(MockSink, self).__init__()
      self.w = world
      self.sid = sid
      self.st = CS.Idle
      self.res = None
      self.mode = 'idle'

    @property
    def state(self):
      return self.st

    def Open(self):
      self.w.ev(['openu', self.sid])
      if self.st == CS.Idle and self.mode in ('opennow', 'failnow') and self.res is None:
        # the open completes inside the call: the sink reports Open (or Closed, without a fault signal) at once
        self.st = CS.Open if self.mode == 'opennow' else CS.Closed
        self.res = OpenResult(self.w, True, self.mode == 'failnow')
        return self.res
      if self.st == CS.Idle:
        if self.res is None:
          self.res = OpenResult(self.w)
        return self.res
      return OpenResult(self.w, True, self.st == CS.Closed)

    def Close(self):
      self.w.ev(['closeu', self.sid])
      self.kill(False)

    def kill(self, fault):
      if self.st == CS.Closed:
        return False
      self.st = CS.Closed
      if self.res is not None and not self.res.done:
        self.res.done = True
        self.res.failed = True
      if fault:
        self.on_faulted.Set(Exception('fault'))
      return True

    def set_busy(self, b):
      if b and self.st == CS.Open:
        self.st = CS.Busy
      elif not b and self.st == CS.Busy:
        self.st = CS.Open

    def complete_open(self, ok):
      if self.st != CS.Idle or self.res is None or self.res.done:
        return False
      if ok:
        self.st = CS.Open
        self.res.done = True
      else:
        self.kill(True)
      return True

    def AsyncProcessRequest(self, sink_stack, msg, stream, headers):
      self.w.ev(['fwd', msg.args[0], self.sid])

    def AsyncProcessResponse(self, sink_stack, context, stream, msg):
      pass

  class Terminal(CMS):
    def __init__(self, world):
      super(Terminal, self).__init__()
      self.w = world

    def AsyncProcessRequest(self, sink_stack, msg, stream, headers):
      pass

    def AsyncProcessResponse(self, sink_stack, context, stream, msg):
      self.w.ev(['error' if (msg is not None and msg.error) else 'reply', context])

  class RecSink(CMS):
    """Underlying sink of the RefCountedSink / SharedSinkProvider cases: records calls, optionally yields."""

    def __init__(self, world, sid=0):
      super(RecSink, self).__init__()
      self.w = world
      self.sid = sid
      self.st = CS.Idle
      self.track = False     # shared cases: Open/Close move the reported state

    @property
    def state(self):
      return self.st

    def Open(self):
      for _ in range(self.w.slow[0]):      # a slow open / close: the work happens after some yields, the call returns after another
        _S['gevent'].sleep(0)
      if self.track:
        self.st = CS.Open
      n = self.w.nopen
      self.w.nopen += 1
      self.w.ev(['uopen', n])
      if self.w.yielding:
        _S['gevent'].sleep(0)
      r = OpenResult(self.w, True)
      r.name = n
      return r

    def Close(self):
      for _ in range(self.w.slow[1]):
        _S['gevent'].sleep(0)
      if self.track:
        self.st = CS.Closed
      self.w.ev(['uclose'])
      if self.w.yielding:
        _S['gevent'].sleep(0)

    def AsyncProcessRequest(self, sink_stack, msg, stream, headers):
      self.w.ev(['ufwd', msg.args[0]])

    def AsyncProcessResponse(self, sink_stack, context, stream, msg):
      pass

  _S.update(MockSink=MockSink, Terminal=Terminal, RecSink=RecSink)


class World(object):
  def __init__(self):
    self.events = []
    self.sinks = []
    self.task_of = {}
    self.waiting = {}
    self.wait_order = []
    self.cur_task = None
    self.create_mode = 'idle'
    self.nopen = 0
    self.yielding = False
    self.slow = (0, 0)      # yields before the work of the underlying Open / Close (when yielding)
    self.capture = False
    self.captured = []
    self.spawned = {}
    self.spawn_order = []

  def ev(self, e):
    self.events.append(e)

  def take(self):
    e, self.events = self.events, []
    return e


# ---------------------------------------------------------------------------------------------
# implementation drivers
# ---------------------------------------------------------------------------------------------
def _sel(sel, seq):
  """Resolves a selector into a concrete id: an int is absolute; ['rel', k] is the k-th element from the end of seq."""
  if isinstance(sel, int):
    return sel
  if not seq:
    return 0
  return seq[len(seq) - 1 - (sel[1] % len(seq))]


MODES = {'idle': 'CIdle', 'fail': 'CFail', 'opennow': 'COpenNow', 'failnow': 'CFailNow'}


def _mode(x):
  """What the provider / the new sink do if this step creates a sink (False/True are the old spellings of idle/fail)."""
  if x is True:
    return 'fail'
  if not x:
    return 'idle'
  assert x in MODES, x
  return x


def _make_pool(w):
  CS = _S['ChannelState']

  class Provider(object):
    def CreateSink(self, properties):
      if w.create_mode == 'fail':
        raise Exception('create failed')
      live = sum(1 for s in w.sinks if s.st != CS.Closed)
      s = _S['MockSink'](w, len(w.sinks))
      s.mode = w.create_mode
      w.sinks.append(s)
      w.ev(['create', s.sid, live])
      return s

  props = {_S['SinkProperties'].Endpoint: _Endpoint(), _S['SinkProperties'].Label: 'c16'}
  return _S['SingletonPoolSink'](Provider(), None, props)


def _request(pool, w, term, cid):
  stack = _S['ClientMessageSinkStack']()
  stack.Push(term, cid)
  msg = _S['MethodCallMessage'](None, 'm', (cid,), {})
  try:
    pool.AsyncProcessRequest(stack, msg, None, None)
  except Exception as e:
    w.ev(['crash', cid, type(e).__name__])


class _ShadowPool(object):
  """A second SingletonPoolSink living in the same process with a fixed little history wrapped around the case:
  nothing the case does to its own pool may show up here (no class-level / module-level state)."""
  EXPECT = [['create', 0, 0], ['openu', 0], ['openu', 0], ['fwd', 0, 0], ['fwd', 1, 0], ['fwd', 2, 0], ['closeu', 0]]

  def __init__(self):
    self.w = World()
    self.pool = _make_pool(self.w)
    self.term = _S['Terminal'](self.w)
    self.gs = []

  def _req(self, cid):
    self.w.cur_task = cid
    gr = _S['gevent'].spawn(_request, self.pool, self.w, self.term, cid)
    self.w.task_of[gr] = cid
    self.gs.append(gr)
    settle(2)

  def begin(self):
    self._req(0)
    self._req(1)

  def end(self):
    w = self.w
    try:
      if w.sinks:
        w.sinks[0].complete_open(True)
      for t in sorted(w.waiting):
        w.waiting.pop(t)[1].set()
      settle(3)
      self._req(2)
      self.pool.Close()
      settle(2)
    finally:
      alive = [x for x in self.gs if not x.dead] + [e[2] for e in w.waiting.values() if not e[2].dead]
      if alive:
        _S['gevent'].killall(alive, block=True)
      w.waiting.clear()
      w.task_of.clear()
    return w.take()


def run_single(case):
  g = _S['gevent']
  CS = _S['ChannelState']
  w = World()
  pool = _make_pool(w)
  term = _S['Terminal'](w)
  opens = {}
  labels = []
  steps = []
  nt = [0]
  greenlets = []
  split = []            # (step, label) produced by a re-entrant action from inside the fault notification
  on_fault = case.get('on_fault')

  def make_step(resumed):
    w.create_mode = 'idle'
    for t in sorted(opens):
      if opens[t].ready():
        w.ev(['openres', t, bool(opens[t].successful())])
        del opens[t]
    return {'ev': w.take(), 'pstate': int(pool.state), 'resumed': resumed,
            'sinks': ''.join({CS.Idle: 'I', CS.Open: 'O', CS.Busy: 'B', CS.Closed: 'C'}.get(s.st, '?') for s in w.sinks)}

  def pool_open():
    t = nt[0]
    nt[0] += 1
    w.cur_task = t
    w.capture = True
    try:
      opens[t] = pool.Open()
    finally:
      w.capture = False
    for gr in w.captured:
      w.spawned[t] = gr
      w.task_of[gr] = t
      w.spawn_order.append(t)
    w.captured = []
    return t

  def on_pool_fault(v):
    w.ev(['poolfault'])
    if on_fault and not split:
      # the consumer reacts from inside the notification (as a load balancer does): what happened so far is the
      # fault's own step, what follows is a second label executed re-entrantly right here
      first = make_step(False)
      if on_fault == 'close':
        pool.Close()
        lab = ['close']
      elif on_fault == 'open':
        pool_open()
        lab = ['openpool']
      else:
        t = nt[0]
        nt[0] += 1
        w.cur_task = t
        lab = ['req', 'idle']
        split.append((first, lab))
        _request(pool, w, term, t)       # may park this (notification) greenlet at Open().wait()
        return
      split.append((first, lab))
  pool.on_faulted.Subscribe(on_pool_fault)

  def start(t, mode):
    gr = w.spawned.pop(t, None)
    if gr is not None:
      w.cur_task = t
      w.create_mode = mode
      greenlets.append(gr)
      gr.start()
    settle()
    labels.append(['start', t, mode])

  def env_label(lab):
    settle()
    labels.append(lab)
    if split:
      first, lab2 = split.pop()
      steps.append(first)
      labels.append(lab2)

  shadow = _ShadowPool() if case.get('shadow', True) else None
  shadow_ev = None
  _CUR[0] = w
  try:
    if shadow:
      shadow.begin()
    for op in case['ops']:
      k = op[0]
      resumed = False
      if k == 'req':
        t = nt[0]
        nt[0] += 1
        w.cur_task = t
        w.create_mode = _mode(op[1])
        gr = g.spawn(_request, pool, w, term, t)
        w.task_of[gr] = t
        greenlets.append(gr)
        settle()
        labels.append(['req', _mode(op[1])])
      elif k in ('open', 'open_defer'):
        t = pool_open()
        settle()
        labels.append(['openpool'])
        if k == 'open':          # the spawned greenlet starts right away: a second label
          steps.append(make_step(False))
          start(t, _mode(op[1]))
      elif k == 'start':
        order = [x for x in w.spawn_order if x in w.spawned]
        start(_sel(op[1], list(reversed(order))), _mode(op[2]))
      elif k == 'close':
        pool.Close()
        settle()
        labels.append(['close'])
      elif k == 'opendone':
        n = _sel(op[1], list(range(len(w.sinks))))
        if 0 <= n < len(w.sinks):
          w.sinks[n].complete_open(bool(op[2]))
        env_label(['opendone', n, bool(op[2])])
      elif k == 'fault':
        n = _sel(op[1], list(range(len(w.sinks))))
        if 0 <= n < len(w.sinks):
          w.sinks[n].kill(True)
        env_label(['fault', n])
      elif k == 'busy':
        n = _sel(op[1], list(range(len(w.sinks))))
        if 0 <= n < len(w.sinks):
          w.sinks[n].set_busy(bool(op[2]))
        settle()
        labels.append(['busy', n, bool(op[2])])
      elif k == 'resume':
        order = [x for x in w.wait_order if x in w.waiting]
        t = _sel(op[1], list(reversed(order)))      # ['rel', 0] = the task that has waited longest
        ent = w.waiting.get(t)
        if ent is not None and ent[0].done:
          del w.waiting[t]
          resumed = True
          ent[1].set()
        settle()
        labels.append(['resume', t])
      else:
        raise ValueError(k)
      steps.append(make_step(resumed))
    if shadow:
      _CUR[0] = None
      shadow_ev = shadow.end()
  finally:
    _CUR[0] = None
    w.spawned.clear()
    alive = [x for x in greenlets if not x.dead] + [e[2] for e in w.waiting.values() if not e[2].dead]
    if alive:
      g.killall(alive, block=True)
    w.waiting.clear()
    w.task_of.clear()
  out = {'labels': labels, 'steps': steps}
  if shadow:
    out['shadow'] = 'ok' if shadow_ev == _ShadowPool.EXPECT else shadow_ev
  return out


def run_ref(case):
  g = _S['gevent']
  w = World()
  w.yielding = bool(case.get('yield'))
  if isinstance(case.get('yield'), list):
    w.slow = (int(case['yield'][0]), int(case['yield'][1]))
  under = _S['RecSink'](w)
  under.track = True       # the mock reports Open after Open(), Closed after Close() or a fault
  rc = _S['RefCountedSink'](under)
  # a second, independent ref-counted sink with a fixed history wrapped around the case
  w2 = World()
  rc2 = _S['RefCountedSink'](_S['RecSink'](w2))
  r2 = rc2.Open()
  w2.ev(['ret', getattr(r2, 'name', -1) if r2 is not None else None])
  term = _S['Terminal'](w)
  ops = case['ops']
  per_op = [[] for _ in ops]
  chrono = [[]]         # per group: the events in the order they happened, with the op they belong to

  def ev(e):
    k = w.task_of.get(g.getcurrent(), w.cur_task)
    per_op[k].append(e)
    chrono[-1].append([k, e])
  w.ev = ev

  def do(k):
    op = ops[k]
    w.task_of[g.getcurrent()] = k
    if op[0] == 'ropen':
      r = rc.Open()
      ev(['ret', getattr(r, 'name', -1) if r is not None else None])
    elif op[0] == 'rclose':
      rc.Close()
    elif op[0] == 'rreq':
      stack = _S['ClientMessageSinkStack']()
      stack.Push(term, op[1])
      rc.AsyncProcessRequest(stack, _S['MethodCallMessage'](None, 'm', (op[1],), {}), None, None)
    elif op[0] == 'renv':
      # environment: the underlying connection now reports this state (4 = Closed: it faulted) whoever holds it
      under.st = int(op[1])
      if op[2:] == ['fault']:
        under.on_faulted.Set(Exception('fault'))
        g.sleep(0)
    else:
      raise ValueError(op[0])

  sizes = list(case.get('groups') or [])
  if sum(sizes) < len(ops):
    sizes += [1] * (len(ops) - sum(sizes))
  i = 0
  main = g.getcurrent()
  for sz in sizes:
    idx = list(range(i, min(i + sz, len(ops))))
    i += sz
    if not idx:
      break
    if len(idx) == 1 and not w.yielding:
      w.task_of[main] = idx[0]
      do(idx[0])
    else:
      gs = [g.spawn(do, k) for k in idx]
      g.joinall(gs, timeout=5)
      for k, x in zip(idx, gs):
        if x.exception is not None:
          per_op[k].append(['exc', type(x.exception).__name__])
        w.task_of.pop(x, None)
    chrono.append([])
  w.task_of.clear()
  sizes = [z for z in sizes if z > 0]
  r2 = rc2.Open()
  w2.ev(['ret', getattr(r2, 'name', -1) if r2 is not None else None])
  rc2.Close()
  w2.ev(['-'])
  rc2.Close()
  rc2.Close()
  sh2 = w2.take()
  return {'ops_ev': per_op, 'chrono': chrono[:len(sizes)], 'sizes': sizes, 'shadow': 'ok' if sh2 == REF_SHADOW else sh2}


_KEYS = {0: None, -1: '', -2: 0, -3: (), -4: False, -5: 0.0, 1: 'a', 2: 'b', 3: ('h', 9092)}


def run_shared(case):
  w = World()
  made = []

  class Next(object):
    sink_class = None

    def CreateSink(self, properties):
      s = _S['RecSink'](w, len(made))
      s.track = True
      made.append(s)         # the underlying sinks (environment); they do not reference their wrappers
      w.ev(['under', s.sid])
      return s

  prov = _S['SharedSinkProvider'](lambda p: p['key'])
  prov.next_provider = Next()
  # a second provider (its own cache): the same keys there must yield its own sinks, never this provider's
  w2 = World()
  made2 = []

  class Next2(object):
    sink_class = None

    def CreateSink(self, properties):
      s2 = _S['RecSink'](w2, 1000 + len(made2))
      made2.append(s2)
      return s2
  prov2 = _S['SharedSinkProvider'](lambda p: p['key'])
  prov2.next_provider = Next2()
  held2 = [prov2.CreateSink({'key': _KEYS[kk]}) for kk in (1, 2, 3)]
  holders = {}
  do_gc = bool(case.get('gc'))
  if do_gc:
    gc.freeze()         # collections during this case look only at objects created from here on
  try:
    out = _run_shared_ops(case, w, prov, holders, do_gc, made)
    again = [prov2.CreateSink({'key': _KEYS[kk]}) for kk in (1, 2, 3)]
    out['shadow'] = {'same': [a is b for a, b in zip(held2, again)], 'created': len(made2),
                     'foreign': [getattr(getattr(a, 'next_sink', None), 'sid', -1) < 1000 for a in again]}
    del again
    return out
  finally:
    holders.clear()
    del held2[:]
    if do_gc:
      gc.unfreeze()


def _use_holder(holders, r, do_open):
  ent = holders.get(r)
  if ent is None:
    return 0, 0
  obj = ent[1]
  (obj.Open if do_open else obj.Close)()
  under = obj.next_sink if isinstance(obj, _S['RefCountedSink']) else obj
  return under.sid, int(under.st)


def _run_shared_ops(case, w, prov, holders, do_gc, made):
  nref = 0
  steps = []
  for op in case['ops']:
    if op[0] == 'create':
      obj = prov.CreateSink({'key': _KEYS[op[1]]})
      wrapped = isinstance(obj, _S['RefCountedSink'])
      n = obj.next_sink.sid if wrapped else getattr(obj, 'sid', -1)
      same = sorted(r for r, (kk, o) in holders.items() if o is obj)
      samekey = sorted(r for r, (kk, o) in holders.items() if kk == op[1] and op[1] > 0)
      holders[nref] = (op[1], obj)
      del obj
      w.ev(['ret', n, bool(wrapped)])
      steps.append({'ev': w.take(), 'ref': nref, 'same_obj_as': same, 'live_same_key': samekey})
      nref += 1
    elif op[0] == 'drop':
      live = sorted(holders)
      r = _sel(op[1], live)
      holders.pop(r, None)
      if do_gc:
        gc.collect()
      steps.append({'ev': w.take(), 'drop': r})
    elif op[0] == 'env':
      # environment: an underlying sink now reports this state (1 Idle, 2 Open, 3 Busy, 4 Closed: fault / close)
      n = _sel(op[1], list(range(len(made))))
      if 0 <= n < len(made):
        made[n].st = int(op[2])
        if int(op[2]) == 4 and op[3:] == ['fault']:
          made[n].on_faulted.Set(Exception('fault'))
          settle(3)
      steps.append({'ev': w.take(), 'env': [n, int(op[2])]})
    elif op[0] in ('hopen', 'hclose'):
      # a holder uses its reference: Open()/Close() on what CreateSink gave it (the mock reports Open / Closed)
      r = _sel(op[1], sorted(holders))
      n, st = _use_holder(holders, r, op[0] == 'hopen')     # in a function of its own: no reference survives in our locals
      steps.append({'ev': w.take(), 'env': [n, st], 'holder': r})
    else:
      raise ValueError(op[0])
  return {'steps': steps}


def run_impl(case):
  setup()
  k = case['kind']
  if k == 'single':
    return run_single(case)
  if k == 'ref':
    return run_ref(case)
  if k == 'shared':
    return run_shared(case)
  raise ValueError(k)


# ---------------------------------------------------------------------------------------------
# generators
# ---------------------------------------------------------------------------------------------
LAST = ['rel', 0]
CORE = [['req', False], ['open_defer'], ['start', ['rel', 0], False], ['close'], ['opendone', LAST, True], ['opendone', LAST, False],
        ['fault', LAST], ['resume', ['rel', 0]], ['resume', ['rel', -1]]]
ALPHA = CORE + [['open', False], ['req', True], ['fault', ['rel', 1]], ['start', ['rel', -1], True]]
SYNC = [['req', 'opennow'], ['req', 'failnow'], ['req', False], ['open', 'opennow'], ['open', 'failnow'], ['open_defer'], ['start', ['rel', 0], 'opennow'],
        ['close'], ['fault', LAST], ['resume', ['rel', 0]], ['busy', LAST, True]]
BUSY = [['req', False], ['opendone', LAST, True], ['resume', ['rel', 0]], ['busy', LAST, True], ['busy', LAST, False], ['fault', LAST], ['close'],
        ['open', False]]


def _rmode(r):
  x = r.random()
  return 'fail' if x < 0.08 else 'opennow' if x < 0.2 else 'failnow' if x < 0.28 else 'idle'


def _rand_single(r):
  n = r.choice([4, 6, 8, 12, 16, 24, 40, 40, 120])
  prof = r.choice(['mixed', 'mixed', 'burst', 'faulty', 'closey'])
  ops = []
  for _ in range(n):
    x = r.random()
    if prof == 'burst' and x < 0.45:
      ops.append(['req', False])
      continue
    if prof == 'faulty' and x < 0.25:
      ops.append(r.choice([['fault', LAST], ['opendone', LAST, False]]))
      continue
    if prof == 'closey' and x < 0.3:
      ops.append(r.choice([['close'], ['open', False], ['open_defer'], ['start', ['rel', 0], False]]))
      continue
    y = r.random()
    if y < 0.27:
      ops.append(['req', _rmode(r)])
    elif y < 0.32:
      ops.append(['open', _rmode(r)])
    elif y < 0.35:
      ops.append(['open_defer'])
    elif y < 0.39:
      ops.append(['start', r.choice([['rel', 0], ['rel', 0], ['rel', -1], r.randrange(0, 12)]), _rmode(r)])
    elif y < 0.46:
      ops.append(['close'])
    elif y < 0.5:
      ops.append(['busy', r.choice([LAST, LAST, ['rel', 1], r.randrange(0, 6)]), r.random() < 0.65])
    elif y < 0.62:
      ops.append(['opendone', r.choice([LAST, LAST, LAST, ['rel', 1], r.randrange(0, 6)]), r.random() < 0.75])
    elif y < 0.72:
      ops.append(['fault', r.choice([LAST, LAST, ['rel', 1], ['rel', 2], r.randrange(0, 6)])])
    else:
      ops.append(['resume', r.choice([['rel', 0], ['rel', 0], ['rel', -1], ['rel', r.randrange(0, 5)], r.randrange(0, 12)])])
  c = {'kind': 'single', 'ops': ops}
  x = r.random()
  if x < 0.45:
    c['on_fault'] = r.choice(['close', 'req', 'open'])
  return c


def _templates():
  out = []
  for k in range(1, 7):
    reqs = [['req', False]] * k
    for okflag in (True, False):
      orders = [list(range(k)), list(reversed(range(k)))] + [list(range(j, k)) + list(range(j)) for j in range(1, k)]
      for od in orders:
        # k concurrent first requests, open completes, resumed in order od (absolute task ids 0..k-1)
        out.append({'kind': 'single', 'ops': reqs + [['opendone', 0, okflag]] + [['resume', t] for t in od] + [['req', False]]})
    # pool.Open() first, then requests while opening
    out.append({'kind': 'single', 'ops': [['open', False]] + reqs + [['opendone', 0, True]] + [['resume', t] for t in range(k + 1)] +
                [['req', False], ['close'], ['req', False]]})
    # fault while k requests wait; a new request arrives before / after they are resumed
    out.append({'kind': 'single', 'ops': reqs + [['fault', 0], ['req', False]] + [['resume', t] for t in range(k)] +
                [['opendone', 1, True], ['resume', k], ['req', False]]})
    out.append({'kind': 'single', 'ops': reqs + [['fault', 0]] + [['resume', t] for t in range(k)] + [['req', False], ['opendone', 1, True],
                                                                                                 ['resume', k], ['req', False]]})
    # close while requests wait
    out.append({'kind': 'single', 'ops': [['open', False]] + reqs + [['close']] + [['resume', t] for t in range(k + 1)] + [['req', False]]})
  # replacement chains
  for m in range(1, 5):
    ops = []
    t = 0
    for s in range(m):
      ops += [['req', False], ['opendone', s, True], ['resume', t], ['req', False], ['fault', s]]
      t += 2
    ops += [['req', False], ['req', False]]
    out.append({'kind': 'single', 'ops': ops})
  # ref-count of the pool itself
  out.append({'kind': 'single', 'ops': [['open', False], ['opendone', 0, True], ['resume', 0], ['open', False], ['close'], ['req', False],
                                        ['close'], ['req', False]]})
  out.append({'kind': 'single', 'ops': [['close'], ['open', False], ['open', False], ['close'], ['req', False]]})
  # the greenlet of pool.Open() starts late: after a close, after a request, after a second Open
  out.append({'kind': 'single', 'ops': [['open_defer'], ['close'], ['start', 0, False], ['req', False], ['opendone', 0, True], ['resume', 0], ['resume', 1]]})
  out.append({'kind': 'single', 'ops': [['open_defer'], ['req', False], ['start', 0, False], ['opendone', 0, True], ['resume', 0], ['resume', 1], ['close'], ['req', False]]})
  out.append({'kind': 'single', 'ops': [['open_defer'], ['open_defer'], ['start', 1, False], ['start', 0, True], ['close'], ['close'], ['open_defer'], ['start', 2, True], ['start', 2, False]]})
  out.append({'kind': 'single', 'ops': [['req', True], ['open', True], ['req', False], ['opendone', 0, False], ['resume', 2], ['req', False]]})
  return out


SLOW = [[0, 0], [1, 1], [0, 1], [0, 2], [1, 0], [2, 0], [0, 3]]


def _rand_ref(r):
  n = r.choice([3, 6, 10, 16, 30])
  ops = []
  bias = r.choice([0.35, 0.5, 0.65])
  for _ in range(n):
    x = r.random()
    if x < 0.12:
      ops.append(['rreq', r.randrange(0, 50)])
    elif x < 0.26:
      ops.append(['renv', r.choice([4, 4, 4, 1, 2, 3])] + (['fault'] if r.random() < 0.5 else []))
    elif r.random() < bias:
      ops.append(['ropen', r.randrange(0, 3)])
    else:
      ops.append(['rclose', r.randrange(0, 3)])
  c = {'kind': 'ref', 'ops': ops}
  if r.random() < 0.6:
    c['yield'] = r.choice(SLOW)
    sizes = []
    left = n
    while left > 0:
      s = min(left, r.choice([1, 1, 2, 3, 4]))
      sizes.append(s)
      left -= s
    c['groups'] = sizes
  return c


def _rand_shared(r):
  n = r.choice([3, 6, 10, 16, 24])
  ops = []
  envy = r.random() < 0.7
  for _ in range(n):
    x = r.random()
    if envy and x < 0.3:
      y = r.random()
      if y < 0.4:
        ops.append(['env', r.choice([['rel', 0], ['rel', 1], ['rel', r.randrange(0, 4)], r.randrange(0, 6)]), r.choice([4, 4, 4, 1, 2, 3])] +
                   (['fault'] if r.random() < 0.5 else []))
      elif y < 0.7:
        ops.append(['hclose', r.choice([['rel', 0], ['rel', r.randrange(0, 5)], r.randrange(0, 10)])])
      else:
        ops.append(['hopen', r.choice([['rel', 0], ['rel', r.randrange(0, 5)], r.randrange(0, 10)])])
    elif x < 0.7:
      ops.append(['create', r.choice([1, 1, 2, 2, 3, 1, 2, 3, 0, -1, -2, -3, -4, -5])])
    else:
      ops.append(['drop', r.choice([['rel', r.randrange(0, 6)], ['rel', 0], r.randrange(0, 10)])])
  return {'kind': 'shared', 'ops': ops, 'gc': r.random() < 0.5}


def _shared_templates():
  out = []
  for k1 in (1, 2):
    for mid in ([['env', ['rel', 0], 4]], [['env', ['rel', 0], 4, 'fault']], [['hopen', 0], ['hclose', 0]], [['hclose', 0]],
                [['hopen', 0], ['env', ['rel', 0], 4, 'fault']], [['hopen', 0], ['hopen', 0], ['hclose', 0]],
                [['env', ['rel', 0], 3]], [['env', ['rel', 0], 2]]):
      # a holder keeps its reference while the shared connection dies / is closed; the same key is asked for again
      out.append({'kind': 'shared', 'ops': [['create', k1]] + mid + [['create', k1], ['hopen', 1], ['create', k1], ['create', 3 - k1]]})
      out.append({'kind': 'shared', 'gc': True, 'ops': [['create', k1], ['create', k1]] + mid + [['drop', 0], ['create', k1], ['drop', 1], ['drop', 2], ['create', k1]]})
  return out


def gen_cases(tier, seed):
  quick = tier == 'quick'
  out = list(_templates()) + _shared_templates()
  for d in range(1, (3 if quick else 4) + 1):
    for combo in itertools.product(range(len(ALPHA)), repeat=d):
      out.append({'kind': 'single', 'ops': [ALPHA[i] for i in combo]})
  for combo in itertools.product(range(len(CORE)), repeat=4 if quick else 5):
    out.append({'kind': 'single', 'ops': [CORE[i] for i in combo]})
  # a healthy connection that reports Busy for a while: every history over 8 labels after it was opened
  for d in range(1, (3 if quick else 4) + 1):
    for combo in itertools.product(range(len(BUSY)), repeat=d):
      if any(BUSY[i][0] == 'busy' for i in combo):
        out.append({'kind': 'single', 'ops': [['req', False], ['opendone', 0, True], ['resume', 0]] + [BUSY[i] for i in combo]})
  # sinks whose Open() completes (or fails) inside the call, mixed with the asynchronous kind
  for d in range(1, 3 + 1):
    for combo in itertools.product(range(len(SYNC)), repeat=d):
      if any(len(SYNC[i]) > 1 and SYNC[i][-1] in ('opennow', 'failnow') for i in combo):
        out.append({'kind': 'single', 'ops': [SYNC[i] for i in combo]})
  # the consumer reacts to the pool's fault signal from inside the notification: Close() / a new request / Open()
  for react in ('close', 'req', 'open'):
    for pre in ([['req', False]], [['req', False], ['opendone', 0, True], ['resume', 0]], [['open', False], ['req', False]],
                [['open', False], ['opendone', 0, True], ['resume', 0], ['open', False]], [['req', 'opennow']]):
      for kill in ([['fault', LAST]], [['opendone', LAST, False]]):
        for post in ([['req', False]], [['resume', ['rel', 0]], ['resume', ['rel', 0]], ['req', False]], [['start', ['rel', 0], False], ['req', 'opennow']],
                     [['close'], ['req', False], ['fault', LAST], ['req', False]]):
          out.append({'kind': 'single', 'on_fault': react, 'ops': pre + kill + post})
  # RefCountedSink: every Open/Close sequence (the holder does not matter to the code; it matters to the monitor)
  for d in range(1, (9 if quick else 12) + 1):
    for j, combo in enumerate(itertools.product((0, 1), repeat=d)):
      out.append({'kind': 'ref', 'ops': [['ropen' if b == 0 else 'rclose', (j + i) % 3] for i, b in enumerate(combo)]})
  # ... and with the underlying connection failing (state Closed) at any point of the history
  for d in range(2, (7 if quick else 9) + 1):
    for j, combo in enumerate(itertools.product((0, 1, 2), repeat=d)):
      if 2 in combo:
        out.append({'kind': 'ref', 'ops': [[['ropen', (j + i) % 3], ['rclose', (j + i) % 3], ['renv', 4, 'fault']][b] for i, b in enumerate(combo)]})
  # ... and issued concurrently in groups against an underlying sink whose Open and Close are slow (yield before and
  # after doing their work): e.g. a new holder's Open arriving while the last holder's Close is still in progress
  for d in range(2, (7 if quick else 9) + 1):
    for j, combo in enumerate(itertools.product((0, 1), repeat=d)):
      ops = [['ropen' if b == 0 else 'rclose', (j + i) % 3] for i, b in enumerate(combo)]
      for gi, sizes in enumerate(([d], [2] * ((d + 1) // 2), [1, d - 1], [d - 1, 1], [1] + [2] * (d // 2))):
        out.append({'kind': 'ref', 'ops': ops, 'yield': SLOW[(j + gi) % len(SLOW)], 'groups': sizes})
      if d <= 4:
        for sl in SLOW:
          out.append({'kind': 'ref', 'ops': ops, 'yield': sl, 'groups': [1] + [2] * (d // 2)})
          out.append({'kind': 'ref', 'ops': ops, 'yield': sl, 'groups': [d]})
  n = 1000 if quick else 12000
  for i in range(n):
    r = C.case_rng(seed, PID, i)
    out.append(_rand_single(r))
  for i in range(n // 2):
    r = C.case_rng(seed, PID + 'ref', i)
    out.append(_rand_ref(r))
  for i in range(n // 2):
    r = C.case_rng(seed, PID + 'shared', i)
    out.append(_rand_shared(r))
  return out


def search_cases(tier, seed, diverging):
  out = []
  for i in range(6000):
    r = C.case_rng(seed + 104729, PID, i)
    out.append(_rand_single(r))
  for i in range(1500):
    out.append(_rand_ref(C.case_rng(seed + 104729, PID + 'ref', i)))
    out.append(_rand_shared(C.case_rng(seed + 104729, PID + 'shared', i)))
  return out


# ---------------------------------------------------------------------------------------------
# monitor: the property statement on the implementation's behaviour
# ---------------------------------------------------------------------------------------------
def _mon_single(case, obs):
  v = []
  if 'shadow' in obs and obs['shadow'] != 'ok':
    v.append(('instances-not-independent', 'a second pool in the same process saw %s instead of %s' % (obs['shadow'], _ShadowPool.EXPECT)))
  labels = obs['labels']
  steps = obs['steps']
  issued = {}          # request task -> index of its Req step
  is_req = set()
  ntask = 0
  prev = ''
  holders = 0          # pool.Open() calls minus pool.Close() calls so far
  sane = True          # no Close() without a matching earlier Open() so far (then the count means "holders alive")
  for i, (lab, stp) in enumerate(zip(labels, steps)):
    cur = stp['sinks']
    live_before = [s for s, c in enumerate(prev) if c != 'C']
    live_after = [s for s, c in enumerate(cur) if c != 'C']
    evs = stp['ev']
    creates = [e for e in evs if e[0] == 'create']
    fwds = [e for e in evs if e[0] == 'fwd']
    if lab[0] in ('req', 'openpool'):
      if lab[0] == 'req':
        issued[ntask] = i
        is_req.add(ntask)
      me = ntask
      ntask += 1
    # the shared connection is not closed while a holder that opened and has not closed is alive
    if lab[0] == 'openpool':
      holders += 1
    elif lab[0] == 'close':
      holders -= 1
      if holders < 0:
        sane = False
    for e in evs:
      if e[0] == 'closeu' and sane and holders > 0:
        v.append(('closed-while-held', 'step %d %s: connection %d closed by the pool while %d holder(s) that opened and have not closed are alive' %
                  (i, lab, e[1], holders)))
    # at most one underlying connection at a time
    for e in creates:
      if e[2] > 0:
        v.append(('two-live-connections', 'step %d %s: sink %d created while %d earlier sink(s) were not closed' % (i, lab, e[1], e[2])))
    if len(live_after) > 1:
      v.append(('two-live-connections', 'step %d %s: sinks %s are all not closed' % (i, lab, live_after)))
    if len(creates) > 1:
      v.append(('double-create', 'step %d %s created %d sinks' % (i, lab, len(creates))))
    # a request is forwarded to the one live connection; never to a connection that was dead before it was issued
    for e in fwds:
      c, s = e[1], e[2]
      if live_after and s != live_after[0]:
        v.append(('not-shared', 'step %d %s: request %s forwarded to sink %s while sink %s is the live connection' % (i, lab, c, s, live_after[0])))
      if c in issued:
        before = steps[issued[c] - 1]['sinks'] if issued[c] > 0 else ''
        if s < len(before) and before[s] == 'C':
          v.append(('dead-sink-used', 'step %d %s: request %s (issued at step %d) forwarded to sink %s which was already closed then' %
                    (i, lab, c, issued[c], s)))
    if lab[0] == 'req':
      if not live_before and _mode(lab[1]) != 'fail':
        # replacement after a failure / first use: exactly one fresh connection
        if len(creates) != 1:
          v.append(('no-replacement', 'step %d: request %d arrived with no live connection (sinks %r) and %d sinks were created' %
                    (i, me, prev, len(creates))))
        elif creates[0][1] != len(prev):
          v.append(('no-replacement', 'step %d: the sink created is not fresh' % i))
      if len(live_before) == 1 and prev[live_before[0]] in 'OB':
        if [e for e in fwds if e[1] == me and e[2] == live_before[0]] == []:
          v.append(('not-shared', 'step %d: request %d not forwarded to the open connection %d (events %s)' % (i, me, live_before[0], evs)))
    if lab[0] == 'resume' and stp.get('resumed') and lab[1] in is_req and live_after:
      if [e for e in fwds if e[1] == lab[1] and e[2] == live_after[0]] == []:
        v.append(('not-shared', 'step %d: resumed request %d not forwarded to the live connection %d (events %s)' % (i, lab[1], live_after[0], evs)))
    prev = cur
  return v


REF_SHADOW = [['uopen', 0], ['ret', 0], ['ret', 0], ['-'], ['uclose']]


def _mon_ref(case, obs):
  v = []
  if obs.get('shadow') != 'ok':
    v.append(('instances-not-independent', 'a second RefCountedSink in the same process saw %s instead of %s' % (obs.get('shadow'), REF_SHADOW)))
  n = 0                 # holders according to the history (a close when nobody holds is surplus)
  opens = closes = 0
  last_open = None
  holders_after = []
  for i, (op, evs) in enumerate(zip(case['ops'], obs['ops_ev'])):
    uo = [e for e in evs if e[0] == 'uopen']
    uc = [e for e in evs if e[0] == 'uclose']
    opens += len(uo)
    closes += len(uc)
    if uo:
      last_open = uo[-1][1]
    if [e for e in evs if e[0] == 'exc']:
      v.append(('call-raised', 'op %d %s: %s' % (i, op, evs)))
    if op[0] == 'ropen':
      n += 1
      if n == 1 and len(uo) != 1:
        v.append(('first-open-not-forwarded', 'op %d %s: first holder but the underlying Open was called %d times' % (i, op, len(uo))))
      if n > 1 and uo:
        v.append(('surplus-underlying-open', 'op %d %s: underlying Open called with %d holders' % (i, op, n)))
      if uc:
        v.append(('closed-while-held', 'op %d %s: underlying Close called by an Open' % (i, op)))
      rets = [e for e in evs if e[0] == 'ret']
      if len(rets) != 1:
        v.append(('open-no-result', 'op %d %s: %s' % (i, op, evs)))
      elif rets[0][1] is None or rets[0][1] != last_open:
        v.append(('open-result-not-shared', 'op %d %s: Open returned %r, the underlying open result is %r' % (i, op, rets[0][1], last_open)))
    elif op[0] == 'rclose':
      if n == 0:
        if uo or uc:
          v.append(('surplus-close-not-ignored', 'op %d %s: nobody holds the sink but the underlying sink saw %s' % (i, op, evs)))
      else:
        n -= 1
        if n == 0 and len(uc) != 1:
          v.append(('last-close-not-forwarded', 'op %d %s: last holder closed, underlying Close called %d times' % (i, op, len(uc))))
        if n > 0 and uc:
          v.append(('closed-while-held', 'op %d %s: underlying Close called while %d holder(s) remain' % (i, op, n)))
        if uo:
          v.append(('surplus-underlying-open', 'op %d %s: underlying Open called by a Close' % (i, op)))
    elif op[0] == 'rreq':
      if evs != [['ufwd', op[1]]]:
        v.append(('request-not-forwarded', 'op %d %s: %s' % (i, op, evs)))
    elif op[0] == 'renv':
      if evs:
        v.append(('unexpected-underlying-call', 'op %d %s (environment only): %s' % (i, op, evs)))
    if not (closes <= opens <= closes + 1):
      v.append(('open-close-unbalanced', 'op %d: %d underlying opens, %d closes' % (i, opens, closes)))
    if (n > 0) != (opens == closes + 1):
      v.append(('open-close-unbalanced', 'op %d: %d holder(s) but %d underlying opens, %d closes' % (i, n, opens, closes)))
    holders_after.append(n)
  # in the order things really happened: whenever all calls issued so far have returned, the underlying sink is
  # open exactly if somebody holds it (a late underlying Close must not land after a new holder's Open)
  is_open = False
  done = 0
  for gi, (sz, evs) in enumerate(zip(obs['sizes'], obs['chrono'])):
    for k, e in evs:
      if e[0] == 'uopen':
        is_open = True
      elif e[0] == 'uclose':
        is_open = False
    done = min(done + sz, len(holders_after))
    if done and holders_after[done - 1] > 0 and not is_open:
      v.append(('closed-while-held', 'after ops %d..%d (issued concurrently): %d holder(s) but the last underlying call was Close: %s' %
                (done - sz, done - 1, holders_after[done - 1], evs)))
    if done and holders_after[done - 1] == 0 and is_open:
      v.append(('last-close-not-forwarded', 'after ops %d..%d: nobody holds the sink but the underlying sink is open: %s' % (done - sz, done - 1, evs)))
  return v


SHARED_SHADOW = {'same': [True, True, True], 'created': 3, 'foreign': [False, False, False]}


def _mon_shared(case, obs):
  v = []
  if obs.get('shadow') != SHARED_SHADOW:
    v.append(('instances-not-independent', 'a second SharedSinkProvider in the same process: %s instead of %s' % (obs.get('shadow'), SHARED_SHADOW)))
  k = 0
  made_here = set()
  holders = {}          # ref -> (key, sink id, wrapped)
  for op, stp in zip(case['ops'], obs['steps']):
    if op[0] == 'create':
      key = op[1]
      ret = [e for e in stp['ev'] if e[0] == 'ret'][0]
      under = [e for e in stp['ev'] if e[0] == 'under']
      n, wrapped = ret[1], ret[2]
      made_here.update(e[1] for e in under)
      if n not in made_here:
        v.append(('instances-not-independent', 'op %d: key %s returned sink %s which this provider\'s next_provider never created' % (k, key, n)))
      if key > 0:
        alive = [r for r, (kk, s, wr) in holders.items() if kk == key]
        if alive:
          if any(r not in stp['same_obj_as'] for r in alive):
            v.append(('same-key-different-sink', 'op %d: key %s has live holder(s) %s but CreateSink returned another object (sink %s)' % (k, key, alive, n)))
          if under:
            v.append(('same-key-new-connection', 'op %d: key %s has live holders but a new underlying sink was created' % (k, key)))
        other = [r for r in stp['same_obj_as'] if holders[r][0] != key]
        if other:
          v.append(('shared-across-keys', 'op %d: key %s got the object held by %s under another key' % (k, key, other)))
        if not wrapped:
          v.append(('not-ref-counted', 'op %d: key %s returned a bare sink' % (k, key)))
      holders[stp['ref']] = (key, n, wrapped)
    elif op[0] == 'drop':
      holders.pop(stp['drop'], None)
    k += 1
  return v


def monitor(case, obs):
  k = case['kind']
  if k == 'single':
    return _mon_single(case, obs)
  if k == 'ref':
    return _mon_ref(case, obs)
  return _mon_shared(case, obs)


# ---------------------------------------------------------------------------------------------
# translation to Coq terms
# ---------------------------------------------------------------------------------------------
def _nat(n):
  assert 0 <= int(n) <= 5000
  return '%d%%nat' % int(n)


def _single_label(l):
  k = l[0]
  if k == 'req':
    return 'Req %s' % MODES[_mode(l[1])]
  if k == 'openpool':
    return 'OpenPool'
  if k == 'start':
    return 'Start %s %s' % (_nat(l[1]), MODES[_mode(l[2])])
  if k == 'close':
    return 'ClosePool'
  if k == 'opendone':
    return 'OpenDone %s %s' % (_nat(l[1]), C.blit(l[2]))
  if k == 'fault':
    return 'Fault %s' % _nat(l[1])
  if k == 'busy':
    return 'SetBusy %s %s' % (_nat(l[1]), C.blit(l[2]))
  if k == 'resume':
    return 'Resume %s' % _nat(l[1])
  raise ValueError(k)


def _single_ev(e):
  k = e[0]
  if k == 'create':
    return 'Create %s' % _nat(e[1])
  if k == 'openu':
    return 'OpenUnder %s' % _nat(e[1])
  if k == 'closeu':
    return 'CloseUnder %s' % _nat(e[1])
  if k == 'fwd':
    return 'Forward %s %s' % (_nat(e[1]), _nat(e[2]))
  if k == 'error':
    return 'Error %s' % _nat(e[1])
  if k == 'crash':
    return 'Crash %s' % _nat(e[1])
  if k == 'poolfault':
    return 'PoolFault'
  if k == 'openres':
    return 'OpenResult %s %s' % (_nat(e[1]), C.blit(e[2]))
  raise ValueError('event outside the model: %r' % (e,))


def to_coq(case, obs):
  k = case['kind']
  if k == 'single':
    ops = C.lst([_single_label(l) for l in obs['labels']])
    exp = C.lst(['(%s, %s)' % (C.lst([_single_ev(e) for e in s['ev']]), C.zlit(s['pstate'])) for s in obs['steps']])
    return 'CSingle %s %s' % (ops, exp)
  if k == 'ref':
    def lab(o):
      return {'ropen': 'ROpen', 'rclose': 'RClose', 'rreq': 'RReq', 'renv': 'REnv'}[o[0]] + ' ' + C.zlit(o[1])

    def ev(e):
      if e[0] == 'uopen':
        return 'UOpen %s' % C.zlit(e[1])
      if e[0] == 'uclose':
        return 'UClose'
      if e[0] == 'ret':
        return 'URet %s' % C.opt(None if e[1] is None else C.zlit(e[1]))
      if e[0] == 'ufwd':
        return 'UForward %s' % C.zlit(e[1])
      raise ValueError('event outside the model: %r' % (e,))
    per_op = C.lst([C.lst([ev(e) for e in evs]) for evs in obs['ops_ev']])
    if case.get('yield') and any(z > 1 for z in obs['sizes']):
      chrono = C.lst([C.lst([ev(e) for k_, e in evs if e[0] != 'ufwd']) for evs in obs['chrono']])
      return 'CRefG %s %s %s %s' % (C.lst([lab(o) for o in case['ops']]), per_op, C.natlist(obs['sizes']), chrono)
    return 'CRef %s %s' % (C.lst([lab(o) for o in case['ops']]), per_op)
  if k == 'shared':
    refs = []
    labels = []
    for op, stp in zip(case['ops'], obs['steps']):
      if op[0] == 'create':
        labels.append('SCreate %s' % C.zlit(op[1] if op[1] > 0 else 0))
      elif op[0] == 'drop':
        labels.append('SDrop %s' % _nat(stp['drop']))
      else:
        labels.append('SEnv %s %s' % (_nat(stp['env'][0]), C.zlit(stp['env'][1])))

    def ev(e):
      if e[0] == 'under':
        return 'SUnder %s' % _nat(e[1])
      if e[0] == 'ret':
        return 'SRet %s %s' % (_nat(e[1]), C.blit(e[2]))
      raise ValueError('event outside the model: %r' % (e,))
    # the holders' own Open/Close calls reach the underlying sink (uopen/uclose): RefCount.v's subject, not Shared.v's
    exp = C.lst([C.lst([ev(e) for e in s['ev'] if e[0] in ('under', 'ret')]) for s in obs['steps']])
    return 'CShared %s %s' % (C.lst(labels), exp)
  raise ValueError(k)


def nontrivial(case, obs):
  k = case['kind']
  if k == 'single':
    return any(e[0] == 'create' for s in obs['steps'] for e in s['ev'])
  if k == 'ref':
    return any(e[0] == 'uopen' for evs in obs['ops_ev'] for e in evs)
  return any(e[0] == 'under' for s in obs['steps'] for e in s['ev'])


def describe(case, obs):
  return {'case': case, 'obs': obs}


def stats(cases, obs):
  labs = {}
  evs = {}
  br = dict.fromkeys(['get_none_create', 'get_closed_replace', 'get_idle_wait', 'get_share_forward', 'create_raises',
                      'open_counted_only', 'open_spawns_greenlet', 'start_share_result', 'start_unknown_or_started', 'resume_forward_live', 'resume_forward_closed_or_opening', 'resume_crash_none',
                      'resume_open_result', 'resume_blocked_or_unknown', 'close_underlying', 'close_counted_only',
                      'fault_propagated', 'fault_unsubscribed_or_noop', 'opendone_ok', 'opendone_noop', 'busy_toggled', 'busy_noop',
                      'get_share_forward_busy', 'create_open_now', 'create_fail_now', 'reentrant_reaction_to_fault'], 0)
  maxwait = 0
  ref = dict.fromkeys(['open_first', 'open_shared', 'close_last', 'close_not_last', 'close_surplus', 'request', 'env_closed_while_held', 'env_other', 'last_close_after_fault',
                       'concurrent_groups', 'yielding_cases'], 0)
  sh = dict.fromkeys(['create_hit', 'create_miss', 'create_falsy_key', 'recreate_after_all_holders_dropped', 'drop', 'drop_unknown', 'env_closed', 'env_other_state', 'create_hit_while_underlying_closed',
                      'gc_cases'], 0)
  for c, o in zip(cases, obs):
    if not isinstance(o, dict) or 'harness_exc' in o:
      continue
    if c['kind'] == 'single':
      w = 0
      ppstate = 1
      prev = ''
      if c.get('on_fault'):
        br['reentrant_reaction_to_fault'] += sum(1 for s_ in o['steps'] if 'poolfault' in [e[0] for e in s_['ev']])
      for lab, s in zip(o['labels'], o['steps']):
        labs[lab[0]] = labs.get(lab[0], 0) + 1
        names = [e[0] for e in s['ev']]
        for nme in names:
          evs[nme] = evs.get(nme, 0) + 1
        if lab[0] in ('req', 'start') and 'create' in names and _mode(lab[-1]) in ('opennow', 'failnow'):
          br['create_open_now' if _mode(lab[-1]) == 'opennow' else 'create_fail_now'] += 1
        if lab[0] == 'openpool':
          br['open_counted_only' if names == ['openres'] else 'open_spawns_greenlet'] += 1
        elif lab[0] in ('req', 'start'):
          if 'create' in names:
            br['get_closed_replace' if ppstate == 4 else 'get_none_create'] += 1
            w += 1
          elif names == ['openu']:
            br['get_idle_wait'] += 1
            w += 1
          elif 'fwd' in names:
            br['get_share_forward'] += 1
          elif 'error' in names or (names == ['openres'] and not s['ev'][0][2]):
            br['create_raises'] += 1
          elif names == ['openres']:
            br['start_share_result'] += 1
          elif lab[0] == 'start':
            br['start_unknown_or_started'] += 1
        elif lab[0] == 'resume':
          if s.get('resumed'):
            w -= 1
          if 'fwd' in names:
            tgt = s['ev'][names.index('fwd')][2]
            br['resume_forward_live' if s['sinks'][tgt] in 'OB' else 'resume_forward_closed_or_opening'] += 1
          elif 'crash' in names:
            br['resume_crash_none'] += 1
          elif 'openres' in names:
            br['resume_open_result'] += 1
          else:
            br['resume_blocked_or_unknown'] += 1
        elif lab[0] == 'close':
          br['close_underlying' if 'closeu' in names else 'close_counted_only'] += 1
        elif lab[0] == 'fault' or (lab[0] == 'opendone' and not lab[2]):
          br['fault_propagated' if 'poolfault' in names else 'fault_unsubscribed_or_noop'] += 1
        elif lab[0] == 'opendone':
          br['opendone_ok' if s['sinks'] != prev else 'opendone_noop'] += 1
        elif lab[0] == 'busy':
          br['busy_toggled' if s['sinks'] != prev else 'busy_noop'] += 1
        if lab[0] == 'req' and 'fwd' in names and 'B' in prev:
          br['get_share_forward_busy'] += 1
        maxwait = max(maxwait, w)
        ppstate = s['pstate']
        prev = s['sinks']
    elif c['kind'] == 'ref':
      n = 0
      dead = False
      for op in c['ops']:
        was = n
        if op[0] == 'ropen':
          n += 1
          ref['open_first' if n == 1 else 'open_shared'] += 1
        elif op[0] == 'rclose':
          if n == 0:
            ref['close_surplus'] += 1
          else:
            n -= 1
            ref['close_last' if n == 0 else 'close_not_last'] += 1
        elif op[0] == 'renv':
          ref['env_closed_while_held' if (op[1] == 4 and n > 0) else 'env_other'] += 1
          dead = op[1] == 4
        else:
          ref['request'] += 1
        if op[0] == 'rclose' and dead and n == 0 and was > 0:
          ref['last_close_after_fault'] += 1
        if op[0] == 'ropen' and n == 1:
          dead = False
      ref['concurrent_groups'] += sum(1 for z in o['sizes'] if z > 1)
      ref['yielding_cases'] += 1 if c.get('yield') else 0
    else:
      seen = set()
      sh['gc_cases'] += 1 if c.get('gc') else 0
      live = set()
      closed_now = {}
      for op, s in zip(c['ops'], o['steps']):
        names = [e[0] for e in s['ev']]
        if 'env' in s:
          closed_now[s['env'][0]] = s['env'][1] == 4
        if op[0] == 'create':
          live.add(s['ref'])
          if op[1] <= 0:
            sh['create_falsy_key'] += 1
          elif 'under' in names:
            sh['create_miss'] += 1
            if op[1] in seen:
              sh['recreate_after_all_holders_dropped'] += 1
            seen.add(op[1])
          else:
            sh['create_hit'] += 1
            tgt = [e for e in s['ev'] if e[0] == 'ret'][0][1]
            if closed_now.get(tgt):
              sh['create_hit_while_underlying_closed'] += 1
        elif op[0] == 'drop':
          sh['drop' if s['drop'] in live else 'drop_unknown'] += 1
          live.discard(s['drop'])
        else:
          sh['env_closed' if s['env'][1] == 4 else 'env_other_state'] += 1
  br['max_concurrently_blocked_tasks'] = maxwait
  return {'single_labels': labs, 'single_events': evs, 'single_branches': br, 'refcount_branches': ref, 'shared_branches': sh}
