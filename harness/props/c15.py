"""C15 - Kafka produce requests and responses are well-formed for every input.

Implementation under test (imported from $SCALES_REPO as it is now):
  scales.kafka.protocol.KafkaProtocol.SerializeMessage / DeserializeMessage (and the private writers/readers behind them)
  scales.kafka.sink.KafkaTransportSink._BuildHeader / _ProcessReply, KafkaSerializerSink.AsyncProcessRequest/-Response
  scales.mux.sink.MuxSocketTransportSink.AsyncProcessRequest / _ProcessTaggedReply / _ReleaseTag (+ the real TagPool)
  scales.binary.BinaryReader / BinaryWriter
Model: coq/Model/KafkaCodec.v, coq/Model/Crc32.v.
Monitor: an independent Python Kafka v0 request parser / response encoder written from the protocol guide
(third implementation; CRC via zlib.crc32) and an independent pending-by-correlation-id table.
"""
import io
import struct
import sys
import zlib

from .. import common as C

PID = 'C15'
PROPS_FILE = 'Props/C15.v'
COQ_HEADER = 'From Scales Require Import Model.Bytes Model.Utf8 Model.Crc32 Model.KafkaCodec.'
COQ_CASE_TYPE = 'KafkaCodec.case'
COQ_CHECK = 'KafkaCodec.check_case'
COQ_EXPLAIN = 'KafkaCodec.explain_case'
SHARD = 60
WORKERS = 1
RULE = ('seeded generator: produce requests with topics as bytes of length 0..300 and 32767/32768, partition/acks/correlation id '
        'over the int16/int32 ranges, their edges and just outside, payload lists of 0..50 items of 0..2 KiB arbitrary bytes '
        '(evaluated inside Coq; up to 50 x 64 KiB checked by the Python parser only), default/keyword argument forms, client ids '
        'incl. non-ASCII and 32767/32768 bytes; _BuildHeader on arbitrary arguments; the two independent v0 request parsers '
        '(Gallina / Python) on implementation frames with one corrupted/truncated/extended byte and on multi-topic multi-partition '
        'keyed requests from a reference encoder; zlib.crc32 vs Crc32.v; produce/metadata responses with 0..5 topics x 0..5 '
        'partitions, hosts/topic names with arbitrary bytes, duplicate ids, negative error codes, int edges, truncated / '
        'tampered / random replies; send/reply histories through KafkaSerializerSink -> KafkaTransportSink with the real TagPool '
        'or scripted tags (int32 edges, duplicates), replies in any order, duplicated, unknown ids, short replies; sequences of '
        '2..5 requests of shrinking/equal/growing size through one sink instance (each queued frame parsed strictly: declared '
        'size = bytes written, nothing stale or trailing); transport-level histories: ClientTimeoutSink -> KafkaSerializerSink -> '
        'KafkaTransportSink with its real send/receive loops on a virtual clock against a fake broker that answers on command: '
        'requests time out in flight / while queued / at the call, new requests on the same connection, late replies, several '
        'replies flushed in one segment (all readable before the receive loop yields) or split at arbitrary byte boundaries '
        '(burst / one piece per scheduling round), the broker answering inside write(), deadlines hit exactly / same-deadline '
        'timers fired in both orders / Deadline 0, callers that dispatch again or raise (Exception, gevent.Timeout) from inside '
        'their reply / timeout / error callback, close + a new sink stack on the same slot, one or two connections (two '
        'independent sink stacks in one process, also for the route histories; the same message object dispatched twice). '
        'non-trivial = the implementation produced bytes / a decoded value / a routing decision (no exception); distinct by '
        'canonical JSON of (case, observation)')
TRUSTED = ['zlib.crc32 (the implementation uses it; the harness uses it as the CRC oracle and to cross-check Model/Crc32.v)',
           'independent Python Kafka v0 request parser and response/request encoders in harness/props/c15.py (monitor)',
           'the Kafka 0.8 protocol guide as transcribed in the comments of Model/KafkaCodec.v sections 3 and 4']
ASSUMPTIONS = ['struct.pack/unpack and BytesIO.read semantics of CPython as transcribed in Model/Bytes.v and KafkaCodec.py_read',
               'topics and payloads are bytes objects (as in the repository\'s own test_protocol.py); str arguments raise TypeError '
               'and are outside the model',
               'payload lists above ~100 KiB in total are checked against the Python parser only, not evaluated inside Coq',
               'routing: the tag returned by TagPool.get() is an input of the model (uniqueness of outstanding tags is C11); '
               'whether a deadline fires before or after the frame left the send queue is recorded and passed to the model '
               '(TTimeout / TUnsent); shutdown and connection loss are not part of this property',
               'transport cases: scales.sink.GLOBAL_TIMER_QUEUE / scales.sink.time are replaced by a virtual clock for the '
               'duration of a case (ClientTimeoutSink is otherwise unmodified); greenlets are settled with gevent.sleep(0)']

MANIFEST = {
    'text': ('Theorems C15_request_wf, C15_request_total, C15_crc_continuation, C15_produce_resp, C15_metadata_resp, '
             'C15_metadata_resp_distinct, C15_routing, C15_routing_request, C15_routing_timeouts, C15_late_reply, C15_fuel_irrelevant hold for every topic, partition, acks value, payload list, correlation id, client id, '
             'every encodable produce/metadata response and every history of sends and replies (no size or length bound) of the '
             'Gallina transcription of the Kafka v0 writer/readers and correlation-id table, against an independently written strict '
             'v0 request parser and reference response encoders; the transcription, the parser, the encoders and the bitwise CRC-32 '
             'are compared with the real code, zlib.crc32 and an independent Python parser/encoder on ~1.5k (quick) / ~10.7k (thorough) '
             'generated inputs per run.'),
    'note': ('Trusted: Coq kernel; the correspondence harness (harness/props/c15.py) and its sampling; struct/BytesIO semantics as '
             'modelled in Model/Bytes.v; zlib.crc32; the reading of the Kafka 0.8 protocol guide. Topics/payloads are bytes. '
             'All theorems closed under the global context.'),
    'technique': 'Coq proof (round-trip against independent parser/encoders, invariant over send/reply histories) + differential execution model vs code vs third parser',
    'design_ref': 'DESIGN.md section 5, C15',
}

_S = {}
I16 = (-2 ** 15, 2 ** 15 - 1)
I32 = (-2 ** 31, 2 ** 31 - 1)
I64 = (-2 ** 63, 2 ** 63 - 1)


def setup():
  if _S:
    return
  if C.REPO not in sys.path:
    sys.path.insert(0, C.REPO)
  import scales
  assert scales.__file__.startswith(C.REPO), scales.__file__
  from scales.kafka.protocol import KafkaProtocol, MessageType
  from scales.kafka.sink import KafkaTransportSink, KafkaSerializerSink, KafkaEndpoint
  from scales.message import MethodCallMessage, MethodReturnMessage
  from scales.constants import MessageProperties, TransportHeaders, ChannelState
  from scales.sink import ClientMessageSink, ClientMessageSinkStack
  import logging
  logging.getLogger('scales').setLevel(logging.CRITICAL)
  _S.update(KafkaProtocol=KafkaProtocol, MessageType=MessageType, KafkaTransportSink=KafkaTransportSink,
            KafkaSerializerSink=KafkaSerializerSink, KafkaEndpoint=KafkaEndpoint, MethodCallMessage=MethodCallMessage,
            MethodReturnMessage=MethodReturnMessage, MessageProperties=MessageProperties, TransportHeaders=TransportHeaders,
            ChannelState=ChannelState, ClientMessageSink=ClientMessageSink, ClientMessageSinkStack=ClientMessageSinkStack)


# ---------------------------------------------------------------------------------------------
# compact byte-string specs (cases stay small in JSON): {'hex':..} | {'rnd': seed, 'n': n} | {'rep': byte, 'n': n}
# ---------------------------------------------------------------------------------------------
def expand(spec):
  if isinstance(spec, (bytes, bytearray)):
    return bytes(spec)
  if 'hex' in spec:
    return bytes.fromhex(spec['hex'])
  if 'rnd' in spec:
    import random
    return random.Random(spec['rnd']).randbytes(spec['n'])
  if 'rep' in spec:
    return bytes([spec['rep']]) * spec['n']
  raise ValueError(spec)


def hx(b):
  return {'hex': bytes(b).hex()}


def i32s(n):
  return struct.pack('!i', n)


# ---------------------------------------------------------------------------------------------
# independent Kafka v0 parser / encoders (protocol guide), used by the monitor
# ---------------------------------------------------------------------------------------------
class ParseError(Exception):
  pass


class _R(object):
  def __init__(self, b):
    self.b = b
    self.o = 0

  def take(self, n):
    if n < 0 or self.o + n > len(self.b):
      raise ParseError('need %d bytes at offset %d, %d left' % (n, self.o, len(self.b) - self.o))
    v = self.b[self.o:self.o + n]
    self.o += n
    return v

  def int(self, k):
    return int.from_bytes(self.take(k), 'big', signed=True)

  def uint(self, k):
    return int.from_bytes(self.take(k), 'big', signed=False)

  def lp(self, k):
    n = self.int(k)
    if n == -1:
      return None
    if n < 0:
      raise ParseError('negative length %d' % n)
    return self.take(n)

  def left(self):
    return len(self.b) - self.o


def py_parse_message_set(b):
  r = _R(b)
  out = []
  while r.left():
    off = r.int(8)
    size = r.int(4)
    if size < 0:
      raise ParseError('negative message size')
    m = _R(r.take(size))
    crc = m.uint(4)
    rest = m.b[m.o:]
    if zlib.crc32(rest) & 0xffffffff != crc:
      raise ParseError('message CRC %08x does not match computed %08x' % (crc, zlib.crc32(rest) & 0xffffffff))
    magic = m.int(1)
    attrs = m.int(1)
    key = m.lp(4)
    val = m.lp(4)
    if m.left():
      raise ParseError('%d bytes left inside a message' % m.left())
    out.append({'offset': off, 'magic': magic, 'attrs': attrs, 'key': key, 'value': val})
  return out


def py_parse_request(f):
  """Strict v0 RequestMessage parser. Returns a dict; raises ParseError."""
  r = _R(bytes(f))
  size = r.int(4)
  if size != r.left():
    raise ParseError('declared request size %d but %d bytes follow' % (size, r.left()))
  key = r.int(2)
  ver = r.int(2)
  corr = r.int(4)
  cid = r.lp(2)
  out = {'api_key': key, 'version': ver, 'corr': corr, 'client': cid}
  if key == 0:
    out['acks'] = r.int(2)
    out['timeout'] = r.int(4)
    nt = r.int(4)
    if nt < 0:
      raise ParseError('negative topic count')
    topics = []
    for _ in range(nt):
      name = r.lp(2)
      if name is None:
        raise ParseError('null topic name')
      np_ = r.int(4)
      if np_ < 0:
        raise ParseError('negative partition count')
      parts = []
      for _ in range(np_):
        p = r.int(4)
        mss = r.int(4)
        if mss < 0:
          raise ParseError('negative message set size')
        parts.append((p, py_parse_message_set(r.take(mss))))
      topics.append((name, parts))
    out['topics'] = topics
  elif key == 3:
    n = r.int(4)
    if n < 0:
      raise ParseError('negative topic count')
    ts = []
    for _ in range(n):
      name = r.lp(2)
      if name is None:
        raise ParseError('null topic name')
      ts.append(name)
    out['meta_topics'] = ts
  else:
    raise ParseError('api key %d' % key)
  if r.left():
    raise ParseError('%d bytes left after the request body' % r.left())
  return out


def py_summary(f):
  """Summary in the shape of KafkaCodec.rsum, or None."""
  try:
    d = py_parse_request(f)
  except ParseError:
    return None
  prod = None
  if 'topics' in d:
    prod = [d['acks'], d['timeout'],
            [[t, [[p, [[m['offset'], m['magic'], m['attrs'], -1 if m['key'] is None else len(m['key']),
                        -1 if m['value'] is None else len(m['value'])] for m in ms]] for p, ms in parts]]
             for t, parts in d['topics']]]
  return [d['api_key'], d['version'], d['corr'], d['client'], prod, d.get('meta_topics', [])]


def _lp(k, b):
  if b is None:
    return (-1).to_bytes(k, 'big', signed=True)
  return len(b).to_bytes(k, 'big', signed=True) + b


def py_enc_request(q):
  """Reference encoder for a general v0 produce/metadata request (used to exercise both parsers)."""
  body = struct.pack('!hhi', q['api_key'], q['version'], q['corr']) + _lp(2, q['client'])
  if 'topics' in q:
    body += struct.pack('!hii', q['acks'], q['timeout'], len(q['topics']))
    for name, parts in q['topics']:
      body += _lp(2, name) + struct.pack('!i', len(parts))
      for p, msgs in parts:
        ms = b''
        for m in msgs:
          inner = struct.pack('!bb', m['magic'], m['attrs']) + _lp(4, m['key']) + _lp(4, m['value'])
          crc = zlib.crc32(inner) & 0xffffffff
          if m.get('badcrc'):
            crc ^= 1 << (m['badcrc'] % 32)
          msg = struct.pack('!I', crc) + inner
          ms += struct.pack('!qi', m['offset'], len(msg) + m.get('sizeoff', 0)) + msg
        body += struct.pack('!ii', p, len(ms) + q.get('mssoff', 0)) + ms
  else:
    body += struct.pack('!i', len(q['meta_topics']))
    for t in q['meta_topics']:
      body += _lp(2, t)
  return struct.pack('!i', len(body) + q.get('sizeoff', 0)) + body


def py_enc_produce_response(resp):
  out = struct.pack('!i', len(resp))
  for topic, parts in resp:
    out += struct.pack('!h', len(topic)) + topic + struct.pack('!i', len(parts))
    for p, e, o in parts:
      out += struct.pack('!ihq', p, e, o)
  return out


def py_enc_metadata_response(brokers, topics):
  out = struct.pack('!i', len(brokers))
  for nid, host, port in brokers:
    out += struct.pack('!i', nid) + struct.pack('!h', len(host)) + host + struct.pack('!i', port)
  out += struct.pack('!i', len(topics))
  for terr, name, parts in topics:
    out += struct.pack('!h', terr) + struct.pack('!h', len(name)) + name + struct.pack('!i', len(parts))
    for perr, pid, leader, reps, isr in parts:
      out += struct.pack('!hii', perr, pid, leader)
      out += struct.pack('!i', len(reps)) + b''.join(struct.pack('!i', x) for x in reps)
      out += struct.pack('!i', len(isr)) + b''.join(struct.pack('!i', x) for x in isr)
  return out


# ---------------------------------------------------------------------------------------------
# generators
# ---------------------------------------------------------------------------------------------
E16 = [0, 1, -1, 2, 255, 256, 32767, -32768]
X16 = [32768, -32769, 65535, 70000]
E32 = [0, 1, -1, 2, 255, 256, 65535, 65536, 2 ** 24 - 2, 2 ** 24 - 1, 2 ** 24, 2 ** 31 - 1, -2 ** 31]
X32 = [2 ** 31, -2 ** 31 - 1, 2 ** 32, 2 ** 32 + 5]
E64 = [0, 1, -1, 939955, 2 ** 31, 2 ** 32, 2 ** 63 - 1, -2 ** 63]
CIDS = [None, None, None, None, None, '', 's', 'scales', 'client-é', 'кафка', '€uro', '\U0001F600x', 'a' * 300]


def r16(r, out=0.0):
  k = r.random()
  if k < out:
    return r.choice(X16)
  if k < 0.5:
    return r.choice(E16)
  return r.randrange(-2 ** 15, 2 ** 15)


def r32(r, out=0.0):
  k = r.random()
  if k < out:
    return r.choice(X32)
  if k < 0.5:
    return r.choice(E32)
  return r.randrange(-2 ** 31, 2 ** 31)


def r64(r):
  if r.random() < 0.5:
    return r.choice(E64)
  return r.randrange(-2 ** 63, 2 ** 63)


def rbytes_spec(r, n):
  k = r.random()
  if k < 0.2:
    return {'rep': r.choice([0, 255, 0x41, 0x80]), 'n': n}
  if n <= 64:
    return {'hex': bytes(r.randrange(256) for _ in range(n)).hex()}
  return {'rnd': r.randrange(2 ** 30), 'n': n}


def rtopic(r):
  n = r.choice([0, 1, 2, 5, 10, 10, 20, 64, r.randrange(0, 301)])
  if r.random() < 0.5:
    return {'hex': bytes(r.choice(b'abcxyz_.-0123456789TOPIC') for _ in range(n)).hex()}
  return rbytes_spec(r, n)


def rpayloads(r, budget):
  """0..50 payloads of 0..2 KiB with total size <= budget."""
  k = r.random()
  if k < 0.12:
    n = 0
  elif k < 0.4:
    n = 1
  elif k < 0.8:
    n = r.randrange(2, 6)
  else:
    n = r.randrange(6, 51)
  out = []
  left = budget
  for _ in range(n):
    m = r.choice([0, 0, 1, 2, 3, 7, 12, 16, 31, 32, 33, 100, 255, 256, 257, r.randrange(0, 600), r.randrange(0, 2049), 2048])
    m = min(m, left)
    left -= m
    out.append(rbytes_spec(r, m))
  return out


def gen_produce(r, budget=1500):
  c = {'kind': 'produce', 'topic': rtopic(r), 'partition': r32(r, 0.04), 'acks': r16(r, 0.04), 'payloads': rpayloads(r, budget),
       'tag': r32(r, 0.03), 'cid': r.choice(CIDS), 'form': r.choice(['args', 'args', 'kwargs', 'mixed'])}
  k = r.random()
  if k < 0.05:
    c['acks'] = 'default'
  elif k < 0.08:
    c['acks'] = 'default'
    c['payloads'] = 'default'
  return c


def gen_presp(r):
  resp = []
  for _ in range(r.choice([0, 1, 1, 2, 3, 5])):
    parts = [[r32(r), r.choice([0, 0, 3, 6, 8, -1, 7, r16(r)]), r64(r)] for _ in range(r.choice([0, 1, 1, 2, 3, 5]))]
    resp.append([rtopic(r), parts])
  return resp


def gen_mresp(r):
  nb = r.choice([0, 1, 2, 3, 5])
  ids = [r.choice([0, 1, 2, 3, 1001, -1, r32(r)]) for _ in range(nb)]
  brokers = []
  for nid in ids:
    hk = r.random()
    if hk < 0.4:
      host = {'hex': ('ec2-%d.compute-1.amazonaws.com' % r.randrange(300)).encode().hex()}
    elif hk < 0.6:
      host = {'hex': 'brökér-%d.example'.replace('%d', str(r.randrange(9))).encode('utf-8').hex()}
    else:
      host = rbytes_spec(r, r.choice([0, 1, 9, 40, 255]))
    brokers.append([nid, host, r.choice([9092, 0, 65535, r32(r)])])
  topics = []
  names = [rtopic(r) for _ in range(r.choice([0, 1, 1, 2, 3, 5]))]
  if len(names) >= 2 and r.random() < 0.2:
    names[-1] = names[0]                     # duplicate topic name: the later entry wins
  for name in names:
    parts = []
    for _ in range(r.choice([0, 1, 1, 2, 3, 5])):
      reps = [r.choice(ids + [r32(r)]) if True else 0 for _ in range(r.choice([0, 1, 2, 3]))]
      isr = [r.choice(ids + [r32(r)]) for _ in range(r.choice([0, 1, 2, 3]))]
      parts.append([r.choice([0, 0, 5, 9, -1, r16(r)]), r.choice([0, 1, 2, 3, r32(r)]), r.choice(ids + [-1, r32(r)]), reps, isr])
    topics.append([r.choice([0, 0, 3, 5, -1, r16(r)]), name, parts])
  return brokers, topics


def gen_mut(r):
  k = r.random()
  if k < 0.35:
    return ['trunc', r.randrange(1, 40)]
  if k < 0.6:
    return ['flip', r.randrange(0, 10 ** 6), 1 << r.randrange(8)]
  if k < 0.75:
    return ['append', bytes(r.randrange(256) for _ in range(r.choice([1, 2, 4, 9]))).hex()]
  if k < 0.9:
    return ['set32', r.randrange(0, 10 ** 6), r.choice([-1, -2, 2 ** 31 - 1, -2 ** 31, 0, 1, 1000, 65536])]
  return ['random', bytes(r.randrange(256) for _ in range(r.randrange(0, 40))).hex()]


def apply_mut(b, mut):
  if not mut:
    return b
  k = mut[0]
  if k == 'trunc':
    return b[:max(0, len(b) - mut[1])]
  if k == 'flip':
    if not b:
      return b
    i = mut[1] % len(b)
    return b[:i] + bytes([b[i] ^ mut[2]]) + b[i + 1:]
  if k == 'append':
    return b + bytes.fromhex(mut[1])
  if k == 'set32':
    if len(b) < 4:
      return b
    i = mut[1] % (len(b) - 3)
    return b[:i] + struct.pack('!i', mut[2]) + b[i + 4:]
  if k == 'random':
    return bytes.fromhex(mut[1])
  raise ValueError(mut)


def gen_generic_request(r):
  q = {'api_key': r.choice([0, 0, 0, 0, 3, 1, -1]), 'version': r.choice([0, 0, 1, -1]), 'corr': r32(r),
       'client': r.choice([None, b'', b'scales', bytes(r.randrange(256) for _ in range(r.randrange(0, 20)))])}
  if q['api_key'] == 3:
    q['meta_topics'] = [expand(rtopic(r)) for _ in range(r.choice([0, 0, 1, 3]))]
    q['api_key'] = 3
  else:
    q['acks'] = r16(r)
    q['timeout'] = r32(r)
    topics = []
    for _ in range(r.choice([0, 1, 1, 2, 3])):
      parts = []
      for _ in range(r.choice([0, 1, 1, 2, 3])):
        msgs = []
        for _ in range(r.choice([0, 1, 1, 2, 4])):
          m = {'offset': r64(r), 'magic': r.choice([0, 0, 1, -1]), 'attrs': r.choice([0, 0, 1, 2, -128]),
               'key': r.choice([None, None, b'', b'k', bytes(r.randrange(256) for _ in range(r.randrange(0, 12)))]),
               'value': r.choice([None, b'', bytes(r.randrange(256) for _ in range(r.randrange(0, 40)))])}
          if r.random() < 0.05:
            m['badcrc'] = r.randrange(32)
          if r.random() < 0.04:
            m['sizeoff'] = r.choice([1, -1, 4])
          msgs.append(m)
        parts.append([r32(r), msgs])
      topics.append([expand(rtopic(r)), parts])
    q['topics'] = topics
    if r.random() < 0.05:
      q['mssoff'] = r.choice([1, -1, 26])
  if r.random() < 0.06:
    q['sizeoff'] = r.choice([1, -1, 100])
  return q


def _j(q):
  """JSON form of a generic request (bytes -> hex)."""
  def b(x):
    return None if x is None else x.hex()
  d = dict(q)
  d['client'] = b(q['client'])
  if 'meta_topics' in q:
    d['meta_topics'] = [t.hex() for t in q['meta_topics']]
  if 'topics' in q:
    d['topics'] = [[t.hex(), [[p, [dict(m, key=b(m['key']), value=b(m['value'])) for m in ms]] for p, ms in parts]]
                   for t, parts in q['topics']]
  return d


def _unj(d):
  def b(x):
    return None if x is None else bytes.fromhex(x)
  q = dict(d)
  q['client'] = b(d['client'])
  if 'meta_topics' in d:
    q['meta_topics'] = [bytes.fromhex(t) for t in d['meta_topics']]
  if 'topics' in d:
    q['topics'] = [[bytes.fromhex(t), [[p, [dict(m, key=b(m['key']), value=b(m['value'])) for m in ms]] for p, ms in parts]]
                   for t, parts in d['topics']]
  return q


def gen_route(r):
  scripted = r.random() < 0.4
  nconn = r.choice([1, 1, 2])
  sends = []
  ops = []
  nsend = 0
  tags_used = []
  for _ in range(r.choice([2, 4, 6, 8, 12, 16])):
    k = r.random()
    if k < 0.5 or nsend == 0:
      ck = r.random()
      if ck < 0.7:
        call = {'put': {'topic': rtopic(r), 'partition': r32(r, 0.03), 'acks': r16(r, 0.03),
                        'payloads': rpayloads(r, 60)[:4]}}
      elif ck < 0.88:
        call = {'meta': []}
      elif ck < 0.94:
        call = {'meta': [rtopic(r)]}
      else:
        call = {'other': r.choice(['Get', 'put', ''])}
      op = {'op': 'send', 'k': nsend, 'call': call, 'conn': r.randrange(nconn)}
      if sends and r.random() < 0.1:            # the same message object dispatched again (a retry)
        prev = r.choice(sends)
        op['call'] = prev['call']
        op['same_as'] = prev['k']
        op['conn'] = prev['conn']
      sends.append(op)
      if scripted:
        tk = r.random()
        if tags_used and tk < 0.15:
          op['tag'] = r.choice(tags_used)        # a tag that may still be outstanding (overwrites, like the dict)
        elif tk < 0.2:
          op['tag'] = r.choice(X32)
        else:
          op['tag'] = r32(r)
        tags_used.append(op['tag'])
      nsend += 1
      ops.append(op)
    else:
      tk = r.random()
      op = {'op': 'reply'}
      if tk < 0.7:
        op['to'] = r.randrange(nsend)             # echo the correlation id found in that request frame
      elif tk < 0.9:
        op['corr'] = r.choice([0, 1, 2, 3, 4, 5, -1, 2 ** 31 - 1, -2 ** 31, r32(r)])
        op['conn'] = r.randrange(nconn)
      else:
        op['short'] = bytes(r.randrange(256) for _ in range(r.randrange(0, 4))).hex()
      bk = r.random()
      if bk < 0.45:
        op['presp'] = gen_presp(r)
      elif bk < 0.8:
        b, t = gen_mresp(r)
        op['mresp'] = [b, t]
      else:
        op['raw'] = bytes(r.randrange(256) for _ in range(r.randrange(0, 30))).hex()
      if r.random() < 0.1:
        op['mut'] = gen_mut(r)
      ops.append(op)
  return {'kind': 'route', 'cid': r.choice(CIDS), 'pool': 'scripted' if scripted else 'real', 'conns': nconn, 'ops': ops}


def gen_sequence(r):
  """2..5 requests of varying size (long -> short, equal, growing, mixed with metadata requests) through ONE
  KafkaSerializerSink -> KafkaTransportSink instance, then replies: each frame handed to the send queue must be exactly
  that request (no bytes of an earlier request before, inside or after it)."""
  n = r.choice([2, 3, 4, 5])
  shape = r.choice(['shrink', 'shrink', 'equal', 'grow', 'mixed', 'mixed'])
  sizes = sorted(r.choice([0, 1, 5, 40, 200, 700, 1500]) for _ in range(n))
  if shape == 'shrink':
    sizes.reverse()
  elif shape == 'equal':
    sizes = [sizes[-1]] * n
  elif shape == 'mixed':
    r.shuffle(sizes)
  ops = []
  for k, sz in enumerate(sizes):
    if shape == 'mixed' and r.random() < 0.3:
      call = {'meta': []}
    else:
      npay = r.choice([0, 1, 1, 2, 3])
      pays = [rbytes_spec(r, sz // max(1, npay)) for _ in range(npay)]
      call = {'put': {'topic': rbytes_spec(r, r.choice([1, 3, 10, 60]) if npay else min(sz, 300)), 'partition': r32(r), 'acks': r16(r),
                      'payloads': pays}}
    ops.append({'op': 'send', 'k': k, 'call': call})
    if r.random() < 0.3:
      ops.append({'op': 'reply', 'to': r.randrange(k + 1), 'presp': gen_presp(r)})
  for k in r.sample(range(n), n):
    if r.random() < 0.6:
      ops.append({'op': 'reply', 'to': k, 'presp': gen_presp(r)})
  return {'kind': 'route', 'cid': r.choice(CIDS), 'pool': 'real', 'seq': shape, 'ops': ops}


def gen_transport(r):
  """ClientTimeoutSink -> KafkaSerializerSink -> KafkaTransportSink (real send/receive loops) on one or two connections
  against fake brokers that answer when told to, on a virtual clock: requests time out in flight, while still queued,
  exactly at / just around their deadline; new requests on the same connection; late replies; several replies in one
  segment; replies split at arbitrary byte boundaries; the broker answering before write() returns; callers that send
  again or raise from inside their callback; close + re-open."""
  nconn = r.choice([1, 1, 2])
  ops = []
  sent = []
  nsend = 0

  def put_call():
    call = {'put': {'topic': rbytes_spec(r, r.choice([0, 1, 3, 8])), 'partition': r.choice([0, 1, 3, r32(r)]), 'acks': r.choice([1, 0, -1]),
                    'payloads': [rbytes_spec(r, r.choice([0, 1, 10, 40])) for _ in range(r.choice([0, 1, 1, 2]))]}}
    if r.random() < 0.04:
      call['put']['acks'] = 2 ** 15
    return call
  timeouts = [None, 0.05, 0.1, 0.1, 0.5, 0.5, 5, 5, -1, 0]
  for _ in range(r.choice([3, 5, 7, 9, 12])):
    k = r.random()
    if k < 0.4 or nsend == 0:
      op = {'op': 'send', 'k': nsend, 'conn': r.randrange(nconn), 'call': put_call(), 'timeout': r.choice(timeouts)}
      if r.random() < 0.05:
        op['deadline0'] = True
      if r.random() < 0.15:
        op['nosettle'] = True
      if r.random() < 0.12:
        op['autoreply'] = True
      if r.random() < 0.15:
        op['raises'] = r.choice(['Exception', 'Timeout'])
      sent.append(nsend)
      if r.random() < 0.2:
        op['then'] = {'k': 100 + nsend, 'call': put_call(), 'timeout': r.choice(timeouts)}
        if r.random() < 0.2:
          op['then']['raises'] = 'Exception'
        sent.append(100 + nsend)
      nsend += 1
      ops.append(op)
    elif k < 0.65:
      ops.append({'op': 'advance', 'dt': r.choice([0, 0.01, 0.05, 0.06, 0.1, 0.2, 0.4, 0.5, 1, 5, 10])})
    elif k < 0.97 or nsend < 2:
      op = {'op': 'reply', 'to': r.choice(sent) if (r.random() < 0.6 or len(sent) < 2) else r.sample(sent, min(len(sent), r.choice([2, 2, 3, 4])))}
      if r.random() < 0.25:
        op['split'] = r.choice([1, 1, 2, 3, 5, 7, 30])
        if r.random() < 0.5:
          op['slow'] = True
      ops.append(op)
    else:
      ops.append({'op': 'reopen', 'conn': r.randrange(nconn)})
  rest = [k for k in r.sample(sent, len(sent)) if r.random() < 0.6]
  if len(rest) >= 2 and r.random() < 0.5:
    ops.append({'op': 'reply', 'to': rest, 'split': r.choice([None, None, 1, 4])})
  else:
    ops.extend({'op': 'reply', 'to': k} for k in rest)
  return {'kind': 'transport', 'cid': r.choice(CIDS[:9]), 'conns': nconn, 'tie': r.choice(['fifo', 'fifo', 'lifo']), 'ops': ops}


def gen_cases(tier, seed):
  q = tier == 'quick'
  out = []
  # ---- deterministic edge grid --------------------------------------------------------------------
  base = {'kind': 'produce', 'topic': hx(b'test_topic'), 'partition': 1, 'acks': 1, 'payloads': [hx(b'message_data')],
          'tag': 2, 'cid': None, 'form': 'args'}
  out.append(dict(base))
  for a in E16 + X16:
    out.append(dict(base, acks=a))
  for p in E32 + X32:
    out.append(dict(base, partition=p))
  for t in E32 + X32:
    out.append(dict(base, tag=t))
  for n in [0, 1, 255, 256, 300, 32768]:
    out.append(dict(base, topic={'rep': 0x74, 'n': n}))
  out.append(dict(base, topic={'rep': 0x74, 'n': 32767}, payloads=[]))
  if not q:
    out.append(dict(base, topic={'rnd': 5, 'n': 32767}))
  for ps in [[], [hx(b'')], [hx(b''), hx(b'')], [hx(b'\x00')], [hx(b'a'), hx(b''), hx(b'bc')],
             [{'rep': 255, 'n': 2048}], [{'rnd': 3, 'n': 2048}, {'rnd': 4, 'n': 2047}]]:
    out.append(dict(base, payloads=ps))
  out.append(dict(base, payloads='default', acks='default'))
  out.append(dict(base, acks='default', form='kwargs'))
  for cid in ['', 'é', 'x' * 300, 'é' * 150] + ([] if q else ['x' * 32767, 'x' * 32768, 'x' + 'é' * 16383, 'é' * 16384]):
    out.append(dict(base, cid=cid))
  for cid in ['x' + 'é' * 16383, 'é' * 16384] + ([] if q else ['x' * 32767, 'x' * 32768]):   # 32767 / 32768 bytes
    out.append({'kind': 'header', 'tag': 5, 'mtype': 0, 'dlen': 38, 'cid': cid})
  # 50 payloads of mixed sizes (0..2 KiB); full-size lists (50 x 2 KiB) inside Coq in the thorough tier;
  # larger ones for the Python parser only
  out.append(dict(base, payloads=[{'rnd': 40 + j, 'n': 2048 if j == 7 else 2047 if j == 23 else [0, 1, 2, 13, 100, 300, 5, 64, 256, 31][j % 10]}
                                  for j in range(50)], tag=6))
  for i in range(0 if q else 8):
    out.append(dict(base, payloads=[{'rnd': 100 + 50 * i + j, 'n': 2048} for j in range(50)], tag=7 + i))
  for i in range(2 if q else 12):
    out.append(dict(base, payloads=[{'rnd': 900 + 50 * i + j, 'n': [65536, 5000, 20000, 65535, 1][(i + j) % 5]}
                                    for j in range([3, 50, 10, 25][i % 4])], tag=70 + i, topic={'rnd': i, 'n': 17}))
  out.append(dict(base, payloads=[{'rep': 0, 'n': 4 * 1024 * 1024}]))
  # header writer
  for t in E32 + X32:
    out.append({'kind': 'header', 'tag': t, 'mtype': 0, 'dlen': 38, 'cid': None})
  for m in E16 + X16:
    out.append({'kind': 'header', 'tag': 5, 'mtype': m, 'dlen': 0, 'cid': None})
  for d in [0, 1, 2 ** 31 - 1 - 16, 2 ** 31 - 16, -16, -17, -2 ** 31 - 16, -2 ** 31 - 17, 2 ** 32]:
    out.append({'kind': 'header', 'tag': 5, 'mtype': 3, 'dlen': d, 'cid': None})
  # metadata requests
  out.append({'kind': 'metareq', 'topics': [], 'tag': 2, 'cid': None, 'method': '__metadata'})
  out.append({'kind': 'metareq', 'topics': [hx(b'loghog')], 'tag': 2, 'cid': None, 'method': '__metadata'})
  out.append({'kind': 'metareq', 'topics': [], 'tag': 3, 'cid': None, 'method': 'Get'})
  # crc
  for a, b in [(b'', b''), (b'123456789', b''), (b'', b'123456789'), (b'1234', b'56789'), (b'\x00', b'\x00'), (b'\xff' * 4, b'\xff')]:
    out.append({'kind': 'crc', 'a': hx(a), 'b': hx(b)})
  # responses: the repository's own vectors and edge grids
  out.append({'kind': 'presp', 'resp': [[hx(b'loghog'), [[0, 0, 939955]]]], 'corr': 2, 'mtype': 0, 'mut': None})
  out.append({'kind': 'presp', 'resp': [], 'corr': 2, 'mtype': 0, 'mut': None})
  for e in E16:
    out.append({'kind': 'presp', 'resp': [[hx(b't'), [[e, e, e]]]], 'corr': e, 'mtype': 0, 'mut': None})
  for o in E64:
    out.append({'kind': 'presp', 'resp': [[hx(b''), [[1, 0, o], [2, -1, -o - 1]]], [hx(b'u'), []]], 'corr': -1, 'mtype': 0, 'mut': None})
  for n in [300] if q else [300, 32767]:
    out.append({'kind': 'presp', 'resp': [[{'rnd': 1, 'n': n}, [[0, 0, 0]]]], 'corr': 9, 'mtype': 0, 'mut': None})
  for mt in [1, 2, -1, 4]:
    out.append({'kind': 'presp', 'resp': [[hx(b't'), [[0, 0, 1]]]], 'corr': 1, 'mtype': mt, 'mut': None})
  for raw in ['', '00', '000000', '00000000', 'ffffffff', '7fffffff', '00000001', '00000001ffff', '00000001ffff00000000',
              '000000010001', '0000000100017400000001', '00000001000174ffffffff', '000000010001747fffffff', '80000000']:
    out.append({'kind': 'presp', 'resp': [], 'corr': 1, 'mtype': 0, 'mut': ['random', raw]})
    out.append({'kind': 'mresp', 'brokers': [], 'topics': [], 'corr': 1, 'mtype': 3, 'mut': ['random', raw]})
  for corr_short in ['', '01', '010203']:
    out.append({'kind': 'presp', 'resp': [], 'corr': None, 'corr_hex': corr_short, 'mtype': 0, 'mut': ['random', '']})
  out.append({'kind': 'mresp', 'corr': 2, 'mtype': 3, 'mut': None,
              'brokers': [[1, hx(b'ec2-54-81-106-88.compute-1.amazonaws.com'), 15939], [0, hx(b'ec2-54-159-110-192.compute-1.amazonaws.com'), 15063]],
              'topics': [[0, hx(b'loghog'), [[9, 0, 1, [1, 0], [0, 1]]]]]})
  out.append({'kind': 'mresp', 'corr': 2, 'mtype': 3, 'mut': None, 'brokers': [], 'topics': []})
  out.append({'kind': 'mresp', 'corr': 2, 'mtype': 3, 'mut': None, 'brokers': [[1, hx(b'a'), 1], [1, hx(b'b'), 2], [2, hx(b'c'), 3], [1, hx(b'd'), 4]],
              'topics': [[0, hx(b't'), [[0, 1, 1, [], []], [0, 2, 1, [1], [2]], [5, 1, 2, [7, 8], []]]], [3, hx(b'u'), []], [-1, hx(b't'), [[0, 9, 9, [9], [9]]]]]})
  for raw in ['00000000' + '00000001' + '0000' + 'ffff' + '6162', '00000001' + '00000001' + 'ffff' + '6162',
              '00000000' + '00000001' + '0000' + '0001' + '74' + '00000001' + '0000' + '00000000' + '00000001' + 'ffffffff',
              '00000000' + '00000001' + '0000' + '0001' + '74' + '00000001' + '0000' + '00000000' + '00000001' + '00000001' + '000000',
              '00000000' + '00000001' + '0000' + '0001' + '74' + '00000001' + '0000' + '00000000' + '00000001' + '7fffffff',
              'ffffffff' + 'fffffffe', '80000000' + '80000000' + '99']:
    out.append({'kind': 'mresp', 'brokers': [], 'topics': [], 'corr': 1, 'mtype': 3, 'mut': ['random', raw]})
  # routing
  out.append({'kind': 'route', 'cid': None, 'pool': 'real', 'ops': [
      {'op': 'send', 'k': 0, 'call': {'put': {'topic': hx(b'a'), 'partition': 0, 'acks': 1, 'payloads': [hx(b'x')]}}},
      {'op': 'send', 'k': 1, 'call': {'meta': []}},
      {'op': 'send', 'k': 2, 'call': {'put': {'topic': hx(b'b'), 'partition': 1, 'acks': 1, 'payloads': []}}},
      {'op': 'reply', 'to': 2, 'presp': [[hx(b'b'), [[1, 0, 10]]]]},
      {'op': 'reply', 'to': 0, 'presp': [[hx(b'a'), [[0, 0, 11]]]]},
      {'op': 'reply', 'to': 0, 'presp': [[hx(b'a'), [[0, 0, 12]]]]},
      {'op': 'reply', 'corr': 99, 'presp': []},
      {'op': 'reply', 'to': 1, 'mresp': [[[0, hx(b'h'), 1]], []]},
      {'op': 'reply', 'short': '0000'},
      {'op': 'send', 'k': 3, 'call': {'other': 'Get'}},
      {'op': 'send', 'k': 4, 'call': {'meta': [hx(b't')]}},
      {'op': 'send', 'k': 5, 'call': {'put': {'topic': hx(b'c'), 'partition': 2 ** 31, 'acks': 1, 'payloads': []}}},
      {'op': 'send', 'k': 6, 'call': {'put': {'topic': hx(b'c'), 'partition': 0, 'acks': 1, 'payloads': []}}},
      {'op': 'reply', 'to': 6, 'raw': '0001'},
  ]})
  out.append({'kind': 'route', 'cid': None, 'pool': 'real', 'seq': 'shrink', 'ops': [
      {'op': 'send', 'k': 0, 'call': {'put': {'topic': hx(b'long'), 'partition': 0, 'acks': 1, 'payloads': [{'rnd': 1, 'n': 900}, {'rnd': 2, 'n': 300}]}}},
      {'op': 'send', 'k': 1, 'call': {'put': {'topic': hx(b's'), 'partition': 0, 'acks': 1, 'payloads': [hx(b'x')]}}},
      {'op': 'send', 'k': 2, 'call': {'meta': []}},
      {'op': 'send', 'k': 3, 'call': {'put': {'topic': hx(b's'), 'partition': 0, 'acks': 1, 'payloads': [hx(b'x')]}}},
      {'op': 'send', 'k': 4, 'call': {'put': {'topic': hx(b'grow'), 'partition': 0, 'acks': 1, 'payloads': [{'rnd': 3, 'n': 64}]}}},
      {'op': 'reply', 'to': 1, 'presp': [[hx(b's'), [[0, 0, 5]]]]},
      {'op': 'reply', 'to': 0, 'presp': [[hx(b'long'), [[0, 0, 6]]]]},
  ]})
  for late_first in (True, False):
    out.append({'kind': 'transport', 'cid': None, 'ops': [
        {'op': 'send', 'k': 0, 'timeout': 5, 'call': {'put': {'topic': hx(b'warm'), 'partition': 3, 'acks': 1, 'payloads': [hx(b'x')]}}},
        {'op': 'reply', 'to': 0},
        {'op': 'send', 'k': 1, 'timeout': 0.1, 'call': {'put': {'topic': hx(b'slow'), 'partition': 3, 'acks': 1, 'payloads': [hx(b'payload-one')]}}},
        {'op': 'advance', 'dt': 0.3},
        {'op': 'send', 'k': 2, 'timeout': 5, 'call': {'put': {'topic': hx(b'fast'), 'partition': 3, 'acks': 1, 'payloads': [hx(b'payload-two')]}}},
        {'op': 'reply', 'to': 1 if late_first else 2},
        {'op': 'reply', 'to': 2 if late_first else 1},
        {'op': 'send', 'k': 3, 'timeout': 0.1, 'nosettle': True, 'call': {'put': {'topic': hx(b'unsent'), 'partition': 0, 'acks': 1, 'payloads': []}}},
        {'op': 'advance', 'dt': 0.2},
        {'op': 'send', 'k': 4, 'timeout': -1, 'call': {'put': {'topic': hx(b'past'), 'partition': 0, 'acks': 1, 'payloads': []}}},
        {'op': 'send', 'k': 5, 'timeout': None, 'call': {'put': {'topic': hx(b'nodl'), 'partition': 0, 'acks': 1, 'payloads': []}}},
        {'op': 'advance', 'dt': 100},
        {'op': 'reply', 'to': 5},
        {'op': 'reply', 'to': 3},
    ]})
  put1 = lambda t, part=0, pays=(): {'put': {'topic': hx(t), 'partition': part, 'acks': 1, 'payloads': [hx(x) for x in pays]}}
  for tie in ('fifo', 'lifo'):
    out.append({'kind': 'transport', 'cid': None, 'conns': 2, 'tie': tie, 'ops': [
        # two connections, same tags on both; equal deadlines (fired in both orders); a deadline hit exactly
        {'op': 'send', 'k': 0, 'conn': 0, 'timeout': 0.5, 'call': put1(b'a0')},
        {'op': 'send', 'k': 1, 'conn': 1, 'timeout': 0.5, 'call': put1(b'b1', 1)},
        {'op': 'send', 'k': 2, 'conn': 0, 'timeout': 0.5, 'call': put1(b'a2', 2, [b'x']), 'raises': 'Exception',
         'then': {'k': 102, 'call': put1(b'a102', 3), 'timeout': 0}},
        {'op': 'send', 'k': 3, 'conn': 1, 'timeout': 5, 'call': put1(b'b3', 4), 'autoreply': True,
         'then': {'k': 103, 'call': put1(b'b103', 5), 'timeout': 5, 'raises': 'Timeout'}},
        {'op': 'advance', 'dt': 0.25},
        {'op': 'reply', 'to': [1], 'split': 1},
        {'op': 'advance', 'dt': 0.25},          # now == deadline of 0 and 2 (1 already answered)
        {'op': 'advance', 'dt': 0},             # the follow-up of 2 was issued with timeout 0
        {'op': 'reply', 'to': [0, 103, 2, 102], 'split': 3, 'slow': True},
        {'op': 'send', 'k': 4, 'conn': 0, 'deadline0': True, 'timeout': None, 'call': put1(b'', 0, [b''])},
        {'op': 'reopen', 'conn': 0},
        {'op': 'send', 'k': 5, 'conn': 0, 'timeout': 1, 'call': put1(b'a5')},
        {'op': 'send', 'k': 6, 'conn': 1, 'timeout': 1, 'call': put1(b'b6')},
        {'op': 'reply', 'to': [4, 6, 5]},
    ]})
  for order in ([0, 1], [1, 0], [2, 0, 1]):
    out.append({'kind': 'transport', 'cid': None, 'ops': [
        {'op': 'send', 'k': 0, 'timeout': 5, 'call': {'put': {'topic': hx(b'first'), 'partition': 0, 'acks': 1, 'payloads': [hx(b'a')]}}},
        {'op': 'send', 'k': 1, 'timeout': None, 'call': {'put': {'topic': hx(b'second'), 'partition': 1, 'acks': 1, 'payloads': []}}},
        {'op': 'send', 'k': 2, 'timeout': 0.1, 'call': {'put': {'topic': hx(b'third'), 'partition': 2, 'acks': 1, 'payloads': [hx(b'c')]}}},
        {'op': 'advance', 'dt': 0.2},
        {'op': 'reply', 'to': order},
        {'op': 'reply', 'to': [k for k in (0, 1, 2) if k not in order]},
    ]})
  out.append({'kind': 'route', 'cid': None, 'pool': 'scripted', 'ops': [
      {'op': 'send', 'k': 0, 'tag': -2 ** 31, 'call': {'meta': []}},
      {'op': 'send', 'k': 1, 'tag': 2 ** 31 - 1, 'call': {'meta': []}},
      {'op': 'send', 'k': 2, 'tag': 2 ** 31, 'call': {'meta': []}},
      {'op': 'send', 'k': 3, 'tag': -1, 'call': {'meta': []}},
      {'op': 'send', 'k': 4, 'tag': -1, 'call': {'put': {'topic': hx(b'c'), 'partition': 0, 'acks': 1, 'payloads': []}}},
      {'op': 'reply', 'corr': -1, 'presp': [[hx(b'c'), [[0, 0, 1]]]]},
      {'op': 'reply', 'corr': -1, 'presp': [[hx(b'c'), [[0, 0, 1]]]]},
      {'op': 'reply', 'corr': 2 ** 31 - 1, 'mresp': [[], []]},
      {'op': 'reply', 'corr': -2 ** 31, 'presp': []},
      {'op': 'reply', 'corr': 0, 'presp': []},
  ]})

  # ---- random stream --------------------------------------------------------------------------------
  n = 1150 if q else 9000
  for i in range(n):
    r = C.case_rng(seed, PID, i)
    k = r.random()
    if k < 0.34:
      budget = 700
      if i % 60 == 3:
        budget = 6000 if q else 24000
      out.append(gen_produce(r, budget))
    elif k < 0.42:
      out.append({'kind': 'header', 'tag': r32(r, 0.1), 'mtype': r16(r, 0.1), 'dlen': r.choice([0, 1, 38, r.randrange(0, 2 ** 31), r32(r, 0.2)]),
                  'cid': r.choice(CIDS)})
    elif k < 0.50:
      out.append({'kind': 'parse', 'base': gen_produce(r, 200), 'mut': gen_mut(r)})
    elif k < 0.58:
      out.append({'kind': 'parse', 'gen': _j(gen_generic_request(r)), 'mut': gen_mut(r) if r.random() < 0.2 else None})
    elif k < 0.61:
      out.append({'kind': 'crc', 'a': rbytes_spec(r, r.choice([0, 1, 4, 10, 100, r.randrange(0, 1500)])),
                  'b': rbytes_spec(r, r.choice([0, 1, 4, 10, 100, r.randrange(0, 1500)]))})
    elif k < 0.74:
      out.append({'kind': 'presp', 'resp': gen_presp(r), 'corr': r32(r), 'mtype': r.choice([0] * 12 + [3, 1]),
                  'mut': gen_mut(r) if r.random() < 0.3 else None})
    elif k < 0.88:
      b, t = gen_mresp(r)
      out.append({'kind': 'mresp', 'brokers': b, 'topics': t, 'corr': r32(r), 'mtype': r.choice([3] * 12 + [0, 7]),
                  'mut': gen_mut(r) if r.random() < 0.3 else None})
    elif k < 0.93:
      out.append(gen_route(r))
    elif k < 0.96:
      out.append(gen_sequence(r))
    else:
      out.append(gen_transport(r))
  for i in range(150 if q else 1500):          # transport histories are cheap (small literals): a separate, denser stream
    out.append(gen_transport(C.case_rng(seed, PID + '-transport', i)))
  return _spread(out)


def _weight(c):
  """Rough size of the Coq literal of a case (bytes that have to be spelled out)."""
  def n(spec):
    return spec.get('n', len(spec.get('hex', '')) // 2)
  w = len(c.get('cid') or '')
  b = c.get('base', c)
  if b.get('kind') == 'produce':
    w += n(b['topic']) + (0 if b['payloads'] == 'default' else sum(n(p) for p in b['payloads']))
  return w


def _py_only(c):
  b = c.get('base', c)
  if b.get('kind') != 'produce' or b['payloads'] == 'default':
    return False
  return len(b['payloads']) > 50 or any(p.get('n', len(p.get('hex', '')) // 2) > 2048 for p in b['payloads'])


def _spread(cases):
  """Light cases first; one heavy case at the end of each shard-sized chunk (the shards are compiled in parallel);
  the cases that are too large for Coq (Python parser only) at the very end."""
  last = [c for c in cases if _py_only(c)]
  lid = set(id(c) for c in last)
  heavy = sorted([c for c in cases if id(c) not in lid and _weight(c) > 4000], key=_weight, reverse=True)
  hid = set(id(c) for c in heavy)
  light = [c for c in cases if id(c) not in hid and id(c) not in lid]
  out = []
  per = max(1, SHARD - 1)
  while heavy or light:
    out.extend(light[:per])
    light = light[per:]
    if heavy:
      out.append(heavy.pop(0))
  return out + last


def search_cases(tier, seed, diverging):
  """Adversarial stream used only when proof/correspondence broke: dense produce/route/response inputs."""
  out = []
  for i in range(3000):
    r = C.case_rng(seed + 7919, PID, i)
    k = i % 4
    if k == 0:
      out.append(gen_produce(r, 300))
    elif k == 1:
      out.append(gen_route(r))
    elif k == 2:
      out.append({'kind': 'presp', 'resp': gen_presp(r), 'corr': r32(r), 'mtype': 0, 'mut': None})
    else:
      b, t = gen_mresp(r)
      out.append({'kind': 'mresp', 'brokers': b, 'topics': t, 'corr': r32(r), 'mtype': 3, 'mut': None})
  return out


# ---------------------------------------------------------------------------------------------
# implementation driver
# ---------------------------------------------------------------------------------------------
class _FakeSocket(object):
  host = 'broker.test'
  port = 9092

  def close(self):
    pass


class _CaptureQueue(object):
  def __init__(self):
    self.items = []

  def put(self, x):
    self.items.append(x)


class _ScriptedPool(object):
  def __init__(self):
    self.next = []

  def get(self):
    return self.next.pop(0)

  def release(self, tag):
    pass


def _mk_sink(cid):
  sink = _S['KafkaTransportSink'](_FakeSocket(), 'c15')
  sink._Init()
  sink._state = _S['ChannelState'].Open
  sink._send_queue = _CaptureQueue()
  if cid is not None:
    sink.CLIENT_ID = cid
  return sink


def _put_msg(topic, payloads, acks, partition, form='args'):
  args = [topic]
  kwargs = {}
  if payloads != 'default':
    if form == 'kwargs':
      kwargs['payloads'] = payloads
    else:
      args.append(payloads)
  if acks != 'default':
    if form in ('kwargs', 'mixed') or payloads == 'default':
      kwargs['acks'] = acks
    else:
      args.append(acks)
  msg = _S['MethodCallMessage'](None, 'Put', tuple(args), kwargs)
  msg.properties[_S['MessageProperties'].Endpoint] = _S['KafkaEndpoint']('host', 9092, partition)
  return msg


def _put_inputs(c):
  topic = expand(c['topic'])
  payloads = 'default' if c['payloads'] == 'default' else [expand(p) for p in c['payloads']]
  return topic, payloads, c['acks']


def _serialize_and_frame(msg, tag, cid):
  proto = _S['KafkaProtocol']()
  buf = io.BytesIO()
  headers = {}
  try:
    mt = proto.SerializeMessage(msg, buf, headers)
  except Exception as e:
    return {'body_exc': type(e).__name__}
  obs = {'mtype': mt, 'hmtype': headers.get(_S['TransportHeaders'].MessageType), 'body': buf.getvalue().hex(), 'tell': buf.tell()}
  sink = _mk_sink(cid)
  try:
    hdr = sink._BuildHeader(tag, headers[_S['TransportHeaders'].MessageType], buf.tell())
    obs['header'] = bytes(hdr).hex()
  except Exception as e:
    obs['header_exc'] = type(e).__name__
  return obs


def _canon_value(v):
  """JSON form of a decoded return value."""
  if v is None:
    return {'none': True}
  if isinstance(v, list):
    return {'produce': [[bytes(x.topic).hex(), x.partition, x.error, x.offset] for x in v]}
  brokers = [[k, [b.nodeId, bytes(b.host).hex(), b.port]] for k, b in v.brokers.items()]
  topics = [[bytes(name).hex(), [[pid, [bytes(pm.topic_name).hex(), pm.partition_id, pm.leader, list(pm.replicas), list(pm.isr)]]
                                 for pid, pm in parts.items()]] for name, parts in v.topics.items()]
  return {'metadata': [brokers, topics]}


def _resp_bytes(c):
  if c.get('kind') == 'presp' or 'presp' in c:
    resp = c['resp'] if c.get('kind') == 'presp' else c['presp']
    return py_enc_produce_response([(expand(t), parts) for t, parts in resp])
  if c.get('kind') == 'mresp':
    b, t = c['brokers'], c['topics']
  else:
    b, t = c['mresp']
  return py_enc_metadata_response([(nid, expand(h), port) for nid, h, port in b],
                                  [(te, expand(nm), parts) for te, nm, parts in t])


def _corr_bytes(c):
  if c.get('corr') is None:
    return bytes.fromhex(c.get('corr_hex', ''))
  return i32s(c['corr'])


def _run_route(case):
  S = _S
  deliveries = []

  class Terminal(S['ClientMessageSink']):
    def AsyncProcessRequest(self, sink_stack, msg, stream, headers):
      raise NotImplementedError()

    def AsyncProcessResponse(self, sink_stack, context, stream, msg):
      deliveries.append((context, stream, msg))

  # one KafkaSerializerSink -> KafkaTransportSink pair per connection, each built by its own constructor and used for
  # the whole history (as in a real client); with two connections nothing may leak from one instance to the other
  nconn = case.get('conns', 1)
  sinks, pools, sers = [], [], []
  for _c in range(nconn):
    snk = _mk_sink(case.get('cid'))
    pl = None
    if case['pool'] == 'scripted':
      pl = _ScriptedPool()
      snk._tag_pool = pl

    class _Provider(object):          # what SinkProvider hands to the serializer sink: CreateSink -> the transport sink
      def __init__(self, x):
        self.x = x

      def CreateSink(self, properties):
        return self.x
    sinks.append(snk)
    pools.append(pl)
    sers.append(S['KafkaSerializerSink'](_Provider(snk), None, {'label': 'c15'}))
  msgs = {}
  conn_of = {}
  term = Terminal()
  frames = {}          # k -> frame bytes put on the send queue
  out = []
  for op in case['ops']:
    cn = op.get('conn', 0)
    if op['op'] == 'reply' and 'to' in op:
      cn = conn_of.get(op['to'], cn)      # the broker answers on the connection the request came in on
    cn = min(cn, nconn - 1)
    if op['op'] == 'send':
      conn_of[op['k']] = cn
    sink, pool, ser = sinks[cn], pools[cn], sers[cn]
    nq = len(sink._send_queue.items)
    nd = len(deliveries)
    if op['op'] == 'send':
      call = op['call']
      if 'put' in call:
        p = call['put']
        msg = _put_msg(expand(p['topic']), [expand(x) for x in p['payloads']], p['acks'], p['partition'])
      elif 'meta' in call:
        msg = S['MethodCallMessage'](None, '__metadata', [expand(t) for t in call['meta']], {})
      else:
        msg = S['MethodCallMessage'](None, call['other'], [], {})
      if op.get('same_as') is not None and op['same_as'] in msgs:
        msg = msgs[op['same_as']]       # the very same message object is dispatched again (as KafkaRouterSink does on a retry)
      msgs[op['k']] = msg
      stack = S['ClientMessageSinkStack']()
      stack.Push(term, op['k'])
      if pool is not None:
        pool.next = [op.get('tag', 0)]
      o = {}
      try:
        ser.AsyncProcessRequest(stack, msg, None, {})
      except Exception as e:
        o = {'o': 'send_raise', 'exc': type(e).__name__}
      new_q = sink._send_queue.items[nq:]
      new_d = deliveries[nd:]
      if o:
        pass
      elif len(new_q) == 1 and not new_d:
        frames[op['k']] = bytes(new_q[0][0])
        o = {'o': 'sent', 'frame': frames[op['k']].hex(), 'tag': msg.properties.get('__Tag')}
      elif len(new_d) == 1 and not new_q and new_d[0][2] is not None and new_d[0][2].error is not None:
        o = {'o': 'ser_error', 'k': new_d[0][0], 'err': type(new_d[0][2].error).__name__}
      else:
        o = {'o': 'anomaly', 'queued': len(new_q), 'delivered': len(new_d)}
      if o.get('o') == 'send_raise':
        o['tag'] = msg.properties.get('__Tag')
        o['queued'] = len(new_q)
        o['delivered'] = len(new_d)
      o['conn'] = cn
      out.append(o)
    else:
      if 'short' in op:
        data = bytes.fromhex(op['short'])
      else:
        if 'to' in op:
          f = frames.get(op['to'])
          corr = f[8:12] if f is not None and len(f) >= 12 else i32s(0x0BADC0DE)
        else:
          corr = i32s(op['corr'])
        if 'raw' in op:
          body = bytes.fromhex(op['raw'])
        else:
          body = _resp_bytes(op)
        body = apply_mut(body, op.get('mut'))
        data = corr + body
      o = {'data': data.hex()}
      try:
        sink._ProcessReply(io.BytesIO(data))
      except Exception as e:
        o['exc'] = type(e).__name__
      new_q = sink._send_queue.items[nq:]
      new_d = deliveries[nd:]
      if new_q or len(new_d) > 1:
        o['o'] = 'anomaly'
        o['queued'] = len(new_q)
        o['delivered'] = len(new_d)
      elif 'exc' in o:
        o['o'] = 'reply_raise' if not new_d else 'anomaly'
      elif not new_d:
        o['o'] = 'drop'
      else:
        k, stream, m = new_d[0]
        o['o'] = 'deliver'
        o['k'] = k
        if m is None:
          o['value'] = {'none': True}
        elif m.error is not None:
          o['err'] = type(m.error).__name__
        else:
          o['value'] = _canon_value(m.return_value)
      o['conn'] = cn
      out.append(o)
  return {'ops': out}


def _broker_reply(frame, k):
  """What the fake broker answers to request frame k: the correlation id it found, one topic/partition, offset 1000+k."""
  d = py_parse_request(frame)
  topic, parts = d['topics'][0]
  body = py_enc_produce_response([(topic, [(parts[0][0], 0, 1000 + k)])])
  return struct.pack('!i', d['corr']) + body


def _run_transport(case):
  """ClientTimeoutSink -> KafkaSerializerSink -> KafkaTransportSink (real loops) x `conns` connections, fake brokers,
  virtual clock.  Returns an ordered event log per operation:
    ['s', conn, k, now]                 a caller issues request k
    ['q', conn, k, frame, tag]          frame put on the send queue
    ['w', conn, k|None, frame]          frame arrived at the broker (k: which queued request it is, bytewise)
    ['b', conn, k, data]                the broker emits its reply for request k
    ['p', conn, data]                   _ProcessReply starts on a received reply
    ['d', k, via, delivery, written]    caller k's terminal sink receives a result (via reply/timer/send/close)
    ['x', k, exc, by_callback]          AsyncProcessRequest raised
    ['tx', exc, by_callback]            a timer action raised
    ['life', conn]                      the connection was closed and re-opened
  """
  import gevent
  import gevent.queue
  import scales.sink as ssink
  import scales.mux.sink as msink
  from scales.message import Deadline
  S = _S
  nconn = case.get('conns', 1)
  clock = {'now': 1000.0, 'seq': 0}
  timers = []
  log = []
  ctx = ['top']
  cur = []
  state = {'cb_raised': 0}
  specs = {}
  for op in case['ops']:
    if op['op'] == 'send':
      specs[op['k']] = op
      if op.get('then'):
        specs[op['then']['k']] = dict(op['then'], conn=op.get('conn', 0))

  class FakeTimerQueue(object):
    def Schedule(self, deadline, action):
      clock['seq'] += 1
      ent = [deadline, clock['seq'], False, action]
      timers.append(ent)

      def cancel():
        ent[2] = True
        ent[3] = None
      return cancel

  class FakeTime(object):
    @staticmethod
    def time():
      return clock['now']

  class RecQueue(gevent.queue.Queue):
    conn = None

    def put(self, item, *a, **kw):
      k = cur[-1] if cur else None
      log.append(['q', self.conn, k, bytes(item[0]).hex(), item[1].get('__Tag')])
      if k is not None and self.conn is not None:
        socks[self.conn].frame_of[k] = bytes(item[0])
        socks[self.conn].order.append(k)
      return gevent.queue.Queue.put(self, item, *a, **kw)

  class BrokerSocket(object):
    host, port = 'fakebroker', 9092

    def __init__(self, conn):
      self.conn = conn
      self.closed = False
      self.reset()
      self.raw = b''
      self.framed = b''

    def reset(self):
      self.to_client = gevent.queue.Queue()
      self.rbuf = b''
      self.wbuf = b''
      self.order = []        # queued requests not yet seen on the wire
      self.frame_of = {}
      self.written = set()
      self.replied = set()
      self.sending = False
      self.deferred = []

    def open(self):
      pass

    def close(self):
      self.closed = True
      self.to_client.put(b'')

    def isOpen(self):
      return not self.closed

    def write(self, data):
      if self.closed:                      # like a real socket: nothing reaches the broker after close()
        raise OSError('socket is closed')
      self.raw += bytes(data)
      self.wbuf += bytes(data)
      while len(self.wbuf) >= 4:
        sz, = struct.unpack('!i', self.wbuf[:4])
        if sz < 0 or len(self.wbuf) < 4 + sz:
          break
        f, self.wbuf = self.wbuf[:4 + sz], self.wbuf[4 + sz:]
        self.framed += f
        hit = next((j for j, kk in enumerate(self.order) if self.frame_of[kk] == f), None)
        kk = None
        if hit is not None:
          kk = self.order[hit]
          del self.order[:hit + 1]
          self.written.add(kk)
        log.append(['w', self.conn, kk, f.hex()])
        if kk is not None and specs.get(kk, {}).get('autoreply'):
          d = self.reply_for(kk)           # the broker answers before write() returns
          if d is not None:
            if self.sending:               # ... but never in the middle of another reply it is still transmitting
              self.deferred.append(struct.pack('!i', len(d)) + d)
            else:
              self.to_client.put(struct.pack('!i', len(d)) + d)

    def reply_for(self, kk):
      f = self.frame_of.get(kk)
      if f is None or kk not in self.written or kk in self.replied:
        return None
      try:
        data = _broker_reply(f, kk)
      except (ParseError, IndexError, KeyError):
        return None
      self.replied.add(kk)
      log.append(['b', self.conn, kk, data.hex()])
      return data

    def read(self, sz):
      if not self.rbuf:
        self.rbuf = self.to_client.get()
      ret, self.rbuf = self.rbuf[:sz], self.rbuf[sz:]
      return ret

    def readAll(self, sz):
      buf = b''
      while len(buf) < sz:
        chunk = self.read(sz - len(buf))
        if not chunk:
          raise EOFError()
        buf += chunk
      return buf

  def canon_delivery(m):
    if m is None:
      return {'value': {'none': True}}
    if m.error is not None:
      return {'err': type(m.error).__name__}
    return {'value': _canon_value(m.return_value)}

  class CallbackError(Exception):
    pass

  class Terminal(S['ClientMessageSink']):
    def AsyncProcessRequest(self, sink_stack, msg, stream, headers):
      raise NotImplementedError()

    def AsyncProcessResponse(self, sink_stack, context, stream, msg):
      k = context
      sp = specs.get(k, {})
      sock = socks[min(sp.get('conn', 0), nconn - 1)]
      log.append(['d', k, ctx[-1], canon_delivery(msg), k in sock.written or k in written_before_life])
      then = sp.get('then')
      if then and k not in done_then:
        done_then.add(k)
        do_send(then['k'])                      # re-entrancy: the caller dispatches again from inside its callback
      if sp.get('raises'):
        state['cb_raised'] += 1
        if sp['raises'] == 'Timeout':
          raise gevent.Timeout(0.001)
        raise CallbackError('caller %r callback fails' % k)

  class Provider(object):
    def __init__(self, sink):
      self.sink = sink

    def CreateSink(self, properties):
      return self.sink

  def settle():
    # run every runnable greenlet until nothing has happened for several scheduling rounds
    quiet = total = 0
    while quiet < 8 and total < 400:
      n = len(log)
      gevent.sleep(0)
      total += 1
      quiet = quiet + 1 if len(log) == n else 0

  def do_send(k):
    sp = specs[k]
    c = min(sp.get('conn', 0), nconn - 1)
    p = sp['call']['put']
    msg = _put_msg(expand(p['topic']), [expand(x) for x in p['payloads']], p['acks'], p['partition'])
    if sp.get('deadline0'):
      msg.properties[Deadline.KEY] = 0
    elif sp.get('timeout') is not None:
      msg.properties[Deadline.KEY] = clock['now'] + sp['timeout']
    stack = S['ClientMessageSinkStack']()
    stack.Push(term, k)
    log.append(['s', c, k, clock['now']])
    cur.append(k)
    ctx.append('send')
    raised0 = state['cb_raised']
    try:
      tops[c].AsyncProcessRequest(stack, msg, None, {})
    except (Exception, gevent.Timeout) as e:
      log.append(['x', k, type(e).__name__, state['cb_raised'] > raised0])
    finally:
      ctx.pop()
      cur.pop()

  def open_conn(c):
    tr = transports[c]
    tr.Open().get()
    tr._send_queue.conn = c
    orig = type(tr)._ProcessReply

    def process_reply(stream, _tr=tr, _c=c):
      log.append(['p', _c, bytes(stream.getvalue()).hex()])
      ctx.append('reply')
      try:
        return orig(_tr, stream)
      finally:
        ctx.pop()
    tr._ProcessReply = process_reply

  hub = gevent.get_hub()
  saved = (ssink.GLOBAL_TIMER_QUEUE, ssink.time, msink.Queue)
  saved_stream = None
  try:
    saved_stream = hub.exception_stream
    hub.exception_stream = None                  # callbacks raise on purpose inside greenlets
  except Exception:
    saved_stream = None
  ssink.GLOBAL_TIMER_QUEUE = FakeTimerQueue()
  ssink.time = FakeTime
  msink.Queue = RecQueue
  socks, transports, tops = [], [], []
  done_then = set()
  written_before_life = set()
  term = None
  out = []
  try:
    term = Terminal()
    props = {'label': 'c15'}
    def make_conn(c):
      sock = BrokerSocket(c)
      tr = S['KafkaTransportSink'](sock, 'c15')
      if case.get('cid') is not None:
        tr.CLIENT_ID = case['cid']
      ser = S['KafkaSerializerSink'](Provider(tr), None, props)
      top = ssink.ClientTimeoutSink(Provider(ser), None, props)
      if c < len(socks):
        sock.raw, sock.framed = socks[c].raw, socks[c].framed     # wire accounting continues over the lives of a slot
        written_before_life.update(socks[c].written)
        socks[c], transports[c], tops[c] = sock, tr, top
      else:
        socks.append(sock)
        transports.append(tr)
        tops.append(top)
      open_conn(c)
    for c in range(nconn):
      make_conn(c)

    for op in case['ops']:
      n0 = len(log)
      if op['op'] == 'send':
        do_send(op['k'])
        if not op.get('nosettle'):
          settle()
      elif op['op'] == 'advance':
        clock['now'] += op['dt']
        sign = -1 if case.get('tie') == 'lifo' else 1
        while True:                  # also the timers scheduled by callbacks while firing or while settling
          due = sorted([t for t in timers if not t[2] and t[0] <= clock['now']], key=lambda t: (t[0], sign * t[1]))
          if not due:
            settle()
            if not [t for t in timers if not t[2] and t[0] <= clock['now']]:
              break
            continue
          t = due[0]
          t[2] = True
          cb, t[3] = t[3], None
          ctx.append('timer')
          raised0 = state['cb_raised']
          try:
            cb()
          except (Exception, gevent.Timeout) as e:
            log.append(['tx', type(e).__name__, state['cb_raised'] > raised0])
          finally:
            ctx.pop()
      elif op['op'] == 'reply':
        tos = op['to'] if isinstance(op['to'], list) else [op['to']]
        chunks = {}
        for kk in tos:
          c = min(specs.get(kk, {}).get('conn', 0), nconn - 1)
          d = socks[c].reply_for(kk)
          if d is not None:
            chunks[c] = chunks.get(c, b'') + struct.pack('!i', len(d)) + d
        for c, chunk in sorted(chunks.items()):
          n = op.get('split')
          pieces = [chunk[i:i + n] for i in range(0, len(chunk), n)] if n else [chunk]
          socks[c].sending = True
          try:
            for pc in pieces:
              socks[c].to_client.put(pc)
              if op.get('slow'):
                settle()
          finally:
            socks[c].sending = False
          for pc in socks[c].deferred:
            socks[c].to_client.put(pc)
          socks[c].deferred = []
        settle()
      elif op['op'] == 'reopen':
        c = min(op.get('conn', 0), nconn - 1)
        if True:
          ctx.append('close')
          raised0 = state['cb_raised']
          try:
            transports[c].Close()
          except (Exception, gevent.Timeout) as e:
            log.append(['cx', type(e).__name__, state['cb_raised'] > raised0])
          finally:
            ctx.pop()
          settle()
          log.append(['life', c])
          make_conn(c)              # a closed mux transport cannot be opened again: the pool builds a new sink stack
          settle()
      out.append({'now': clock['now'], 'log': log[n0:]})
    wire_ok = all(s_.raw == s_.framed + s_.wbuf for s_ in socks)
    return {'ops': out, 'wire_ok': wire_ok, 'unframed': ''.join(s_.wbuf.hex() for s_ in socks)}
  finally:
    for tr in transports:
      try:
        tr.Close()
      except (Exception, gevent.Timeout):
        pass
    try:
      settle()
    except (Exception, gevent.Timeout):
      pass
    ssink.GLOBAL_TIMER_QUEUE, ssink.time, msink.Queue = saved
    try:
      hub.exception_stream = saved_stream
    except Exception:
      pass


def run_impl(case):
  setup()
  k = case['kind']
  if k == 'produce':
    topic, payloads, acks = _put_inputs(case)
    msg = _put_msg(topic, payloads, acks, case['partition'], case.get('form', 'args'))
    return _serialize_and_frame(msg, case['tag'], case.get('cid'))
  if k == 'metareq':
    msg = _S['MethodCallMessage'](None, case['method'], [expand(t) for t in case['topics']], {})
    return _serialize_and_frame(msg, case['tag'], case.get('cid'))
  if k == 'header':
    sink = _mk_sink(case.get('cid'))
    try:
      return {'header': bytes(sink._BuildHeader(case['tag'], case['mtype'], case['dlen'])).hex()}
    except Exception as e:
      return {'exc': type(e).__name__}
  if k == 'parse':
    if 'base' in case:
      b = case['base']
      topic, payloads, acks = _put_inputs(b)
      o = _serialize_and_frame(_put_msg(topic, payloads, acks, b['partition'], b.get('form', 'args')), b['tag'], b.get('cid'))
      if 'header' not in o:
        return {'noframe': True}
      f = bytes.fromhex(o['header']) + bytes.fromhex(o['body'])
    else:
      f = py_enc_request(_unj(case['gen']))
    return {'frame': apply_mut(f, case.get('mut')).hex()}
  if k == 'crc':
    a, b = expand(case['a']), expand(case['b'])
    ca = zlib.crc32(a)
    return {'ca': ca, 'cab': zlib.crc32(b, ca)}
  if k in ('presp', 'mresp'):
    raw = apply_mut(_resp_bytes(case), case.get('mut'))
    data = _corr_bytes(case) + raw
    o = {'raw': raw.hex()}
    try:
      ret = _S['KafkaProtocol']().DeserializeMessage(io.BytesIO(data), case['mtype'])
    except Exception as e:
      o['exc'] = type(e).__name__
      return o
    if ret is None:
      o['value'] = {'none': True}
    elif ret.error is not None:
      o['exc'] = 'returned-error:' + type(ret.error).__name__
    else:
      o['value'] = _canon_value(ret.return_value)
    return o
  if k == 'route':
    return _run_route(case)
  if k == 'transport':
    return _run_transport(case)
  raise ValueError(k)


# ---------------------------------------------------------------------------------------------
# monitor
# ---------------------------------------------------------------------------------------------
def _in(x, rng):
  return isinstance(x, int) and rng[0] <= x <= rng[1]


def _cid_bytes(cid):
  try:
    return ('scales' if cid is None else cid).encode('utf-8')
  except UnicodeEncodeError:
    return None


def _put_admissible(topic, payloads, acks, partition):
  msl = sum(26 + len(p) for p in payloads)
  return (len(topic) <= 32767 and _in(acks, I16) and _in(partition, I32) and msl <= I32[1]
          and all(len(p) + 14 <= I32[1] for p in payloads)), 24 + len(topic) + msl


def _check_frame_put(v, frame, tag, cidb, topic, payloads, acks, partition, where=''):
  """The frame must be the v0 ProduceRequest for exactly these inputs."""
  try:
    d = py_parse_request(frame)
  except ParseError as e:
    v.append(('request-malformed', '%sproduce request rejected by the independent v0 parser: %s' % (where, e)))
    return
  if (d['api_key'], d['version']) != (0, 0):
    v.append(('request-header-fields', '%sapi key/version %r' % (where, (d['api_key'], d['version']))))
  if d['corr'] != tag:
    v.append(('request-correlation-id', '%scorrelation id %d in the header, request tag %d' % (where, d['corr'], tag)))
  if d['client'] != cidb:
    v.append(('request-client-id', '%sclient id %r, expected %r' % (where, d['client'], cidb)))
  if d.get('acks') != acks or d.get('timeout') != 1000:
    v.append(('request-acks-timeout', '%sacks/timeout %r, expected (%r, 1000)' % (where, (d.get('acks'), d.get('timeout')), acks)))
  ts = d.get('topics')
  if ts is None or len(ts) != 1 or ts[0][0] != topic or len(ts[0][1]) != 1 or ts[0][1][0][0] != partition:
    v.append(('request-topic-partition', '%snot exactly one topic/partition equal to the input: %r' %
              (where, [(t[:20], [p for p, _ in ps]) for t, ps in (ts or [])][:3])))
    return
  msgs = ts[0][1][0][1]
  want = [{'offset': 0, 'magic': 0, 'attrs': 0, 'key': None, 'value': p} for p in payloads]
  if msgs != want:
    bad = next((i for i, (a, b) in enumerate(zip(msgs, want)) if a != b), min(len(msgs), len(want)))
    v.append(('request-messages', '%smessage set differs from the payload list (%d messages for %d payloads, first difference at %d)' %
              (where, len(msgs), len(want), bad)))


def _expected_value(op_or_case):
  """Independent decoding of an un-mutated reference response: what the client must report."""
  c = op_or_case
  if c.get('kind') == 'presp' or 'presp' in c:
    resp = c['resp'] if c.get('kind') == 'presp' else c['presp']
    return {'produce': [[expand(t).hex(), p, e, o] for t, parts in resp for p, e, o in parts]}
  if c.get('kind') == 'mresp':
    b, t = c['brokers'], c['topics']
  else:
    b, t = c['mresp']
  brokers = {}
  for nid, h, port in b:
    brokers[nid] = [nid, expand(h).hex(), port]
  topics = {}
  for te, nm, parts in t:
    name = expand(nm).hex()
    d = {}
    for perr, pid, leader, reps, isr in parts:
      d[pid] = [name, pid, leader, list(reps), list(isr)]
    topics[name] = d
  return {'metadata': [brokers, topics]}


def _value_matches(got, want):
  if got is None or set(got) != set(want):
    return False
  if 'produce' in want:
    return got['produce'] == want['produce']
  gb, gt = got['metadata']
  wb, wt = want['metadata']
  gbd = {k: b for k, b in gb}
  gtd = {n: {pid: pm for pid, pm in parts} for n, parts in gt}
  return (len(gbd) == len(gb) and gbd == wb and len(gtd) == len(gt) and all(len(gtd[n]) == len(parts) for n, parts in gt)
          and gtd == wt)


def monitor(case, obs):
  k = case['kind']
  v = []
  if k == 'produce':
    topic, payloads, acks = _put_inputs(case)
    if payloads == 'default':
      payloads = []
    if acks == 'default':
      acks = 1
    cidb = _cid_bytes(case.get('cid'))
    adm, blen = _put_admissible(topic, payloads, acks, case['partition'])
    hdr_adm = cidb is not None and len(cidb) <= 32767 and _in(case['tag'], I32) and 10 + len(cidb) + blen <= I32[1]
    if 'body_exc' in obs:
      if adm:
        v.append(('request-rejected', 'SerializeMessage raised %s for an encodable produce request' % obs['body_exc']))
      return v
    if not adm:
      v.append(('request-accepted-unencodable', 'no error although a field cannot be carried (topic %d bytes, acks %r, partition %r)' %
                (len(topic), acks, case['partition'])))
      return v
    if obs['mtype'] != 0 or obs['hmtype'] != 0:
      v.append(('request-message-type', 'SerializeMessage returned %r, headers carry %r, expected ProduceRequest (0)' % (obs['mtype'], obs['hmtype'])))
    if 'header_exc' in obs:
      if hdr_adm:
        v.append(('request-rejected', '_BuildHeader raised %s for tag %d, client id %r' % (obs['header_exc'], case['tag'], case.get('cid'))))
      return v
    if not hdr_adm:
      v.append(('header-accepted-out-of-range', 'no error for out-of-range tag/client id'))
      return v
    body = bytes.fromhex(obs['body'])
    if obs['tell'] != len(body):
      v.append(('request-stream-position', 'stream.tell() %d != %d bytes written' % (obs['tell'], len(body))))
    _check_frame_put(v, bytes.fromhex(obs['header']) + body, case['tag'], cidb, topic, payloads, acks, case['partition'])
  elif k == 'metareq':
    if case['method'] == '__metadata' and not case['topics'] and 'header' in obs:
      try:
        d = py_parse_request(bytes.fromhex(obs['header']) + bytes.fromhex(obs['body']))
        if (d['api_key'], d['version'], d['corr'], d.get('meta_topics')) != (3, 0, case['tag'], []):
          v.append(('metadata-request-fields', repr(d)))
      except ParseError as e:
        v.append(('metadata-request-malformed', str(e)))
    elif case['method'] == '__metadata' and not case['topics']:
      v.append(('metadata-request-rejected', str(obs)))
    # a metadata request naming topics raises struct.error in the code; the property is about produce requests: not flagged
  elif k == 'header':
    cidb = _cid_bytes(case.get('cid'))
    ok_in = (cidb is not None and len(cidb) <= 32767 and _in(case['tag'], I32) and _in(case['mtype'], I16)
             and _in(10 + len(cidb) + case['dlen'], I32))
    if 'exc' in obs:
      if ok_in:
        v.append(('request-rejected', '_BuildHeader raised %s for in-range input' % obs['exc']))
      return v
    if not ok_in:
      v.append(('header-accepted-out-of-range', 'no error for out-of-range field'))
      return v
    want = struct.pack('!ihhih', 10 + len(cidb) + case['dlen'], case['mtype'], 0, case['tag'], len(cidb)) + cidb
    if bytes.fromhex(obs['header']) != want:
      v.append(('header-bytes', 'header %s != %s' % (obs['header'][:80], want.hex()[:80])))
  elif k == 'parse':
    if 'base' in case and not case.get('mut') and 'frame' in obs and py_summary(bytes.fromhex(obs['frame'])) is None:
      v.append(('request-malformed', 'unmodified implementation frame rejected'))
  elif k == 'crc':
    pass
  elif k in ('presp', 'mresp'):
    if case.get('mut') is None and case.get('corr') is not None and case['mtype'] == (0 if k == 'presp' else 3):
      want = _expected_value(case)
      if 'exc' in obs:
        v.append(('response-rejected', 'DeserializeMessage raised %s on a well-formed %s response' %
                  (obs['exc'], 'produce' if k == 'presp' else 'metadata')))
      elif not _value_matches(obs.get('value'), want):
        v.append(('response-decoded-wrong', 'decoded %s, broker encoded %s' % (C.canon(obs.get('value'))[:300], C.canon(want)[:300])))
  elif k == 'route':
    pends = {}
    cidb = _cid_bytes(case.get('cid'))
    for i, (op, o) in enumerate(zip(case['ops'], obs['ops'])):
      where = 'op %d: ' % i
      pend = pends.setdefault(o.get('conn', 0), {})
      if o.get('o') == 'anomaly':
        v.append(('route-anomaly', where + str({kk: vv for kk, vv in o.items() if kk != 'data'})))
        continue
      if op['op'] == 'send':
        call = op['call']
        if 'put' in call:
          p = call['put']
          topic, payloads = expand(p['topic']), [expand(x) for x in p['payloads']]
          adm, _bl = _put_admissible(topic, payloads, p['acks'], p['partition'])
        else:
          adm = 'meta' in call and not call['meta']
        if o['o'] == 'ser_error':
          if o['k'] != op['k']:
            v.append(('route-wrong-recipient', where + 'serialisation error reported to caller %r, not %r' % (o['k'], op['k'])))
          if adm:
            v.append(('request-rejected', where + 'serialisable request answered with %s' % o['err']))
        elif o['o'] == 'send_raise':
          tag = o.get('tag')
          if tag is None:                       # raised before a tag was taken from the pool
            tag = op.get('tag', 2) if case['pool'] == 'scripted' else 2
          if adm and _in(tag, I32) and cidb is not None and len(cidb) <= 32767:
            v.append(('request-rejected', where + 'AsyncProcessRequest raised %s for a serialisable request' % o['exc']))
        elif o['o'] == 'sent':
          frame = bytes.fromhex(o['frame'])
          if 'put' in call and adm:
            _check_frame_put(v, frame, o['tag'], cidb, topic, payloads, p['acks'], p['partition'], where)
          elif not adm:
            v.append(('request-accepted-unencodable', where + 'unencodable request was sent'))
          else:
            try:
              d = py_parse_request(frame)
              if (d['api_key'], d['version'], d['corr'], d['client'], d.get('meta_topics')) != (3, 0, o['tag'], cidb, []):
                v.append(('metadata-request-fields', where + repr(d)[:200]))
            except ParseError as e:
              v.append(('metadata-request-malformed', where + 'metadata request rejected by the independent v0 parser: %s' % e))
          if len(frame) >= 12:
            corr = int.from_bytes(frame[8:12], 'big', signed=True)
            if corr != o['tag']:
              v.append(('request-correlation-id', where + 'frame carries correlation id %d, tag map uses %r' % (corr, o['tag'])))
            pend[corr] = (op['k'], 0 if 'put' in call else 3)
      else:
        data = bytes.fromhex(o['data'])
        if len(data) < 4:
          if o['o'] == 'deliver':
            v.append(('route-delivered-unknown', where + 'a reply without a correlation id was delivered to caller %r' % o['k']))
          continue
        corr = int.from_bytes(data[:4], 'big', signed=True)
        if corr in pend:
          kk, mt = pend.pop(corr)
          if o['o'] != 'deliver':
            v.append(('route-not-delivered', where + 'reply with correlation id %d not delivered (%s); request of caller %d is waiting for it' %
                      (corr, o['o'], kk)))
            continue
          if o['k'] != kk:
            v.append(('route-wrong-recipient', where + 'reply with correlation id %d delivered to caller %r; the request with that id belongs to caller %d' %
                      (corr, o['k'], kk)))
            continue
          if op.get('mut') is None and 'raw' not in op and 'short' not in op and (('presp' in op) == (mt == 0)):
            want = _expected_value(op)
            if 'err' in o:
              v.append(('response-rejected', where + 'well-formed reply decoded to error %s' % o['err']))
            elif not _value_matches(o.get('value'), want):
              v.append(('response-decoded-wrong', where + 'decoded %s, broker encoded %s' % (C.canon(o.get('value'))[:300], C.canon(want)[:300])))
        else:
          if o['o'] == 'deliver':
            v.append(('route-delivered-unknown', where + 'reply with correlation id %d (no such pending request) delivered to caller %r' % (corr, o['k'])))
  elif k == 'transport':
    cidb = _cid_bytes(case.get('cid'))
    nconn = case.get('conns', 1)
    specs = {}
    for op in case['ops']:
      if op['op'] == 'send':
        specs[op['k']] = op
        if op.get('then'):
          specs[op['then']['k']] = dict(op['then'], conn=op.get('conn', 0))
    info = {}
    result = {}
    outstanding = [dict() for _ in range(nconn)]     # per connection: correlation id -> request outstanding at the broker
    replied = set()
    lost = set()                                      # requests whose connection was closed under them
    if not obs.get('wire_ok', True) or obs.get('unframed'):
      v.append(('wire-framing', 'bytes written to the socket are not a sequence of size-prefixed frames (%d stray bytes)' % (len(obs.get('unframed', '')) // 2)))

    def want_of(j):
      q = info[j]
      return {'produce': [[q['topic'].hex(), q['p']['partition'], 0, 1000 + j]]}
    for i, (op, o) in enumerate(zip(case['ops'], obs['ops'])):
      where = 'op %d: ' % i
      now = o['now']
      before = set(result)
      emitted = []
      closing = min(op.get('conn', 0), nconn - 1) if op['op'] == 'reopen' else None
      for ev in o['log']:
        t = ev[0]
        if t == 's':
          _t, c, kk, at = ev
          sp = specs[kk]
          p = sp['call']['put']
          topic, payloads = expand(p['topic']), [expand(x) for x in p['payloads']]
          adm, _b = _put_admissible(topic, payloads, p['acks'], p['partition'])
          dl = None
          if not sp.get('deadline0') and sp.get('timeout') is not None:
            dl = at + sp['timeout']
          info[kk] = {'topic': topic, 'payloads': payloads, 'p': p, 'adm': adm, 'tag': None, 'deadline': dl, 'conn': c,
                      'while_closing': closing == c}
        elif t == 'q':
          _t, c, kk, fh, tag = ev
          if kk in info:
            info[kk]['tag'] = tag
        elif t == 'w':
          _t, c, kk, fh = ev
          frame = bytes.fromhex(fh)
          if kk is None or kk not in info:
            v.append(('wire-unknown-frame', where + 'a frame that is not the queued frame of any request was written'))
            continue
          q = info[kk]
          _check_frame_put(v, frame[:], q['tag'], cidb, q['topic'], q['payloads'], q['p']['acks'], q['p']['partition'], where)
          corr = int.from_bytes(frame[8:12], 'big', signed=True)
          if corr in outstanding[c] and outstanding[c][corr] != kk:
            v.append(('corr-id-reused-in-flight', where + 'request %d was written with correlation id %d while request %d with the same id is still '
                      'outstanding at the broker (it owes a reply)' % (kk, corr, outstanding[c][corr])))
          outstanding[c][corr] = kk
        elif t == 'b':
          _t, c, kk, dh = ev
          corr = int.from_bytes(bytes.fromhex(dh)[:4], 'big', signed=True)
          replied.add(kk)
          emitted.append((kk, corr))
          if outstanding[c].get(corr) == kk:
            del outstanding[c][corr]
        elif t == 'life':
          c = ev[1]
          lost.update(j for j in outstanding[c].values())
          lost.update(j for j, q in info.items() if q['conn'] == c and j not in result)
          outstanding[c] = {}
          closing = None
        elif t == 'x':
          _t, kk, exc, by_cb = ev
          if not by_cb:
            v.append(('request-rejected', where + 'AsyncProcessRequest raised %s for request %r' % (exc, kk)))
        elif t == 'tx':
          if not ev[2]:
            v.append(('timer-action-raised', where + 'the deadline action raised %s' % ev[1]))
        elif t == 'd':
          _t, kk, via, d, was_written = ev
          if kk not in info:
            v.append(('route-delivered-unknown', where + 'result for unknown caller %r' % kk))
            continue
          if kk in result:
            v.append(('caller-duplicate-result', where + 'caller %d received a second result %s' % (kk, C.canon(d)[:200])))
            continue
          result[kk] = d
          q = info[kk]
          if via == 'close':
            if 'err' not in d:
              v.append(('route-wrong-recipient', where + 'caller %d received a value while its connection was being closed' % kk))
          elif d.get('err') == 'TimeoutError':
            if q['deadline'] is None or q['deadline'] > now:
              v.append(('timeout-spurious', where + 'caller %d got TimeoutError at %.3f, deadline %r' % (kk, now, q['deadline'])))
          elif 'err' in d:
            if q['adm'] and not q['while_closing']:
              v.append(('request-rejected', where + 'caller %d got error %s for a serialisable request' % (kk, d['err'])))
          else:
            want = want_of(kk)
            if d.get('value') != want or kk not in replied:
              other = [j for j in info if j != kk and d.get('value') == want_of(j)]
              if other:
                v.append(('route-wrong-recipient', where + 'caller %d received the reply the broker generated for request %d: %s' %
                          (kk, other[0], C.canon(d.get('value'))[:200])))
              else:
                v.append(('response-decoded-wrong', where + 'caller %d received %s, broker encoded %s' % (kk, C.canon(d.get('value'))[:200], C.canon(want)[:200])))
      for kk, corr in emitted:
        if kk not in before and kk not in result:
          v.append(('route-not-delivered', where + 'the broker replied to request %d (correlation id %d) but its caller, still waiting, received nothing' %
                    (kk, corr)))
      if op['op'] == 'advance':
        for kk, q in info.items():
          if q['deadline'] is not None and q['deadline'] <= now and kk not in result:
            v.append(('timeout-missing', where + 'deadline %.3f of caller %d passed at %.3f without a result' % (q['deadline'], kk, now)))
  return v


# ---------------------------------------------------------------------------------------------
# translation to Coq terms
# ---------------------------------------------------------------------------------------------
def _bl(b):
  return C.bytes_lit(bytes(b))


def _text(s):
  return '[' + ';'.join(str(ord(c)) for c in s) + ']%Z'


def _cid(cid):
  return _text('scales' if cid is None else cid)


def _z(n):
  return C.zlit(n)


def _call_put(topic, payloads, acks, partition):
  return '(CallPut %s %s %s %s)' % (_z(acks), _z(partition), _bl(topic), C.lst([_bl(p) for p in payloads]))


def _rsum(s):
  if s is None:
    return 'None'
  key, ver, corr, client, prod, mts = s
  if prod is None:
    p = 'None'
  else:
    p = '(Some (%s, %s, %s))' % (_z(prod[0]), _z(prod[1]), C.lst(
        ['(%s, %s)' % (_bl(t), C.lst(['(%s, %s)' % (_z(pp), C.lst(['(%s, %s, %s, %s, %s)' % tuple(_z(x) for x in m) for m in ms]))
                                     for pp, ms in parts])) for t, parts in prod[2]]))
  return '(Some (%s, %s, %s, %s, %s, %s))' % (_z(key), _z(ver), _z(corr), 'None' if client is None else '(Some %s)' % _bl(client),
                                              p, C.lst([_bl(t) for t in mts]))


def _reply_term(val):
  """obs value -> KafkaCodec.reply term."""
  if 'none' in val:
    return 'RNoValue'
  if 'produce' in val:
    return '(RProduce %s)' % C.lst(['(%s, %s, %s, %s)' % (_bl(bytes.fromhex(t)), _z(p), _z(e), _z(o)) for t, p, e, o in val['produce']])
  brokers, topics = val['metadata']
  bt = C.lst(['(%s, (%s, %s, %s))' % (_z(k), _z(b[0]), _bl(bytes.fromhex(b[1])), _z(b[2])) for k, b in brokers])
  tt = C.lst(['(%s, %s)' % (_bl(bytes.fromhex(n)), C.lst(
      ['(%s, (%s, %s, %s, %s, %s))' % (_z(pid), _bl(bytes.fromhex(pm[0])), _z(pm[1]), _z(pm[2]), C.zlist(pm[3]), C.zlist(pm[4]))
       for pid, pm in parts])) for n, parts in topics])
  return '(RMetadata (%s, %s))' % (bt, tt)


def _oreply(o):
  """observation with 'value' / 'exc' / 'err' -> option reply term."""
  if 'value' in o:
    return '(Some %s)' % _reply_term(o['value'])
  return 'None'


def _presp_term(resp):
  return C.lst(['(%s, %s)' % (_bl(expand(t)), C.lst(['(%s, %s, %s)' % (_z(p), _z(e), _z(o)) for p, e, o in parts])) for t, parts in resp])


def _mresp_term(brokers, topics):
  bt = C.lst(['(%s, %s, %s)' % (_z(nid), _bl(expand(h)), _z(port)) for nid, h, port in brokers])
  tt = C.lst(['{| mt_err := %s; mt_name := %s; mt_parts := %s |}' % (_z(te), _bl(expand(nm)), C.lst(
      ['{| mp_err := %s; mp_id := %s; mp_leader := %s; mp_replicas := %s; mp_isr := %s |}' % (_z(pe), _z(pid), _z(ld), C.zlist(reps), C.zlist(isr))
       for pe, pid, ld, reps, isr in parts])) for te, nm, parts in topics])
  return '{| mr_brokers := %s; mr_topics := %s |}' % (bt, tt)


def _resp_in_range(c):
  if c['kind'] == 'presp':
    return all(len(expand(t)) <= 32767 for t, _ in c['resp'])
  return True


def _request_term(cid, tag, call_term, obs):
  if 'body_exc' in obs:
    return 'CRequest %s %s %s None None None' % (_cid(cid), _z(tag), call_term)
  body = bytes.fromhex(obs['body'])
  bt = '(Some (%s, %s))' % (_z(obs['mtype']), _bl(body))
  if 'header' in obs:
    hdr = bytes.fromhex(obs['header'])
    return 'CRequest %s %s %s %s (Some %s) %s' % (_cid(cid), _z(tag), call_term, bt, _bl(hdr), _rsum(py_summary(hdr + body)))
  return 'CRequest %s %s %s %s None None' % (_cid(cid), _z(tag), call_term, bt)


def to_coq(case, obs):
  k = case['kind']
  if k == 'produce':
    topic, payloads, acks = _put_inputs(case)
    if payloads == 'default':
      payloads = []
    if acks == 'default':
      acks = 1
    if len(payloads) > 50 or any(len(p) > 2048 for p in payloads) or len(topic) > 40000:
      return None                                       # checked by the Python parser (monitor) only
    if obs.get('mtype') is not None and (obs['mtype'] != obs['hmtype'] or obs['tell'] != len(obs['body']) // 2):
      return 'CHeader [] (0)%Z (0)%Z (0)%Z None'      # impossible in the model: forces a divergence
    return _request_term(case.get('cid'), case['tag'], _call_put(topic, payloads, acks, case['partition']), obs)
  if k == 'metareq':
    if case['method'] == '__metadata':
      ct = '(CallMetadata %s)' % C.lst([_bl(expand(t)) for t in case['topics']])
    else:
      ct = 'CallOther'
    return _request_term(case.get('cid'), case['tag'], ct, obs)
  if k == 'header':
    return 'CHeader %s %s %s %s %s' % (_cid(case.get('cid')), _z(case['tag']), _z(case['mtype']), _z(case['dlen']),
                                      '(Some %s)' % _bl(bytes.fromhex(obs['header'])) if 'header' in obs else 'None')
  if k == 'parse':
    if 'frame' not in obs:
      return None
    f = bytes.fromhex(obs['frame'])
    return 'CParse %s %s' % (_bl(f), _rsum(py_summary(f)))
  if k == 'crc':
    return 'CCrc %s %s %s %s' % (_bl(expand(case['a'])), _bl(expand(case['b'])), _z(obs['ca']), _z(obs['cab']))
  if k in ('presp', 'mresp'):
    raw = bytes.fromhex(obs['raw'])
    if case.get('mut') is None:
      r = '(Some %s)' % (_presp_term(case['resp']) if k == 'presp' else _mresp_term(case['brokers'], case['topics']))
    else:
      r = 'None'
    return '%s %s %s %s %s %s' % ('CProduceResp' if k == 'presp' else 'CMetadataResp', r, _bl(_corr_bytes(case)), _bl(raw),
                                  _z(case['mtype']), _oreply(obs))
  if k == 'route':
    per = {}
    for op, o in zip(case['ops'], obs['ops']):
      ops, exp = per.setdefault(o.get('conn', 0), ([], []))
      if o.get('o') == 'anomaly':
        return 'CRoute [] [] [ODrop]'                   # impossible in the model: forces a divergence
      if op['op'] == 'send':
        call = op['call']
        if 'put' in call:
          p = call['put']
          ct = _call_put(expand(p['topic']), [expand(x) for x in p['payloads']], p['acks'], p['partition'])
        elif 'meta' in call:
          ct = '(CallMetadata %s)' % C.lst([_bl(expand(t)) for t in call['meta']])
        else:
          ct = 'CallOther'
        tag = o.get('tag')
        ops.append('RSend %s %s %s' % (_z(op['k']), _z(tag if isinstance(tag, int) else 0), ct))
        if o['o'] == 'sent':
          exp.append('OSent %s' % _bl(bytes.fromhex(o['frame'])))
        elif o['o'] == 'ser_error':
          exp.append('OSerError %s' % _z(o['k']))
        else:
          exp.append('OSendRaise')
      else:
        ops.append('RReply %s' % _bl(bytes.fromhex(o['data'])))
        if o['o'] == 'deliver':
          exp.append('ODeliver %s %s' % (_z(o['k']), _oreply(o)))
        elif o['o'] == 'drop':
          exp.append('ODrop')
        else:
          exp.append('OReplyRaise')
    return ['CRoute %s %s %s' % (_cid(case.get('cid')), C.lst(ops), C.lst(exp)) for _c, (ops, exp) in sorted(per.items())] or None
  if k == 'transport':
    nconn = case.get('conns', 1)
    specs = {}
    for op in case['ops']:
      if op['op'] == 'send':
        specs[op['k']] = op
        if op.get('then'):
          specs[op['then']['k']] = dict(op['then'], conn=op.get('conn', 0))
    streams = [[[], []] for _ in range(nconn)]      # per connection, current life: (ops, expected)
    terms = []
    queued = {}                                      # k -> tag once its frame was queued
    conn_of = {}

    def call_term(kk):
      p = specs[kk]['call']['put']
      return _call_put(expand(p['topic']), [expand(x) for x in p['payloads']], p['acks'], p['partition'])

    def flush(c):
      ops, exp = streams[c]
      if ops or exp:
        terms.append('CTransport %s %s %s' % (_cid(case.get('cid')), C.lst(ops), C.lst(exp)))
      streams[c] = [[], []]
    # Every request belongs to one life of its connection slot (the sink stack that was current when it was issued).
    # The model describes one life at a time, starting from an empty tag map.  What happens to a request while or after
    # its connection is shut down (ClientError from _Shutdown, or - when a raising callback aborted _Shutdown - a later
    # TimeoutError from its still armed deadline) is outside the model and must not be attributed to the next life.
    evs = []
    life = [0] * nconn
    life_of = {}

    def ev_conn(ev):
      if ev[0] in ('s', 'q', 'w', 'b', 'p', 'life'):
        return ev[1]
      if ev[0] in ('d', 'x'):
        return conn_of.get(ev[1])
      return None
    for op, o in zip(case['ops'], obs['ops']):
      closing = min(op.get('conn', 0), nconn - 1) if op['op'] == 'reopen' else None
      for ev in o['log']:
        if ev[0] == 'life':
          closing = None
          life[ev[1]] += 1
          evs.append(ev)
          continue
        if ev[0] == 's':
          conn_of[ev[2]] = ev[1]
          life_of[ev[2]] = (ev[1], -1 if closing == ev[1] else life[ev[1]])
        if closing is not None and ev_conn(ev) in (closing, None):
          continue                                   # the connection that is being shut down (other connections go on)
        if ev[0] in ('d', 'x') and ev[1] in life_of and life_of[ev[1]] != (life_of[ev[1]][0], life[life_of[ev[1]][0]]):
          continue                                   # a caller of an earlier life
        evs.append(ev)
    i = 0
    while i < len(evs):
      ev = evs[i]
      t = ev[0]
      i += 1
      if t == 's':
        conn_of[ev[2]] = ev[1]
      elif t == 'q':
        _t, c, kk, fh, tag = ev
        if kk is None or c is None:
          return 'CTransport [] [] [VRaise]'         # not in the model: forces a divergence
        queued[kk] = tag if isinstance(tag, int) else 0
        streams[c][0].append('TOp (RSend %s %s %s)' % (_z(kk), _z(queued[kk]), call_term(kk)))
        streams[c][1].append('VSent %s' % _bl(bytes.fromhex(fh)))
      elif t == 'p':
        _t, c, dh = ev
        streams[c][0].append('TOp (RReply %s)' % _bl(bytes.fromhex(dh)))
        if i < len(evs) and evs[i][0] == 'd' and evs[i][2] == 'reply':
          d = evs[i]
          i += 1
          streams[c][1].append('VDeliver %s %s' % (_z(d[1]), _oreply(d[3])))
        else:
          streams[c][1].append('VNothing')
      elif t == 'd':
        _t, kk, via, d, was_written = ev
        c = conn_of.get(kk, 0)
        if via == 'close':
          continue
        if d.get('err') == 'TimeoutError' and via in ('timer', 'send'):
          if kk in queued and not was_written:
            streams[c][0].append('TUnsent %s %s' % (_z(kk), _z(queued[kk])))
          else:
            streams[c][0].append('TTimeout %s' % _z(kk))
          streams[c][1].append('VTimeout %s' % _z(kk))
        elif 'err' in d and via == 'send' and kk not in queued:
          streams[c][0].append('TOp (RSend %s %s %s)' % (_z(kk), _z(0), call_term(kk)))
          streams[c][1].append('VSerError %s' % _z(kk))
        else:
          streams[c][1].append('VRaise')             # a result the model has no step for: forces a divergence
      elif t == 'life':
        flush(ev[1])
      elif t == 'x' and not ev[3]:
        streams[conn_of.get(ev[1], 0)][1].append('VRaise')
    for c in range(nconn):
      flush(c)
    return terms or None
  raise ValueError(k)


def nontrivial(case, obs):
  k = case['kind']
  if k in ('produce', 'metareq'):
    return 'header' in obs
  if k == 'header':
    return 'header' in obs
  if k == 'parse':
    return 'frame' in obs
  if k == 'crc':
    return True
  if k in ('presp', 'mresp'):
    return 'value' in obs
  if k == 'route':
    return any(o.get('o') in ('deliver', 'drop') for o in obs['ops'])
  if k == 'transport':
    return any(e[0] == 'd' for o in obs['ops'] for e in o['log'])
  return False


def _short(x):
  if isinstance(x, str) and len(x) > 160:
    return x[:160] + '...(%d chars)' % len(x)
  if isinstance(x, list):
    return [_short(y) for y in x[:40]] + (['...%d more' % (len(x) - 40)] if len(x) > 40 else [])
  if isinstance(x, dict):
    return {k: _short(v) for k, v in x.items()}
  return x


def describe(case, obs):
  return {'case': _short(case), 'obs': _short(obs)}


def stats(cases, obs):
  import collections
  out = collections.Counter()
  npay = collections.Counter()
  for c, o in zip(cases, obs):
    k = c['kind']
    if not isinstance(o, dict):
      continue
    if k in ('produce', 'metareq'):
      out['%s:%s' % (k, 'body_exc:' + o['body_exc'] if 'body_exc' in o else ('header_exc:' + o['header_exc'] if 'header_exc' in o else 'framed'))] += 1
      if k == 'produce' and c['payloads'] != 'default':
        n = len(c['payloads'])
        npay['0' if n == 0 else '1' if n == 1 else '2-5' if n <= 5 else '6-50'] += 1
        if any(p.get('n') == 0 or p.get('hex') == '' for p in c['payloads']):
          out['produce:with-empty-payload'] += 1
    elif k == 'header':
      out['header:%s' % ('exc' if 'exc' in o else 'ok')] += 1
    elif k == 'parse':
      if 'frame' in o:
        out['parse:%s' % ('accepted' if py_summary(bytes.fromhex(o['frame'])) is not None else 'rejected')] += 1
    elif k in ('presp', 'mresp'):
      out['%s:%s' % (k, 'value' if 'value' in o else 'exc')] += 1
      if 'value' in o and 'none' in o['value']:
        out['%s:python-None' % k] += 1
    elif k == 'route':
      if c.get('seq'):
        out['route:sequence:%s' % c['seq']] += 1
      out['route:connections:%d' % c.get('conns', 1)] += 1
      out['route:same-message-object-resent'] += sum(1 for op in c['ops'] if op.get('same_as') is not None)
      for x in o.get('ops', []):
        out['route:%s' % x.get('o')] += 1
        if x.get('o') == 'deliver':
          out['route:deliver:%s' % ('value' if 'value' in x else 'decode-error')] += 1
    elif k == 'crc':
      out['crc'] += 1
    elif k == 'transport':
      out['transport:connections:%d' % c.get('conns', 1)] += 1
      for op, x in zip(c['ops'], o.get('ops', [])):
        evs = x['log']
        nb = sum(1 for e in evs if e[0] == 'b')
        nd = sum(1 for e in evs if e[0] == 'd' and e[2] == 'reply')
        if op['op'] == 'reply':
          out['transport:late-reply-absorbed'] += max(0, nb - nd)
          if nb > 1:
            out['transport:replies-in-one-segment:%d' % min(nb, 3)] += 1
          if nb and op.get('split'):
            out['transport:reply-split:%s' % ('slow' if op.get('slow') else 'burst')] += 1
        if op['op'] == 'send' and nb:
          out['transport:broker-replied-inside-write'] += 1
        if op['op'] == 'reopen':
          out['transport:reopen'] += 1
          out['transport:reopen:pending-failed'] += sum(1 for e in evs if e[0] == 'd' and e[2] == 'close')
        for j, e in enumerate(evs):
          if e[0] == 'd':
            d = e[3]
            if e[2] == 'close':
              pass
            elif d.get('err') == 'TimeoutError':
              out['transport:timeout:%s' % ('at-call' if e[2] == 'send' else 'in-flight' if e[4] else 'unsent')] += 1
            elif 'err' in d:
              out['transport:ser-error'] += 1
            else:
              out['transport:reply-delivered'] += 1
            if j + 1 < len(evs) and evs[j + 1][0] == 's':
              out['transport:reentrant-send-from-callback:%s' % e[2]] += 1
          elif e[0] in ('x', 'tx') and e[-1]:
            out['transport:callback-raised:%s' % ('send' if e[0] == 'x' else 'timer')] += 1
      if any(sp.get('raises') for sp in c['ops'] if sp['op'] == 'send'):
        out['transport:cases-with-raising-callback'] += 1
  return {'branch_distribution': dict(sorted(out.items())), 'produce_payload_count_histogram': dict(npay)}
