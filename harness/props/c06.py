"""C06 - Aperture keeps a partitioned, bounded, load-tracking active subset.

Implementation under test (imported from $SCALES_REPO as it is now):
  scales.loadbalancer.aperture.ApertureBalancerSink on top of the real HeapBalancerSink / LoadBalancerSink,
  with the real scales.varz.Ema and MonoClock.
Model: coq/Model/Aperture.v + coq/Model/Ema.v.  World / tracing: harness/c06_world.py.

How one case runs (lock-step): a real sink is built over scripted collaborators, opened, and then driven by
`case['ops']` (tick / get / put / join / leave / chan / opendone / jitter).  After every op the run queue is drained
and we record (a) the event trace at the heap<->aperture interface and at the collaborators (random.choice with the
list it was given, Ema.Update with timestamp weight/sample/result, CreateSink/Open/Close/requests on member channels,
timer-queue Schedule), (b) the active set reconstructed from the heap._AddSink/_RemoveSink calls with the state of
each member's mock channel, (c) the private sets `_idle_endpoints`, `_pending_endpoints`, `_heap` read inside try,
(d) the published gauges.  `to_coq` turns the trace of each op into the model's labels (every nondeterministic input is
taken from the trace) and the model must reproduce active/idle/pending after every op.

Jitter: `jitter_min_sec > 0` makes the sink call LOW_RESOLUTION_TIMER_QUEUE.Schedule(now + randint(min,max), self._Jitter);
the queue is replaced by a recorder and the `jitter` op runs the recorded action in its own greenlet, exactly as the
real TimerQueue does (gevent.spawn(action)); the greenlet blocks in ar.wait() until an `opendone` op completes the open.
"""
import sys
from fractions import Fraction

from .. import common as C
from .. import c06_world as W

PID = 'C06'
PROPS_FILE = 'Props/C06.v'
COQ_HEADER = 'From Coq Require Import QArith.\nFrom Scales Require Import Model.Ema Model.Aperture.'
COQ_CASE_TYPE = 'Aperture.case'
COQ_CHECK = 'Aperture.check_case'
COQ_EXPLAIN = 'Aperture.explain_case'
SHARD = 60
WORKERS = 6
RULE = ('seeded histories of 20-90 ops over 0-8 endpoints: configurations min_size 0..3, max_size 1..6 or 2^31, load bands '
        '(0.5,2.0), narrow, non-dyadic and degenerate ones; op streams random / ramp (traffic up and down over virtual minutes) / '
        'drain (busy active members leave or are contracted with requests in flight that complete afterwards, then long light traffic) / steady (constant outstanding) / failures (opens that fail, channels closing, leaves of pending, idle and active '
        'members, duplicate joins, unknown leaves) / jitter rounds, clock steps 0..60 s incl. backwards steps; '
        'non-trivial = the history contains at least one load-driven expansion or contraction; distinct by canonical JSON of '
        '(case, observation)')
TRUSTED = ['the harness own count of outstanding requests (held by the mock member channels) is the reference for `_total`, in the monitor '
           '(with an independent 5 s EMA) and in the model comparison (o_total)',
           'harness/c06_world.py: mock member channels, scripted random, virtual clock, recording Ema subclass, '
           'class-level tracing wrappers on HeapBalancerSink._AddSink/_RemoveSink and the _OnNodeDown/_OnGet/_OnPut hooks',
           'the heap base class is abstracted to its interface (active list in _AddSink order); its internals are C03-C05',
           'independent Python monitor in harness/props/c06.py']
ASSUMPTIONS = ['math.exp(x) is in [0,1] for x <= 0 (the weight is an input of the model, checked 0<=w<=1 on every sample)',
               'float comparisons avg/size >= max_load, <= min_load agree with the exact rational comparison; cases where '
               'the float quotient rounds across the bound are not sent to the model (counted as tie_skipped_cases; rare: e.g. 1.0/5 rounds up to the float 0.2)',
               'member channel factories, Open and Close do not raise synchronously; then `ar.exception` in _Jitter is '
               'never set (model branch exn=true is proved about but cannot be produced by the implementation)',
               'a freshly created member channel is in state Idle',
               'C06_settles assumes 1 <= min_size, 0 <= min_load and 2*min_load < max_load (true for the defaults 0.5/2.0); '
               'with min_size = 0 or a narrower band the size may oscillate (witnessed by C06_settles_needs_band)']

MANIFEST = {
    'text': ('Theorems C06_partition, C06_no_crash, C06_min_bound, C06_min_invariant, C06_max_bound, C06_rule_up, C06_rule_down, '
             'C06_rule_stay, C06_adjust_enabled, C06_ema_between, C06_ema_converges, C06_settles hold for every configuration, every history of '
             'joins/leaves/channel-state changes/node-down hooks/get/put adjustments/open completions/jitter rounds, every '
             'random choice, every heap order and every sequence of smoothed averages of the Gallina transcription of '
             'ApertureBalancerSink; the transcription is run against the real class lock-step on generated histories.'),
    'note': ('Trusted: Coq kernel; harness/c06_world.py + props/c06.py (tracing, label extraction, sampling); the heap base class '
             'is abstracted to its _AddSink/_RemoveSink/hook interface; exp() only through 0<=w<=1; floats compared as exact '
             'rationals. All theorems closed under the global context.'),
    'technique': 'Coq proof (invariants over a label-driven model, Q arithmetic) + lock-step differential execution model vs code + independent monitor',
    'design_ref': 'DESIGN.md section 5, C06; 4.3; 4.4',
}

BIG = 2 ** 31
_ST = {'Idle': 1, 'Open': 2, 'Busy': 3, 'Closed': 4}


def setup():
  W.install(C.REPO)
  if 'hub' in W.S:
    return
  import logging
  logging.getLogger('scales').setLevel(logging.CRITICAL + 10)
  logging.getLogger('scales').addHandler(logging.NullHandler())
  logging.getLogger('scales').propagate = False
  hub = W.S['gevent'].get_hub()
  orig = hub.handle_error

  def handle_error(context, etype, value, tb):
    w = W.CUR[0]
    if w is not None and not issubclass(etype, hub.NOT_ERROR + hub.SYSTEM_ERROR):
      w.errors.append('%s: %s' % (etype.__name__, value))
      return
    return orig(context, etype, value, tb)
  hub.handle_error = handle_error
  W.S['hub'] = hub


# ---------------------------------------------------------------------------------------------
# generators
# ---------------------------------------------------------------------------------------------
BANDS = [(0.5, 2.0), (0.5, 2.0), (0.5, 2.0), (1.0, 1.5), (0.3, 0.7), (0.0, 1.0), (0.25, 4.0), (0.9, 1.1), (1.0, 2.0),
         (0.1, 0.2), (2.0, 2.0), (1.5, 1.0)]
TICKS = [0.0, 1 / 64., 0.5, 1.0, 3.0, 10.0, 60.0]
ODD_TICKS = [1e-9, 1e-3, 0.1, 4.999999, 5.0, 1e6]       # non-dyadic, tiny, exactly the window, huge (weight underflows to 0)


def _cfg(r, kind):
  n = r.choice([0, 1, 2, 3, 4, 5, 6, 8])
  mn = r.choice([0, 1, 1, 1, 2, 3])
  mx = r.choice([0, 1, 2, 3, 4, 5, 6, BIG, BIG])
  if mx < mn and r.random() < 0.8:
    mx = mn
  lo, hi = r.choice(BANDS)
  if r.random() < 0.15:
    lo = round(r.uniform(0.0, 1.5), 3)
    hi = round(lo + r.uniform(0.01, 3.0), 3)
  if kind in ('steady', 'ramp', 'drain') and r.random() < 0.7:
    lo, hi = 0.5, 2.0
    n = max(n, 3)
    mn = max(mn, 1)
  cfg = {'init': list(range(n)), 'min_size': mn, 'max_size': mx, 'min_load': lo, 'max_load': hi,
         'failfast': r.random() < 0.3}
  if kind == 'reenter':
    cfg['failfast'] = False
    cfg['init'] = list(range(max(n, 3)))
  if kind == 'jitter' or r.random() < 0.15 or (kind == 'reenter' and r.random() < 0.5):
    cfg['jitter_min'] = 5
    cfg['jitter_max'] = r.choice([10, 10, 5])
  # collaborators that complete synchronously, a second instance in the process, an ignored builder option
  if r.random() < 0.3 or kind == 'reenter':
    cfg['close_inline'] = True          # Close() fails the in-flight requests inline (re-enters the sink)
  if r.random() < 0.2:
    cfg['sync_open'] = r.choice([0.3, 0.6, 1.0])   # share of Open() calls whose result is set before Open() returns
  if r.random() < 0.12:
    cfg['twin'] = True
  if r.random() < 0.1:
    cfg['smoothing_window'] = r.choice([0, 1, 60])
  return cfg


def _tick(r, big=False):
  if r.random() < 0.04:
    return {'op': 'tick', 'dt': r.choice(ODD_TICKS)}
  return {'op': 'tick', 'dt': r.choice(TICKS[3:] if big else TICKS)}


def _get(r):
  if r.random() < 0.1:
    return {'op': 'get', 'again': True}   # the caller dispatches once more from inside the completion callback
  return {'op': 'get'}


def _opendone(r, pfail=0.2):
  ok = r.random() >= pfail
  return {'op': 'opendone', 'k': r.randrange(8), 'ok': ok, 'st': 2 if ok else r.choice([4, 4, 4, 1, 3])}


def _gen_ops(r, kind, cfg):
  ops = []
  nops = r.choice([20, 40, 60, 90])
  eps = 9
  if r.random() < 0.15:
    for _ in range(r.choice([1, 2, 3])):  # requests issued while the sink's own Open() is still pending
      ops.append(_get(r))
  # complete the initial opens (most of the time) so that requests are served
  for _ in range(cfg['min_size'] + 1):
    if r.random() < 0.9:
      ops.append(_opendone(r, 0.15 if kind == 'fail' else 0.03))
  if kind == 'ramp':
    up = r.choice([4, 8, 14, 20])
    for _ in range(up):
      ops.append(_tick(r, True))
      ops.append(_get(r))
      if r.random() < 0.6:
        ops.append(_opendone(r, 0.05))
    for _ in range(r.choice([0, 3])):
      ops.append(_opendone(r, 0.0))
    for _ in range(up + 2):
      ops.append(_tick(r, True))
      ops.append({'op': 'put', 'k': r.randrange(16)})
      if r.random() < 0.3:
        ops.append(_opendone(r, 0.0))
    return ops
  if kind == 'drain':
    # busy active members are removed (leave, or contraction while draining) with requests still in flight; those
    # requests complete afterwards; then a long period of light traffic during which the aperture must follow the
    # REAL smoothed load (a completion that is not accounted for stays in the total for ever)
    up = r.choice([6, 10, 16])
    for _ in range(up):
      ops.append(_tick(r, True))
      ops.append(_get(r))
      ops.append(_opendone(r, 0.0))
    n = len(cfg['init'])
    for ep in r.sample(range(max(n, 1)), min(n, r.choice([1, 2, 3]))):
      ops.append({'op': 'leave', 'ep': ep})
      ops.append(_opendone(r, 0.0))
    for _ in range(up + 2):
      ops.append({'op': 'put', 'k': r.randrange(16)})
      if r.random() < 0.5:
        ops.append(_tick(r, True))
      if r.random() < 0.3:
        ops.append(_opendone(r, 0.0))
    for _ in range(r.choice([10, 20])):
      ops.append({'op': 'tick', 'dt': 5.0})
      ops.append(_get(r))
      ops.append({'op': 'tick', 'dt': 1.0})
      ops.append({'op': 'put', 'k': 0})
      if r.random() < 0.3:
        ops.append(_opendone(r, 0.0))
    return ops
  if kind == 'reenter':
    # members that are marked down while they still hold requests are removed (contraction prefers them, departures,
    # jitter); their Close() fails those requests inline, i.e. _OnPut (and a caller that dispatches again) runs in the
    # middle of _ContractAperture / _RemoveSink
    n = max(len(cfg['init']), 1)
    for _ in range(r.choice([4, 8, 12])):
      ops.append(_get(r))
      ops.append(_tick(r))
      ops.append(_opendone(r, 0.05))
    for _ in range(r.choice([8, 16, 24])):
      k = r.random()
      if k < 0.25:
        ops.append({'op': 'chan', 'ep': r.randrange(n), 'st': r.choice([4, 4, 3, 2])})
      elif k < 0.5:
        ops.append(_get(r))
      elif k < 0.62:
        ops.append({'op': 'leave', 'ep': r.randrange(n)})
      elif k < 0.7:
        ops.append({'op': 'join', 'ep': r.randrange(n)})
      elif k < 0.8:
        ops.append({'op': 'jitter'})
      else:
        ops.append({'op': 'put', 'k': r.randrange(16)})
      ops.append(_tick(r, True) if r.random() < 0.5 else _opendone(r, 0.1))
    x = r.randrange(n)                      # this member keeps its requests, closes, is found down, and is contracted
    ops.append({'op': 'chan', 'ep': x, 'st': 4})
    ops.append(_get(r))
    ops.append(_opendone(r, 0.0))
    for _ in range(14):
      ops.append({'op': 'put', 'k': r.randrange(16), 'not_ep': x})
      ops.append(_tick(r, True))
      if r.random() < 0.4:
        ops.append(_opendone(r, 0.0))
    return ops
  if kind == 'steady':
    level = r.choice([1, 2, 3, 5, 8, 12])
    for _ in range(level):
      ops.append(_get(r))
      ops.append(_tick(r))
    for _ in range(r.choice([10, 25, 40])):
      ops.append(_tick(r, True))
      ops.append({'op': 'put', 'k': r.randrange(16)})
      ops.append(_opendone(r, 0.0))
      ops.append(_tick(r))
      ops.append(_get(r))
      ops.append(_opendone(r, 0.0))
    return ops
  wt = {'random': dict(tick=20, get=25, put=18, join=6, leave=6, chan=6, opendone=14, jitter=0, skew=1),
        'fail': dict(tick=14, get=20, put=12, join=8, leave=12, chan=14, opendone=18, jitter=0, skew=1),
        'jitter': dict(tick=14, get=18, put=14, join=4, leave=5, chan=6, opendone=20, jitter=14, skew=0)}[kind]
  if 'jitter_min' in cfg and kind != 'jitter':
    wt = dict(wt, jitter=6)
  names = list(wt.keys())
  weights = [wt[k] for k in names]
  for _ in range(nops):
    k = r.choices(names, weights)[0]
    if k == 'tick':
      ops.append(_tick(r))
    elif k == 'skew':
      ops.append({'op': 'tick', 'dt': -r.choice([0.5, 2.0, 30.0])})
    elif k == 'get':
      ops.append(_get(r))
    elif k == 'put':
      ops.append({'op': 'put', 'k': r.randrange(16)})
    elif k == 'join':
      ops.append({'op': 'join', 'ep': r.randrange(eps)})
    elif k == 'leave':
      ops.append({'op': 'leave', 'ep': r.randrange(eps)})
    elif k == 'chan':
      ops.append({'op': 'chan', 'ep': r.randrange(eps), 'st': r.choice([4, 4, 2, 2, 1, 3])})
    elif k == 'opendone':
      ops.append(_opendone(r, 0.35 if kind == 'fail' else 0.1))
    elif k == 'jitter':
      ops.append({'op': 'jitter'})
  return ops


def _mk(seed, i, kind):
  r = C.case_rng(seed, PID, i)
  cfg = _cfg(r, kind)
  return {'kind': kind, 'config': cfg, 'seed': r.randrange(2 ** 32), 'ops': _gen_ops(r, kind, cfg)}


def gen_cases(tier, seed):
  n = 600 if tier == 'quick' else 5000
  kinds = ['random', 'random', 'ramp', 'drain', 'steady', 'fail', 'fail', 'jitter', 'ramp', 'reenter']
  out = [_mk(seed, i, kinds[i % len(kinds)]) for i in range(n)]
  if tier == 'thorough':
    out += _small_scope()
  return out


def _small_scope():
  """Exhaustive op sequences of depth 5 over a small alphabet on a 3-endpoint, min 1 / max 2 sink."""
  import itertools
  alpha = [{'op': 'tick', 'dt': 10.0}, {'op': 'get'}, {'op': 'put', 'k': 0}, {'op': 'leave', 'ep': 0},
           {'op': 'chan', 'ep': 1, 'st': 4}, {'op': 'opendone', 'k': 0, 'ok': True, 'st': 2},
           {'op': 'opendone', 'k': 0, 'ok': False, 'st': 4}, {'op': 'jitter'}]
  out = []
  pre = [{'op': 'opendone', 'k': 0, 'ok': True, 'st': 2}, {'op': 'get'}, {'op': 'get'}, {'op': 'tick', 'dt': 10.0}]
  for n, seq in enumerate(itertools.product(range(len(alpha)), repeat=4)):
    cfg = {'init': [0, 1, 2], 'min_size': 1, 'max_size': 2, 'min_load': 0.5, 'max_load': 2.0, 'failfast': False,
           'jitter_min': 5, 'jitter_max': 10}
    out.append({'kind': 'small', 'config': cfg, 'seed': n % 7, 'ops': pre + [dict(alpha[j]) for j in seq]})
  return out


def search_cases(tier, seed, diverging):
  out = []
  kinds = ['ramp', 'drain', 'steady', 'fail', 'jitter', 'random', 'reenter']
  for i in range(1500):
    out.append(_mk(seed + 104729, i, kinds[i % len(kinds)]))
  return out


# ---------------------------------------------------------------------------------------------
# implementation driver
# ---------------------------------------------------------------------------------------------
def _snap(w, members):
  ints = w.internals()
  return {'active': [[e, int(c.state) if c is not None else None, c.cid if c is not None else None] for e, c in w.act],
          'idle': ints.get('idle'), 'pending': ints.get('pending'),
          'heap': sorted(x[0] for x in ints['heap']) if 'heap' in ints else None,
          'servers': ints.get('servers'), 'gauges': w.gauges(), 'members': sorted(members),
          'outstanding': len(w.outstanding),
          'opening': [[c.cid, c.epid, c.cause] for c in w.opening]}


def _apply_trace(w, events, cause):
  """Maintains the active list (endpoint, channel) from the heap._AddSink/_RemoveSink/CreateSink trace."""
  for e in events:
    k = e[0]
    if k == 'add':
      w.act.append([e[1], None])
    elif k == 'create':
      ch = w.chans[e[1]]
      for a in w.act:
        if a[0] == e[2] and a[1] is None:
          a[1] = ch
          break
    elif k == 'remove' and e[2]:
      for i, a in enumerate(w.act):
        if a[0] == e[1]:
          del w.act[i]
          break


def run_impl(case):
  setup()
  import random as _random
  S = W.S
  cfg = case['config']
  w = W.World(cfg, _random.Random(case.get('seed', 0)))
  members = set(cfg['init'])
  tw = None
  try:
    if cfg.get('twin'):
      # a second, independent sink in the same process, driven between the ops of the first one: class-level or
      # module-level state shared between instances would show up as a divergence of the first sink from the model
      tw = _Twin(case.get('seed', 0))
      W.CUR[0] = w
    w.open_ar = w.sink.Open()
    w.settle()
    ev = w.take_events()
    _apply_trace(w, ev, 'join')
    obs = {'init': {'events': ev, 'snap': _snap(w, members), 'ready': bool(w.open_ar.ready())}, 'steps': []}
    for op in case['ops']:
      W.CUR[0] = w
      rec = {}
      k = op['op']
      cause = 'join' if k == 'join' else 'expand'
      w.cause = cause
      w.sync_fresh = []
      try:
        if k == 'tick':
          w.clock.now += op['dt']
        elif k == 'get':
          if not w.open_ar.ready():
            rec['deferred'] = True       # issued while the sink's own Open() is pending: runs when that completes
          st, m = w.dispatch(bool(op.get('again')))
          e = m.properties.get(S['MessageProperties'].Endpoint)
          rec['endpoint'] = W.id_of(e) if e is not None else None
          if st.done:
            err = getattr(st.msg, 'error', None)
            rec['resp'] = type(err).__name__ if err is not None else 'ok'
        elif k == 'put':
          if not w.outstanding:
            rec['skip'] = 'nothing-outstanding'
          else:
            pool = list(range(len(w.outstanding)))
            if op.get('not_ep') is not None:      # prefer requests that are not held by that member
              pool = [j for j in pool if w.outstanding[j][0].epid != op['not_ep']] or pool
            ch, st = w.outstanding.pop(pool[op['k'] % len(pool)])
            ch.held.remove(st)
            rec['chan'] = ch.cid
            st.AsyncProcessResponseMessage(S['MethodReturnMessage']())
        elif k == 'join':
          members.add(op['ep'])
          w.provider.on_join(W.Server(W.ep_of(op['ep'])))
        elif k == 'leave':
          members.discard(op['ep'])
          w.provider.on_leave(W.Server(W.ep_of(op['ep'])))
        elif k == 'chan':
          tgt = [c for e, c in w.act if e == op['ep'] and c is not None]
          if not tgt:
            rec['skip'] = 'not-active'
          else:
            tgt[0].state = op['st']
        elif k == 'opendone':
          if not w.opening:
            rec['skip'] = 'nothing-opening'
          else:
            ch = w.opening.pop(op['k'] % len(w.opening))
            ch.state = op['st']
            rec['chan'] = ch.cid
            rec['ep'] = ch.epid
            rec['current'] = any(c is ch for _e, c in w.act)
            if op['ok']:
              ch.open_ar.set(True)
            else:
              ch.open_ar.set_exception(Exception('open failed'))
        elif k == 'jitter':
          if not w.scheduled or (w.jitter_g is not None and not w.jitter_g.dead):
            rec['skip'] = 'no-jitter-scheduled'
          else:
            _dl, action = w.scheduled.pop(0)
            w.ev('jitter-start')
            w.jitter_g = S['gevent'].spawn(action)
        else:
          raise ValueError(k)
      except Exception as e:   # an exception escaping the sink into its caller is an observation
        rec['exc'] = type(e).__name__
        rec['exc_msg'] = str(e)[:200]
      w.ev('sync-end')          # what follows in the trace of this op runs from the event loop (callbacks, greenlets)
      w.settle()
      ev = w.take_events()
      _apply_trace(w, ev, cause)
      rec['events'] = ev
      rec['snap'] = _snap(w, members)
      rec['ready'] = bool(w.open_ar.ready())
      rec['jitter_running'] = bool(w.jitter_g is not None and not w.jitter_g.dead)
      if w.errors:
        rec['errors'] = w.errors
        w.errors = []
      obs['steps'].append(rec)
      if tw is not None:
        tw.step()
        W.CUR[0] = w
    if tw is not None:
      obs['twin'] = tw.finish()
      W.CUR[0] = w
    return obs
  finally:
    # unblock a waiting jitter greenlet and forget the gauges of this sink
    # (its finally-clauses call the scripted randint/Schedule: they must still see this world)
    try:
      W.CUR[0] = w
      if w.jitter_g is not None and not w.jitter_g.dead:
        w.jitter_g.kill(block=True, timeout=2)
      w.settle()
    except Exception:
      pass
    w.drop_gauges()
    if tw is not None:
      tw.w.drop_gauges()
    W.CUR[0] = None


class _Twin(object):
  """The second sink: fixed configuration, its own PRNG, clock, channels and provider; simple traffic and churn."""

  def __init__(self, seed):
    import random as _random
    self.r = _random.Random(seed * 7919 + 13)
    cfg = {'init': [0, 1, 2, 3], 'min_size': 1, 'max_size': 3, 'min_load': 0.5, 'max_load': 2.0, 'failfast': False}
    self.members = set(cfg['init'])
    self.w = W.World(cfg, _random.Random(seed * 31 + 7))
    self.w.open_ar = self.w.sink.Open()
    self.w.settle()
    self.errors = []

  def step(self):
    w, r = self.w, self.r
    W.CUR[0] = w
    w.cause = 'expand'
    k = r.random()
    try:
      if k < 0.4:
        w.clock.now += r.choice([0.5, 3.0, 10.0])
        w.dispatch(False)
      elif k < 0.65 and w.outstanding:
        ch, st = w.outstanding.pop(r.randrange(len(w.outstanding)))
        ch.held.remove(st)
        st.AsyncProcessResponseMessage(W.S['MethodReturnMessage']())
      elif k < 0.85 and w.opening:
        ch = w.opening.pop(0)
        ch.state = 2
        ch.open_ar.set(True)
      elif k < 0.92:
        ep = r.randrange(5)
        self.members.discard(ep)
        w.provider.on_leave(W.Server(W.ep_of(ep)))
      else:
        ep = r.randrange(5)
        self.members.add(ep)
        w.cause = 'join'
        w.provider.on_join(W.Server(W.ep_of(ep)))
    except Exception as e:
      self.errors.append('%s: %s' % (type(e).__name__, e))
    w.settle()
    w.take_events()
    self.errors += w.errors
    w.errors = []

  def finish(self):
    ints = self.w.internals()
    return {'heap': sorted(x[0] for x in ints['heap']) if 'heap' in ints else None, 'idle': ints.get('idle'),
            'members': sorted(self.members), 'errors': self.errors[:3]}


# ---------------------------------------------------------------------------------------------
# monitor: the property statement, checked on what the implementation did (independent of the Coq model)
# ---------------------------------------------------------------------------------------------
def _snapinfo(e):
  return e[-1] if isinstance(e[-1], dict) else {}


_HOOK_END = {'down-end': 'down', 'onget-end': 'onget', 'onput-end': 'onput'}


def _segments(op, events):
  """Splits the event trace of one op into hook segments (kind, head-event, [own events]); hooks can be nested (a member
  channel that completes requests inside Close() re-enters the sink), a nested hook's events are its own, and what
  follows its end belongs to the enclosing hook / op again.  Segments are listed in the order in which they start."""
  segs = []
  top = ['op:' + op, None, []]
  segs.append(top)
  stack = [top]
  for e in events:
    if e[0] in ('down', 'onget', 'onput'):
      seg = [e[0], e, []]
      segs.append(seg)
      stack.append(seg)
    elif e[0] in _HOOK_END:
      if len(stack) > 1:
        stack.pop()
    elif e[0] == 'jitter-start':
      seg = ['jitter-start', e, []]      # op level (no end marker): the part of _Jitter that runs in this op
      segs.append(seg)
      stack[0] = seg
      if len(stack) == 1:
        top = seg
    else:
      stack[-1][2].append(e)
  return segs


def monitor(case, obs):
  v = []
  cfg = case['config']
  mn_size, mx_size = cfg['min_size'], cfg['max_size']
  lo, hi = Fraction(cfg['min_load']), Fraction(cfg['max_load'])
  band_ok = lo < hi

  def add(sig, msg):
    if not any(s == sig for s, _ in v):
      v.append((sig, msg))

  def partition(tag, snap):
    act = [a[0] for a in snap['active']]
    idle = snap['idle']
    mem = set(snap['members'])
    if len(act) != len(set(act)):
      add('member-active-twice', '%s: active %s' % (tag, act))
    if idle is None:
      g = snap['gauges']
      if g.get('active') is not None and g.get('idle') is not None and g['active'] + g['idle'] != len(mem):
        add('partition-count', '%s: gauges active=%s idle=%s members=%d' % (tag, g['active'], g['idle'], len(mem)))
      return
    both = set(act) & set(idle)
    if both:
      add('member-active-and-idle', '%s: %s are both active and idle' % (tag, sorted(both)))
    lost = mem - set(act) - set(idle)
    if lost:
      add('member-neither-active-nor-idle', '%s: members %s are in neither set (active %s idle %s)' % (tag, sorted(lost), act, idle))
    ghost = (set(act) | set(idle)) - mem
    if ghost:
      add('non-member-in-aperture', '%s: %s are not members (members %s)' % (tag, sorted(ghost), sorted(mem)))
    if snap['heap'] is not None and snap['heap'] != sorted(act):
      add('heap-differs-from-addremove-trace', '%s: heap %s vs trace %s' % (tag, snap['heap'], sorted(act)))

  prev = obs['init']['snap']
  partition('after open', prev)
  # independent account of the smoothed load: the harness' own count of requests it handed to the sink and has not
  # completed yet (NOT derived from the _OnGet/_OnPut hooks), and an EMA of it with the documented 5 s window sampled at
  # the same virtual instants (monotonic clock)
  import math
  t0 = [(_snapinfo(e).get('t')) for e in obs['init']['events'] if _snapinfo(e).get('t') is not None]
  indep = {'v': None, 't': t0[0] if t0 else 1000.0}     # the monotonic clock starts when the sink is built
  jit_on = [False]       # a jitter round is between its expansion and its end
  for i, (op, st) in enumerate(zip(case['ops'], obs['steps'])):
    tag = 'op %d %s' % (i, op['op'])
    snap = st['snap']
    if 'exc' in st:
      add('exception-escaped', '%s raised %s: %s' % (tag, st['exc'], st.get('exc_msg')))
    if st.get('errors'):
      add('exception-escaped', '%s: greenlet/callback error %s' % (tag, st['errors'][:2]))
    partition(tag, snap)
    members_n = len(snap['members'])
    # running view of the active set during the op (external: add/remove trace; channel states from the event snapshots)
    cur = [[a[0], a[2]] for a in prev['active']]
    leaving = [op['ep'] if op['op'] == 'leave' else None]
    first_get = [op['op'] == 'get']

    def mk_ctx(kind, head):
      info = _snapinfo(head) if head is not None else {}
      cs = info.get('cs')
      ctx = {'kind': kind, 'head': head, 'size_before': len(cur), 'healthy_before': None, 'idle_before': info.get('i'),
             'ext_pending': info.get('xo'), 'grew': 0, 'shrank': 0, 'avg': None, 'outstanding': None, 'jit': jit_on[0]}
      if cs is not None:
        ctx['healthy_before'] = sum(1 for _e, cid in cur if cid is not None and cs[cid] != 4)
      if kind == 'onget':
        if first_get[0]:
          first_get[0] = False
          if st.get('endpoint') is not None and st['endpoint'] not in [c[0] for c in cur]:
            add('traffic-to-inactive-member', '%s: request sent to %s, active %s' % (tag, st['endpoint'], [c[0] for c in cur]))
        if info.get('out') is not None:
          ctx['outstanding'] = info['out'] + 1 + in_dispatch()   # the request being dispatched is not yet held by the member channel
      elif kind == 'onput' and info.get('out') is not None:
        ctx['outstanding'] = info['out'] + in_dispatch()   # the request was taken off the books before it was completed
      return ctx

    def in_dispatch():
      # requests whose dispatch is in progress further up the call stack (we are inside a Close() called from their _OnGet)
      return sum(1 for c in stack if c['kind'] == 'onget')

    def handle(e, ctx):
      kind, head, size_before = ctx['kind'], ctx['head'], ctx['size_before']
      outstanding = ctx['outstanding']
      if e[0] == 'ema':
        avg = ctx['avg'] = e[4]
        pv, sample = e[1], e[2]
        if outstanding is not None:
          if sample != outstanding:
            add('smoothed-sample-not-outstanding', '%s: the EMA was fed %r but %d requests are outstanding' % (tag, sample, outstanding))
          t = _snapinfo(e).get('t')
          if t is not None:
            t = max(t, indep['t'])
            if indep['v'] is None:
              indep['v'] = float(outstanding)
              indep['t'] = t
            else:
              wgt = math.exp(-(t - indep['t']) / 5.0)
              indep['v'] = outstanding * (1 - wgt) + indep['v'] * wgt
              indep['t'] = t
            if abs(avg - indep['v']) > 1e-9 * (1 + abs(indep['v'])):
              add('smoothed-load-not-ema-of-outstanding', '%s: the sink smoothed load is %r, an independent 5 s EMA of the real outstanding count (%d now) gives %r'
                  % (tag, avg, outstanding, indep['v']))
        if pv is not None:
          a, b = min(pv, sample), max(pv, sample)
          if not (a - 1e-9 * (1 + abs(a)) <= avg <= b + 1e-9 * (1 + abs(b))):
            add('ema-outside-sample-range', '%s: ema %r not between previous %r and sample %r' % (tag, avg, pv, sample))
      elif e[0] == 'add':
        cur.append([e[1], None])
        ctx['grew'] += 1
        grew = ctx['grew']
        if kind in ('onget', 'onput') and size_before + grew - 1 >= mx_size:
          add('load-growth-beyond-max-size', '%s: load-driven expansion at size %d with max_size %d' % (tag, size_before + grew - 1, mx_size))
        if kind == 'down' and head[2] == 1:
          # the member the heap found "down" is merely still connecting (channel Idle): no failure, no departure,
          # and not the load rule either -> this growth is not exempt from max_size and has no reason at all
          add('growth-for-connecting-member', '%s: expansion to %s because member %s is still connecting (channel Idle), no failure and no load rule'
              % (tag, e[1], head[1]))
          if size_before + grew - 1 >= mx_size:
            add('load-growth-beyond-max-size', '%s: expansion at size %d with max_size %d while serving a request, no member failed (member %s is only still connecting)'
                % (tag, size_before + grew - 1, mx_size, head[1]))
      elif e[0] == 'create':
        for c in cur:
          if c[0] == e[2] and c[1] is None:
            c[1] = e[1]
            break
      elif e[0] == 'remove' and e[2]:
        for j, c in enumerate(cur):
          if c[0] == e[1]:
            del cur[j]
            break
        if e[1] == leaving[0] and kind.startswith('op:'):
          leaving[0] = None      # the departure itself, not a contraction
        else:
          ctx['shrank'] += 1
          if len(cur) < min(mn_size, members_n):
            add('contraction-below-min-size', '%s: contraction left %d active, min_size %d, members %d' % (tag, len(cur), mn_size, members_n))

    def finish(ctx):
      kind, avg, size_before = ctx['kind'], ctx['avg'], ctx['size_before']
      grew, shrank, idle_before = ctx['grew'], ctx['shrank'], ctx['idle_before']
      healthy_before, ext_pending = ctx['healthy_before'], ctx['ext_pending']
      if kind in ('onget', 'onput') and avg is not None and size_before > 0 and band_ok and idle_before is not None:
        load = Fraction(avg) / size_before
        f = avg / size_before
        tie = ((f >= cfg['max_load']) != (load >= hi)) or ((f <= cfg['min_load']) != (load <= lo))
        if not tie:
          up = load >= hi and bool(idle_before) and size_before < mx_size
          if up and not grew:
            add('no-growth-at-max-load', '%s: load %s >= %s, idle %s, size %d < max %d but no expansion' % (tag, float(load), cfg['max_load'], idle_before, size_before, mx_size))
          if grew and load < hi:
            add('growth-below-max-load', '%s: expansion at load %s < max_load %s' % (tag, float(load), cfg['max_load']))
          if shrank and load > lo:
            add('shrink-above-min-load', '%s: contraction at load %s > min_load %s' % (tag, float(load), cfg['min_load']))
          # (a jitter round in progress keeps its endpoint marked pending until the round ends: same exemption)
          down = (not up and load <= lo and healthy_before is not None and healthy_before > mn_size
                  and ext_pending is not None and not ext_pending and load < hi and not ctx['jit'])
          if down and not shrank:
            add('no-shrink-at-min-load', '%s: load %s <= %s, healthy %d > min_size %d, no open in progress but no contraction' % (tag, float(load), cfg['min_load'], healthy_before, mn_size))

    stack = []
    stack.append(mk_ctx('op:' + op['op'], None))
    for e in st['events']:
      if e[0] in ('down', 'onget', 'onput'):
        stack.append(mk_ctx(e[0], e))
      elif e[0] in _HOOK_END:
        if len(stack) > 1:
          finish(stack.pop())
      elif e[0] == 'jitter-start':
        jit_on[0] = True
      else:
        if e[0] == 'schedule':
          jit_on[0] = False
        handle(e, stack[-1])
    while stack:
      finish(stack.pop())
    prev = snap
  tw = obs.get('twin')
  if tw:
    if tw.get('errors'):
      add('exception-escaped', 'second sink in the same process: %s' % tw['errors'])
    if tw.get('heap') is not None and tw.get('idle') is not None:
      h, i, m = tw['heap'], tw['idle'], set(tw['members'])
      if len(h) != len(set(h)) or set(h) & set(i) or (set(h) | set(i)) != m:
        add('second-instance-partition-broken', 'second sink in the same process: active %s idle %s members %s' % (h, i, sorted(m)))
  return v


# ---------------------------------------------------------------------------------------------
# trace -> model labels
# ---------------------------------------------------------------------------------------------
def _q(x):
  fr = Fraction(x)
  return '(Qmake (%d)%%Z %d%%positive)' % (fr.numerator, fr.denominator)


def _oz(x):
  return 'None' if x is None else '(Some (%d)%%Z)' % x


class _TieSkip(Exception):
  pass


def labels(case, obs):
  """Per harness op: list of (kind, coq-term) micro labels, derived from the recorded trace only.

  Hooks can be nested (a member channel whose Close() completes its in-flight requests inline re-enters the sink from
  inside heap._RemoveSink): the label of the enclosing hook is emitted when the nested hook starts - everything the
  enclosing hook does happens before it calls Close() - and a departure is two labels, LLeave at the start of the op and
  LReplace at its end, with the nested labels in between."""
  cfg = case['config']
  shadow = {'pending': set(), 'jit': None, 'jit_done': False}
  out = []

  def walk(opname, op, st, events):
    labs = []
    stack = []                                  # open hook segments, innermost last
    top0 = {'kind': None, 'after': []}          # what the op itself does outside any hook (depth 0)
    if opname == 'leave':
      top0 = {'kind': 'leave', 'after': [], 'emitted': False, 'removed': None}

    def emit(seg):
      if seg.get('emitted'):
        return
      seg['emitted'] = True
      k = seg['kind']
      if k == 'down':
        labs.append(('nodedown', 'LNodeDown (%d)%%Z (%d)%%Z %s' % (seg['ep'], seg['st'], _oz(seg.get('ch')))))
      elif k == 'adjust':
        if 'avg' not in seg:
          raise ValueError('adjust hook without Ema.Update')
        labs.append(('adjust', 'LAdjust (%d)%%Z (%d)%%Z %s %s %s %s' % (
            seg['amount'], seg['sample'], _q(seg['w']), _q(seg['avg']), _oz(seg.get('ch')), _oz(seg.get('victim')))))
      elif k == 'jstart':
        labs.append(('jitterstart', 'LJitterStart %s' % _oz(seg.get('ch'))))
        shadow['jit'] = seg.get('ch')
        shadow['jit_done'] = False
      elif k == 'leave':
        if seg['removed']:
          labs.append(('replace', 'LReplace (%d)%%Z %s' % (op['ep'], _oz(seg.get('ch')))))
      labs.extend(seg['after'])
      seg['after'] = []

    def current():
      return stack[-1] if stack else top0

    def close_top0():
      """The op-level pseudo segment of a jitter start ends as soon as anything else happens."""
      nonlocal top0
      if top0['kind'] == 'jstart':
        emit(top0)
        top0 = {'kind': None, 'after': []}

    for e in events:
      info = _snapinfo(e)
      k = e[0]
      p = info.get('p')
      if p is not None:
        gone = set(shadow['pending']) - set(p)
        # The endpoint a running _Jitter waits on is discarded by _Jitter's own `finally`; that discard is first visible
        # at the randint/Schedule of _ScheduleNextJitter which follow it in the same greenlet and is emitted there.
        # Seen anywhere else, the mark was removed by a completion callback of an OLDER expansion of the same endpoint
        # (stale pending mark, endpoint went back to idle and was picked again).  Both are LOpenDone labels.
        jit_final = (k == 'schedule') or (k == 'randint' and e[1] == cfg.get('jitter_min') and e[1] != 1)
        if jit_final:
          gone.discard(shadow.get('jit'))
          if top0['kind'] == 'jstart':
            gone.discard(top0.get('ch'))
        gone = sorted(gone)
        if gone:
          if stack:
            emit(stack[-1])
          close_top0()
          for g in gone:
            labs.append(('opendone', 'LOpenDone (%d)%%Z' % g))
            shadow['pending'].discard(g)
      if k in ('down', 'onget', 'onput'):
        if stack:
          emit(stack[-1])                       # the enclosing hook has done its part (we are inside its Close())
        close_top0()
        if k == 'down':
          stack.append({'kind': 'down', 'ep': e[1], 'st': e[2], 'after': []})
        else:
          stack.append({'kind': 'adjust', 'amount': 1 if k == 'onget' else -1, 'after': []})
      elif k in _HOOK_END:
        if not stack:
          raise ValueError('unbalanced hook end %r' % (e[:-1],))
        emit(stack.pop())
      elif k == 'jitter-start':
        close_top0()
        top0 = {'kind': 'jstart', 'after': []}
      elif k == 'sync-end':
        if top0['kind'] == 'leave':
          emit(top0)                            # the departure (incl. its replacement) is complete when on_leave returns
      elif k == 'ema':
        cur = current()
        if cur['kind'] != 'adjust':
          raise ValueError('Ema.Update outside an adjust hook')
        cur['sample'] = e[2]
        cur['w'] = 0 if e[3] is None else e[3]
        cur['avg'] = e[4]
        cur['size'] = info.get('n')
      elif k == 'choice':
        cur = current()
        if cur['kind'] is None or cur.get('emitted'):
          raise ValueError('random.choice outside any hook: %r' % (e[:-1],))
        cur['ch'] = e[2]
        shadow['pending'].add(e[2])
      elif k == 'chanstate':
        lab = ('chan', 'LChan (%d)%%Z (%d)%%Z' % (e[2], e[3]))
        cur = current()
        if cur['kind'] is None or cur.get('emitted'):
          labs.append(lab)                      # the member was added by a label that is already out (join, init)
        else:
          cur['after'].append(lab)              # after the label of the hook that is adding the member
      elif k == 'remove':
        cur = current()
        if cur['kind'] == 'adjust' and not cur.get('emitted'):
          if e[2]:
            cur['victim'] = e[1]
        elif cur['kind'] == 'leave' and cur['removed'] is None:
          cur['removed'] = bool(e[2])           # heap._RemoveSink(ep) of the departure itself
        elif not stack:
          close_top0()
          if e[2]:                              # _ContractAperture(True) of a jitter round
            labs.append(('jitterdone', 'LJitterDone false (Some (%d)%%Z)' % e[1]))
            shadow['jit_done'] = True
        else:
          raise ValueError('heap._RemoveSink inside %r' % (cur['kind'],))
      elif k == 'schedule':
        close_top0()
        if shadow.get('jit') is not None:
          if not shadow['jit_done']:
            labs.append(('jitterdone', 'LJitterDone false None'))
          labs.append(('opendone', 'LOpenDone (%d)%%Z' % shadow['jit']))      # finally: pending.discard(endpoint)
          shadow['pending'].discard(shadow['jit'])
          shadow['jit'] = None
          shadow['jit_done'] = False
    while stack:
      emit(stack.pop())
    if top0['kind'] is not None:
      emit(top0)
    return labs

  # initial server list: __AddServer in shuffled order
  init_labs = []
  order = None
  for e in obs['init']['events']:
    if e[0] == 'shuffle':
      order = e[1]
  for ep in (order or []):
    init_labs.append(('join', 'LJoin (%d)%%Z' % ep))
  init_labs += walk('init', None, None, [e for e in obs['init']['events'] if e[0] != 'schedule'])
  fin = obs['init']['snap'].get('pending')
  if fin is not None:
    for g in sorted(shadow['pending'] - set(fin)):
      init_labs.append(('opendone', 'LOpenDone (%d)%%Z' % g))
      shadow['pending'].discard(g)
  out.append(init_labs)
  for op, st in zip(case['ops'], obs['steps']):
    k = op['op']
    labs = []
    if 'skip' not in st:
      if k == 'join':
        labs.append(('join', 'LJoin (%d)%%Z' % op['ep']))
      elif k == 'leave':
        labs.append(('leave', 'LLeave (%d)%%Z' % op['ep']))
      elif k == 'chan':
        labs.append(('chan', 'LChan (%d)%%Z (%d)%%Z' % (op['ep'], op['st'])))
      elif k == 'opendone' and st.get('current'):
        labs.append(('chan', 'LChan (%d)%%Z (%d)%%Z' % (st['ep'], op['st'])))
    labs += walk(k, op, st, st['events'])
    # discards that happened after the last traced event of the op
    fin = st['snap'].get('pending')
    if fin is not None:
      # (a jitter endpoint still set here means _Jitter is still waiting: its mark can only have been removed by a callback)
      for g in sorted(shadow['pending'] - set(fin)):
        labs.append(('opendone', 'LOpenDone (%d)%%Z' % g))
        shadow['pending'].discard(g)
    out.append(labs)
  return out


def _obs_term(snap):
  act = C.lst(['((%d)%%Z, (%d)%%Z)' % (a[0], a[1] if a[1] is not None else 0) for a in snap['active']])
  return '{| o_active := %s; o_idle := %s; o_pending := %s; o_total := (%d)%%Z |}' % (
      act, C.zlist(snap['idle'] or []), C.zlist(snap['pending'] or []), snap['outstanding'])


def _ties(case, obs):
  cfg = case['config']
  lo, hi = Fraction(cfg['min_load']), Fraction(cfg['max_load'])
  n = 0
  for st in obs['steps']:
    for e in st['events']:
      if e[0] == 'ema':
        size = _snapinfo(e).get('n')
        if size:
          load = Fraction(e[4]) / size
          f = e[4] / size
          if ((f >= cfg['max_load']) != (load >= hi)) or ((f <= cfg['min_load']) != (load <= lo)):
            n += 1
  return n


def to_coq(case, obs):
  if obs['init']['snap'].get('idle') is None or obs['init']['snap'].get('pending') is None:
    raise ValueError('private sets not readable: %r' % (obs['init']['snap'],))
  if _ties(case, obs):
    return None
  cfg = case['config']
  labs = labels(case, obs)
  snaps = [obs['init']['snap']] + [st['snap'] for st in obs['steps']]
  steps = []
  for ls, sn in zip(labs, snaps):
    steps.append('(%s, %s)' % (C.lst([t for _k, t in ls]), _obs_term(sn)))
  c = '{| min_size := (%d)%%Z; max_size := (%d)%%Z; min_load := %s; max_load := %s |}' % (
      cfg['min_size'], cfg['max_size'], _q(cfg['min_load']), _q(cfg['max_load']))
  return '{| c_cfg := %s; c_steps := %s |}' % (c, C.lst(steps))


# ---------------------------------------------------------------------------------------------
# evidence helpers
# ---------------------------------------------------------------------------------------------
def _load_driven(case, obs):
  up = down = 0
  for op, st in zip(case['ops'], obs.get('steps', [])):
    for kind, _h, evs in _segments(op['op'], st['events']):
      if kind in ('onget', 'onput'):
        up += sum(1 for e in evs if e[0] == 'add')
        down += sum(1 for e in evs if e[0] == 'remove' and e[2])
  return up, down


def nontrivial(case, obs):
  if 'steps' not in obs:
    return False
  up, down = _load_driven(case, obs)
  return up + down > 0


def describe(case, obs):
  o = {'init': obs.get('init', {}).get('snap'), 'final': obs['steps'][-1]['snap'] if obs.get('steps') else None,
       'load_driven_up_down': _load_driven(case, obs) if 'steps' in obs else None}
  c = dict(case)
  c['ops'] = case['ops'][:12] + ([{'more': len(case['ops']) - 12}] if len(case['ops']) > 12 else [])
  return {'case': c, 'obs': o}


def _branch_tags(case, obs):
  """Which branch of the code/model each hook took, from the trace (for the coverage histogram)."""
  cfg = case['config']
  lo, hi = Fraction(cfg['min_load']), Fraction(cfg['max_load'])
  tags = []
  for e in obs['init']['events']:
    if e[0] == 'shuffle':
      tags += ['join:initial'] * len(e[1])
  prev = obs['init']['snap']
  for op, st in zip(case['ops'], obs['steps']):
    k = op['op']
    if 'skip' in st:
      tags.append('skip:' + st['skip'])
      prev = st['snap']
      continue
    evs = st['events']
    depth = 0
    for e in evs:
      if e[0] in ('down', 'onget', 'onput'):
        if depth > 0:
          tags.append('reentrant:%s-inside-hook' % e[0])
        elif k == 'leave':
          tags.append('reentrant:%s-inside-departure' % e[0])
        elif k in ('opendone', 'jitter') and e[0] == 'onput':
          tags.append('reentrant:onput-inside-jitter-contraction')
        depth += 1
      elif e[0] in _HOOK_END:
        depth -= 1
      elif e[0] == 'redispatch':
        tags.append('reentrant:caller-dispatches-from-completion')
      elif e[0] == 'chanstate':
        tags.append('open:completed-inside-Open-%s' % ('ok' if e[3] == 2 else 'failed'))
    if st.get('deferred'):
      tags.append('get:while-sink-open-pending')
    if k == 'join':
      if op['ep'] in prev['members']:
        tags.append('join:duplicate')
      elif any(e[0] == 'add' for e in evs):
        tags.append('join:to-active')
      else:
        tags.append('join:to-idle')
    elif k == 'leave':
      rem = [e for e in evs if e[0] == 'remove']
      if rem and rem[0][2]:
        tags.append('leave:active-replaced' if any(e[0] == 'add' for e in evs) else 'leave:active-no-idle')
      elif op['ep'] in (prev['idle'] or []):
        tags.append('leave:idle')
      else:
        tags.append('leave:unknown')
      if op['ep'] in (prev['pending'] or []):
        tags.append('leave:pending-member')
    elif k == 'get' and st.get('resp') == 'NoMembersError':
      tags.append('get:no-members')
    for kind, head, sevs in _segments(k, evs):
      info = _snapinfo(head) if head is not None else {}
      grew = any(e[0] == 'add' for e in sevs)
      rem = [e for e in sevs if e[0] == 'remove' and e[2]]
      if kind == 'down':
        tags.append('nodedown:idle-state' if head[2] == 1 else ('nodedown:expand' if grew else 'nodedown:no-idle'))
        if head[1] not in [a[0] for a in prev['active']] and not any(e[0] == 'add' and e[1] == head[1] for e in evs):
          tags.append('nodedown:detached-node')
      elif kind in ('onget', 'onput'):
        ema = [e for e in sevs if e[0] == 'ema']
        if not ema:
          continue
        avg = ema[0][4]
        size = info.get('n') or 0
        idle = info.get('i') or []
        pend = info.get('p') or []
        if ema[0][1] is None:
          tags.append('ema:first-sample')
        elif ema[0][3] == 1.0:
          tags.append('ema:zero-dt')
        if grew:
          tags.append('adjust:expand' + (':size0' if size == 0 else ''))
        elif rem:
          vict = rem[0][1]
          cs = info.get('cs') or []
          act = info.get('a') or []
          vst = [a[1] for a in act if a[0] == vict]
          tags.append('adjust:contract' + (':closed-victim' if vst and vst[0] == 4 else ''))
        else:
          if size == 0:
            tags.append('adjust:none:size0-no-idle-or-max0')
            continue
          load = Fraction(avg) / size
          if load >= hi and idle and size < cfg['max_size']:
            tags.append('adjust:none:UNEXPECTED-up')
          elif load >= hi and not (load <= lo and size > cfg['min_size']):
            tags.append('adjust:none:up-no-idle' if not idle else 'adjust:none:up-at-max-size')
          elif load <= lo:
            if size <= cfg['min_size']:
              tags.append('adjust:none:down-at-min-size')
            elif pend:
              tags.append('adjust:none:down-blocked-pending')
            else:
              tags.append('adjust:none:down-unhealthy')
          else:
            tags.append('adjust:none:in-band')
      elif kind == 'jitter-start':
        tags.append('jitter:start' if grew else 'jitter:start-no-idle')
        if rem:
          tags.append('jitter:done-contract')
    if k in ('opendone',) and not any(e[0] == 'jitter-start' for e in evs):
      if any(e[0] == 'remove' and e[2] for e in evs):
        tags.append('jitter:done-contract')
      elif any(e[0] == 'schedule' for e in evs):
        tags.append('jitter:done-no-contract')
  return tags


def stats(cases, obs):
  import collections
  lab = collections.Counter()
  br = collections.Counter()
  ties = 0
  ops = 0
  up = down = 0
  for c, o in zip(cases, obs):
    if not isinstance(o, dict) or 'steps' not in o:
      continue
    ops += len(c['ops'])
    try:
      ties += 1 if _ties(c, o) else 0
      for ls in labels(c, o):
        for k, _t in ls:
          lab[k] += 1
      for t in _branch_tags(c, o):
        br[t] += 1
      u, d = _load_driven(c, o)
      up += u
      down += d
    except Exception as e:
      br['stats-error:' + type(e).__name__] += 1
  dims = collections.Counter()
  for c in cases:
    for kx in ('close_inline', 'sync_open', 'twin', 'smoothing_window', 'jitter_min'):
      if c['config'].get(kx):
        dims[kx] += 1
    if c['config'].get('max_size') == 0:
      dims['max_size=0'] += 1
    if c['config'].get('min_size') == 0:
      dims['min_size=0'] += 1
  return {'ops': ops, 'config_dimensions': dict(dims), 'model_labels': dict(lab), 'branch_histogram': dict(sorted(br.items())), 'tie_skipped_cases': ties,
          'load_driven_expansions': up, 'load_driven_contractions': down,
          'model_branches_not_producible_by_the_implementation': ['LJitterDone exn=true (ar.exception is never set when collaborators do not raise)',
                                                                  'Crash (KeyError in self._servers[new_endpoint]; excluded by C06_no_crash)']}
