"""C04 - Per-member load is conserved; removed members drain, then close.

Shares the driver, the Coq model (coq/Model/Balancer.v) and the lock-step correspondence with C03
(harness/c03_balancer_driver.py); histories are biased to join/leave churn of loaded, idle and marked-down
members and to completions of every kind (reply, error message, time-out, connection fault = every request of a
channel fails, direct second invocation of the pushed context).  Monitor: reference counter per member
(dispatched - completed), 'below Zero' warning, and a close-timing oracle over the Close() calls of the mock
channels (at once iff idle or marked down, else at the last completion, exactly once, never for a member).
"""
from .. import common as C
from .. import c03_balancer_driver as D

PID = 'C04'
PROPS_FILE = 'Props/C04.v'
COQ_HEADER = 'From Scales Require Import Model.Heap Model.Balancer.'
COQ_CASE_TYPE = 'Balancer.case'
COQ_CHECK = 'Balancer.check_case'
COQ_EXPLAIN = 'Balancer.explain_case'
SHARD = 40
WORKERS = 6
RULE = ('audit additions: a second, independent balancer instance working in the same process (20%); channels that fail a request INLINE inside AsyncProcessRequest when closed (25%, recorded as Dispatch then Complete) with callers that retry from inside their failure handler (also on NoMembersError); callers whose handler raises a BaseException; channels whose Open() fails (every n-th, asynchronously reported) or raises synchronously during a join; the caller of a request failed inside Close() retrying from inside it; initial channel state Busy; (thorough) 2% histories of 600-1200 operations; real-aperture histories record hub continuations as steps of their own; 30% with channels whose Close() fails in-flight requests synchronously, 30% with leaves whose Close() raises; 20% of the histories run (monitor only) on a REAL ApertureBalancerSink (as in C03/C05; half with slow-opening channels, i.e. the continuations of Open() only run at the next notification so that several expansions fall into one open) with the C04 oracles on the mock channels: no request to the channel of a departed member, every channel of a departing member closed at once iff idle or marked down else by its last completion, the channel of a current member closed only when it left the aperture idle or marked down, never twice; 15% (monitor only) build the member channels with the real SharedSinkProvider/RefCountedSink around the mock channel (leave with requests in flight, re-join, leave again, drain): the shared connection is never closed while a request dispatched to it is outstanding and is closed once the endpoint departed and drained; 70% with fresh endpoint objects per notification; about 40% of the completions end with the frame above the balancer RAISING from its handler (the harness catches it where the transport greenlet would; the release must already have run) or issuing a follow-up request re-entrantly from inside its handler (recorded as Complete then Dispatch: the completed request must already be released); in 65% of the histories the real scales.sink.ClientTimeoutSink sits in front of the balancer (requests carry a deadline; scales.sink.GLOBAL_TIMER_QUEUE is a stub whose recorded action is run by a timeout completion, i.e. _TimeoutHelper itself completes the call); 15% use a provider with endpoint_name; seeded random histories over 1-12 members (+ up to 3 spare endpoints), 20-200 relative operations from phase profiles '
        'load-up / drain / churn (join+leave heavy) / flap / steady; completions by reply, error, time-out, fault (all requests '
        'of a channel), direct context call; second completions through a drained stack and through the context; removals of '
        'idle, loaded and marked-down members and re-joins of the same endpoint; 15% on ApertureBalancerSink with all members '
        'active; non-trivial = at least 3 requests dispatched; distinct by canonical JSON of (case, observation)')
TRUSTED = ['stub timer queue of the driver (records the action scheduled by ClientTimeoutSink, returns a cancel closure)', 'mock channel sinks (Close() recorded) / server-set provider / scripted random of harness/c03_balancer_driver.py',
           'the real ClientMessageSinkStack carries every completion to the balancer (sink.py)',
           'reference counters and close-timing oracle of the monitor (analyse) in the same file']
ASSUMPTIONS = ['the model sees a completion as "the context pushed by the balancer is invoked"; that every completion path (reply, '
               'error, time-out, fault) pops the sink stack down to the balancer is exercised with the real ClientMessageSinkStack, '
               'the sinks above/below it are C01/C02/C08 territory',
               'fewer than 2^31-1 requests outstanding per member (close-at-leave tests load >= 0 for "marked down")',
               '"marked down" is observed by the monitor through the balancer\'s log records (Marking node ... down/up)']

MANIFEST = {
    'text': ('Theorems C04_conservation, C04_never_below_zero, C04_release_idempotent, C04_removed_gets_nothing, C04_close_at_leave, '
             'C04_close_at_completion, C04_close_only_at_leave_or_completion hold for every label sequence of the Gallina transcription '
             'of HeapBalancerSink: the load field of every node (member or departed) is Idle + dispatched - completed (+ Penalty while '
             'marked down), never below Idle; a departed node never receives a request again and is closed at once iff idle or marked '
             'down, else by its last completion; the transcription runs in lock step with the real class on every generated history.'),
    'note': ('Trusted: Coq kernel; harness/c03_balancer_driver.py (mocks, label recording); completions reach the balancer through the '
             'sink stack (exercised, not proved); < 2^31-1 outstanding requests per member.'),
    'technique': 'Coq proof (accounting invariant by induction over all histories) + lock-step differential execution + reference-counter / close-timing monitor',
    'design_ref': 'DESIGN.md section 5, C04',
}

setup = D.setup
run_impl = D.run_impl
to_coq = D.to_coq
monitor = D.monitor_for(PID)
nontrivial = D.nontrivial
describe = D.describe
stats = D.stats


def gen_cases(tier, seed):
  return D.gen_cases(PID, tier, seed, 600, 5000)


def search_cases(tier, seed, diverging):
  return D.search_cases(PID, tier, seed, diverging)
