"""C20 - Generated proxies and URI parsing are faithful for every interface.

Implementation under test (imported from $SCALES_REPO as it is now):
  scales.core.ClientProxyBuilder.CreateServiceClient / _BuildServiceProxy / _ProxyBase
  scales.core.ScalesUriParser.Parse (-> StaticServerSetProvider / ZooKeeperServerSetProvider)
  scales.dispatch.MessageDispatcher.DispatchMethodCall (in the 'real' dispatcher cases)
Model: coq/Model/Proxy.v, coq/Model/Uri.v (case type in coq/Model/ProxyUri.v).
Monitor: the property statement, written directly in Python from the case specification (no inspect,
no urlparse, no model).

Proxy cases: an interface is a small class hierarchy built with type() from a JSON specification; the
generated client is instantiated around a recording dispatcher and every name of interest is looked up
and, when it is a generated method, invoked ('ops').  URI cases: rendered endpoint lists, zk URIs (with a
recording stand-in for KazooClient, so nothing connects), foreign schemes and mutated/malformed URIs.
"""
import functools
import re
import sys
import types

from .. import common as C

PID = 'C20'
PROPS_FILE = 'Props/C20.v'
COQ_HEADER = 'From Coq Require Import String ZArith List.\nFrom Scales Require Import Model.Proxy Model.Uri Model.ProxyUri.\nImport ListNotations.\nLocal Open Scope string_scope.'
COQ_CASE_TYPE = 'ProxyUri.case'
COQ_CHECK = 'ProxyUri.check_case'
COQ_EXPLAIN = 'ProxyUri.explain_case'
SHARD = 100
WORKERS = 4
RULE = ('seeded generator. Proxy cases: 1-4 classes built with type() (single/multiple inheritance, overrides), members '
        'of 12 kinds (def, async def, lambda, staticmethod, classmethod, foreign bound method, property, data, builtin, '
        'partial, callable instance, nested class) with names plain/_x/x_/__x/x__/__x__/_/__/___/non-ASCII, aliases whose '
        '__name__ differs from the attribute (incl. __init__ = helper), deliberate foo/foo_async collisions, reserved names '
        '(_dispatcher, DispatcherOpen/Close), signatures with defaults, *args, **kwargs, keyword-only and positional-only '
        'parameters; every resolved attribute, its _async and some _async_async/absent names are looked up and every '
        'generated method is invoked with 0-4 positional and 0-3 keyword arguments (identity-tracked values; keyword names '
        'include timeout/method/args/kwargs) against a dispatcher that raises, or returns a pending result settled with a '
        'value or an error (stub result object or the real scales AsyncResult), or against the real MessageDispatcher over '
        'a recording sink whose Open() is complete before the calls, completes after all calls were issued (deferred '
        'dispatch, with and without a call timeout; blocking forms run in greenlets), completes after the calls\' deadline '
        'or never (the call\'s error is then its TimeoutError). URI cases: tcp URIs rendered from 1-20 (sometimes 60) endpoints (dotted names, IPv4, odd hosts, '
        'ports 0..10^20, scheme case variants), zk URIs (hosts with/without ports, path, optional #name, optional query), '
        'foreign schemes, and mutated/malformed URIs (missing/extra colons, signs, underscores and blanks in ports, '
        'brackets, leading blanks, tabs, non-ASCII). non-trivial = a proxy case with at least one forwarded call, or a URI '
        'that was accepted; distinct by canonical JSON of (case, observation)')
TRUSTED = ['the case specification -> class construction in harness/props/c20.py (type(), exec of generated def statements)',
           'classification of a looked-up attribute by the class that owns it in type(proxy).__mro__',
           'Python class semantics (MRO, descriptor lookup), inspect.getmembers, urllib.parse.urlsplit and int() are the '
           'environment: transcribed in the model for the inputs generated here and re-compared on every run']
ASSUMPTIONS = ['ports have fewer than 4300 digits (CPython int_max_str_digits); the model of int() covers ASCII text '
               '(URIs containing non-ASCII decimal digits or blanks are checked by the monitor only)',
               'urlsplit\'s IPv6-literal validation and NFKC netloc check are environment oracles of the model '
               '(theorems hold for every oracle)',
               'a keyword argument named "self" cannot be forwarded (Python binds it to the proxy instance); '
               'an interface method named _dispatcher is hidden by the instance attribute of the same name; '
               'when an interface declares both foo and foo_async the generated async form of foo shadows the blocking '
               'form of foo_async (lemma C20_collision; DESIGN.md section 10)']

MANIFEST = {
    'text': ('Theorems C20_both_forms, C20_collision, C20_excluded, C20_tcp, C20_zk, C20_scheme hold for every interface '
             '(any member list, any names, any arguments, any dispatcher outcome) and every endpoint list / URI of the Gallina '
             'transcription of ClientProxyBuilder._BuildServiceProxy and ScalesUriParser.Parse (incl. the part of urlsplit and '
             'int() they rely on); the transcription is compared with the real code on ~1k interfaces (~25k lookups/calls) and '
             '~2.5k URIs per quick run (x10 thorough).'),
    'note': ('Specification-sized model: the weight rests on the correspondence (Python reflection, urlsplit and int() are '
             'environment). Trusted: Coq kernel, the harness and its sampling. All theorems closed under the global context.'),
    'technique': 'Coq proof (dictionary-update invariants, split/join and decimal round-trip) + differential execution model vs code',
    'design_ref': 'DESIGN.md section 5, C20; section 10 (proxy name collisions)',
}

_S = {}


# ---------------------------------------------------------------------------------------------
# setup: import the real code, build the stubs
# ---------------------------------------------------------------------------------------------
class _Pending(object):
  """Stand-in for the pending result returned by DispatchMethodCall."""

  def __init__(self, value=None, error=None):
    self.value, self.error, self.gets = value, error, 0

  def get(self, *a, **k):
    self.gets += 1
    if self.error is not None:
      raise self.error
    return self.value


class _StubDispatcher(object):
  """Records what the proxy hands over; same call signature as MessageDispatcher.DispatchMethodCall."""

  def __init__(self):
    self.calls = []
    self.next = None
    self.opened = self.closed = 0

  def Open(self):
    self.opened += 1
    return _Pending(True)

  def Close(self):
    self.closed += 1

  def DispatchMethodCall(self, method, args, kwargs, timeout=None):
    self.calls.append((method, args, kwargs, timeout))
    kind, obj = self.next
    if kind == 'raise':
      raise obj
    return obj


class _Val(object):
  __slots__ = ('i',)

  def __init__(self, i):
    self.i = i


class _Err(Exception):
  pass


class _FakeKazoo(object):
  """Recording stand-in for kazoo.client.KazooClient: nothing is resolved or connected."""
  created = []

  def __init__(self, *args, **kwargs):
    self.args, self.kwargs = args, kwargs
    self.started = self.stopped = 0
    _FakeKazoo.created.append(self)

  def start(self, *a, **k):
    self.started += 1

  def stop(self, *a, **k):
    self.stopped += 1


def setup():
  if _S:
    return
  if C.REPO not in sys.path:
    sys.path.insert(0, C.REPO)
  import scales
  assert scales.__file__.startswith(C.REPO), scales.__file__
  import warnings
  warnings.simplefilter('ignore')
  from scales import core
  from scales.asynchronous import AsyncResult
  from scales.dispatch import MessageDispatcher
  from scales.sink import ClientMessageSink
  from scales.message import MethodReturnMessage
  from scales.constants import SinkProperties, ChannelState
  from scales.loadbalancer.serverset import StaticServerSetProvider, ZooKeeperServerSetProvider

  class CountingAsyncResult(AsyncResult):
    gets = 0

    def get(self, *a, **k):
      self.gets += 1
      return AsyncResult.get(self, *a, **k)

  class RecSink(ClientMessageSink):
    """Terminal sink: records the MethodCallMessage and answers as scripted."""

    def __init__(self, open_ar=None):
      super(RecSink, self).__init__()
      self.calls = []
      self.next = None
      self.script = {}           # token object -> answer, for calls that are dispatched later
      self.open_ar = open_ar     # None: Open() completes at once; else the harness completes it (or never does)

    @property
    def state(self):
      return ChannelState.Open

    def Open(self):
      return self.open_ar if self.open_ar is not None else AsyncResult.Complete()

    def Close(self):
      pass

    def AsyncProcessRequest(self, sink_stack, msg, stream, headers):
      self.calls.append((msg.method, msg.args, msg.kwargs, None))
      kind, obj = self.next or ('value', None)
      if self.script:
        # calls dispatched later (after Open() completed) may arrive in any order: each carries a token
        try:
          vals = list(msg.args) + list(msg.kwargs.values())
        except Exception:
          vals = []
        tok = next((a for a in vals if isinstance(a, _Val) and isinstance(a.i, tuple) and a.i[0] == 'tok'), None)
        kind, obj = self.script.get(tok, ('error', _Err('call without its token')))
      if kind == 'value':
        sink_stack.AsyncProcessResponseMessage(MethodReturnMessage(obj))
      else:
        sink_stack.AsyncProcessResponseMessage(MethodReturnMessage(error=obj))

    def AsyncProcessResponse(self, sink_stack, context, stream, msg):
      raise NotImplementedError()

  class RecProvider(object):
    def __init__(self, open_ar=None):
      self.sink = RecSink(open_ar)

    def CreateSink(self, properties):
      return self.sink

  RealKazoo = ZooKeeperServerSetProvider.__dict__.get('KazooClient')

  class SafeKazoo(RealKazoo):
    """The real KazooClient (it parses the host list itself) that can never connect."""
    c20_started = 0

    def start(self, *a, **k):
      self.c20_started += 1

    def start_async(self, *a, **k):
      self.c20_started += 1

  from scales.message import TimeoutError as ScalesTimeoutError
  _S.update(SafeKazoo=SafeKazoo, ScalesTimeoutError=ScalesTimeoutError)
  _S.update(core=core, AsyncResult=AsyncResult, CountingAsyncResult=CountingAsyncResult,
            MessageDispatcher=MessageDispatcher, RecProvider=RecProvider, SinkProperties=SinkProperties,
            Static=StaticServerSetProvider, Zk=ZooKeeperServerSetProvider,
            RealKazoo=RealKazoo)


# ---------------------------------------------------------------------------------------------
# generators
# ---------------------------------------------------------------------------------------------
LETTERS = 'abcdefghijklmnopqrstuvwxyzABCDEFGHIJKLMNOPQRSTUVWXYZ'
FUNC_TYPES = ('def', 'async', 'lambda', 'static', 'classm', 'bound')
OTHER_TYPES = ('prop', 'data', 'builtin', 'partial', 'callable', 'class')
SIGS = [[], ['a'], ['a', 'b'], ['a', 'b=2'], ['a=None'], ['a', '*args'], ['**kw'], ['*args', '**kwargs'],
        ['a', 'b=None', '*args', '**kwargs'], ['*', 'k'], ['a', '*', 'k=3'], ['a', '/', 'b'], ['a', 'b', 'c', 'd=4']]
KWNAMES = ['a', 'b', 'k', 'x', 'timeout', 'method', 'method_name', 'args', 'kwargs', 'asynchronous', 'ar', 'cls', 'é']
RESERVED = ('_dispatcher',)
NO_PROBE = set(dir(object)) | {'__dict__', '__weakref__', '__module__', '__doc__', '__del__', '__slots__',
                               '__abstractmethods__', '__qualname__', '__name__', '__mro__', '__bases__'}


def rand_base(r):
  n = r.choice([1, 1, 2, 3, 5, 8])
  s = r.choice(LETTERS) + ''.join(r.choice(LETTERS + '0123456789_') for _ in range(n - 1))
  k = r.random()
  if k < 0.06:
    s = s + '__' + r.choice(LETTERS)       # inner double underscore
  elif k < 0.10:
    s = r.choice('éßλж') + s               # non-ASCII identifier
  return s


def rand_name(r):
  b = rand_base(r)
  k = r.random()
  if k < 0.45:
    return b
  if k < 0.53:
    return '_' + b
  if k < 0.59:
    return b + '_'
  if k < 0.67:
    return '__' + b
  if k < 0.75:
    return b + '__'
  if k < 0.84:
    return '__' + b + '__'
  if k < 0.87:
    return '_' + b + '_'
  if k < 0.90:
    return '___' + b
  if k < 0.92:
    return b + '___'
  if k < 0.94:
    return '_' + b + '__'
  return r.choice(['_', '__', '___', '____', '_a', 'a_', '__call__', '__len__', '__enter__', '_async', 'x_async'])


def rand_member(r, existing):
  attr = rand_name(r)
  k = r.random()
  if existing and k < 0.12:
    attr = r.choice(existing) + '_async'             # collision foo / foo_async
  elif existing and k < 0.16:
    attr = r.choice(existing)                        # override in a subclass / duplicate
  elif k < 0.175:
    attr = r.choice(['_dispatcher', 'DispatcherOpen', 'DispatcherClose'])
  t = r.choice(FUNC_TYPES + ('def', 'def', 'def', 'def', 'static', 'classm')) if r.random() < 0.75 else r.choice(OTHER_TYPES)
  if attr in ('_dispatcher', 'DispatcherOpen', 'DispatcherClose') and t not in FUNC_TYPES:
    t = 'def'          # (a property named _dispatcher would make _ProxyBase.__init__ fail: not an interface method at all)
  m = {'attr': attr, 'type': t}
  if t in FUNC_TYPES:
    m['fname'] = '<lambda>' if t == 'lambda' else attr
    if r.random() < 0.14:
      m['fname'] = rand_name(r)                      # alias: attribute name != function __name__
    m['sig'] = r.choice(SIGS)
  return m


def gen_proxy(r, idx):
  ncls = r.choice([1, 1, 1, 2, 2, 3, 4])
  classes = []
  names = []
  for ci in range(ncls):
    bases = []
    if ci > 0:
      want = r.choice([1, 1, 1, 2, 3]) if ci > 1 else 1
      cand = list(range(ci))
      r.shuffle(cand)
      bases = sorted(cand[:want], reverse=True)
    members = []
    for _ in range(r.choice([0, 1, 2, 3, 4, 6]) if ci < ncls - 1 else r.choice([1, 2, 3, 5, 8])):
      m = rand_member(r, names)
      if m['attr'] in [x['attr'] for x in members]:
        continue
      members.append(m)
      names.append(m['attr'])
    if r.random() < 0.06:
      members.append({'attr': '__init__', 'type': 'def', 'fname': '__init__', 'sig': []})
    elif r.random() < 0.05 and not any(x['attr'] == '__init__' for x in members):
      members.append({'attr': '__init__', 'type': 'def', 'fname': r.choice(['helper', '_setup', 'init']), 'sig': []})
    classes.append({'bases': bases, 'members': members})
  realdisp = r.random() < 0.12
  case = {'kind': 'proxy', 'classes': classes, 'dispatcher': 'real' if realdisp else 'stub',
          'pending': r.choice(['stub', 'real']), 'build': r.choice(['create', 'create', 'build'])}
  if realdisp:
    # when Open() completes relative to the calls: before them / after all of them were issued (deferred dispatch,
    # with or without a call timeout) / after their deadline / never
    case['open'] = r.choice(['ready', 'ready', 'ready', 'late', 'late', 'late', 'late', 'late_notimeout', 'after_deadline', 'never'])
  # names to look up
  probe = []
  allnames = sorted(set(names))
  for n in allnames:
    probe += [n, n + '_async']
    if r.random() < 0.25:
      probe.append(n + '_async_async')
    if r.random() < 0.1:
      probe.append(n[:-1] if len(n) > 1 else n + 'q')
  probe += [rand_name(r), rand_name(r) + '_async']
  if r.random() < 0.3:
    probe += ['_dispatcher', 'DispatcherOpen', 'DispatcherClose']
  if any(m['attr'] == '__init__' for c in classes for m in c['members']):
    probe.append('__init___async')
  probe = [n for n in probe if n not in NO_PROBE and n != '__init__']
  probe = probe + [r.choice(probe) for _ in range(r.choice([0, 2, 5]))] if probe else probe
  r.shuffle(probe)
  ops = []
  for n in probe:
    args = [r.randrange(8) for _ in range(r.choice([0, 0, 1, 1, 2, 3, 4]))]
    kws = r.sample(KWNAMES, r.choice([0, 0, 0, 1, 1, 2, 3]))
    kwargs = [[kw, r.randrange(8)] for kw in kws]
    d = r.choice(['value', 'value', 'value', 'error', 'error', 'raise'])
    if realdisp and d == 'raise':
      d = 'error'
    ops.append({'name': n, 'args': args, 'kwargs': kwargs, 'disp': d})
  case['ops'] = ops
  return case


HOST_PARTS = ['a', 'b1', 'web', 'zk1', 'zk', 'svc-7', 'example', 'com', 'net', 'local', 'X', 'Node_3', 'x--y', '0', '9z']


def rand_host(r):
  k = r.random()
  if k < 0.45:
    return '.'.join(r.choice(HOST_PARTS) for _ in range(r.choice([1, 2, 3, 4])))
  if k < 0.75:
    return '.'.join(str(r.choice([0, 1, 10, 127, 192, 255, r.randrange(256)])) for _ in range(4))
  if k < 0.82:
    return 'localhost'
  if k < 0.88:
    return ''.join(r.choice(LETTERS + '0123456789-._~%@!$&\'()*+;= ') for _ in range(r.choice([1, 2, 5, 12])))
  if k < 0.92:
    return r.choice(['bücher.example', 'ñ', 'хост.рф', '例え.jp'])
  if k < 0.94:
    return ''
  return r.choice(HOST_PARTS)


def rand_port(r):
  return r.choice([0, 1, 7, 80, 443, 2181, 8080, 9090, 10000, 65535, 65536, 99999999, 10 ** 20, 2 ** 64,
                   r.randrange(65536), r.randrange(65536), r.randrange(65536), r.randrange(10 ** 9)])


def case_variant(r, s):
  k = r.random()
  if k < 0.7:
    return s
  if k < 0.8:
    return s.upper()
  return ''.join(c.upper() if r.random() < 0.5 else c for c in s)


OTHER_SCHEMES = ['http', 'https', 'file', 'ftp', 'tcps', 'tcp4', 'zks', 'zoo', 'tc', 'cp', 'z', 'k', 't', 'udp', 'inet+tcp',
                 'tcp+zk', 'tcp.zk', 'zk-tcp', 'thrift', 'mux', 'kafka', 'HTTP', 'TcpX', 'zK2', 'tcpp', 'ttcp', 'zkk', 'zzk', 'a1+.-']


def gen_uri(r, idx):
  k = r.random()
  if k < 0.40:
    n = r.choice([1, 1, 2, 3, 5, 8, 13, 20, r.randrange(1, 21), r.randrange(1, 21)])
    if r.random() < 0.02:
      n = 60
    return {'kind': 'tcp', 'scheme': case_variant(r, 'tcp'), 'eps': [[rand_host(r), rand_port(r)] for _ in range(n)]}
  if k < 0.60:
    n = r.choice([1, 1, 2, 3, 5])
    hs = []
    for _ in range(n):
      h = rand_host(r) or 'zk'
      hs.append(h + ':%d' % r.choice([2181, 2181, 2182, r.randrange(1, 65536)]) if r.random() < 0.8 else h)
    path = r.choice(['', '/', '/a', '/test/path', '/svc/prod/web', '/a/b/c/d/e', '/p:q', '/a,b', '/x y', '//dbl', '/é'])
    name = r.choice([None, None, 'http', 'thrift', 'admin', 'a#b', 'x?y', 'n/m', 'é', '0'])
    query = r.choice([None, None, None, None, 'q=1', ''])
    plain = all(re.fullmatch(r'[A-Za-z0-9._-]+(:[0-9]+)?', h) for h in hs)      # kazoo parses the host list itself
    return {'kind': 'zk', 'scheme': case_variant(r, 'zk'), 'hosts': ','.join(hs), 'path': path, 'name': name,
            'query': query, 'kazoo': 'real' if (plain and r.random() < 0.15) else 'stub'}
  if k < 0.75:
    if r.random() < 0.7:
      s = r.choice(OTHER_SCHEMES)
    else:
      s = r.choice(LETTERS) + ''.join(r.choice(LETTERS + '0123456789+-.') for _ in range(r.choice([0, 1, 2, 4])))
      if s.lower() in ('tcp', 'zk'):
        s += 'x'
    rest = r.choice(['//h:1', '//h:1,g:2', '//zk1:2181/path#name', '//', '', '/x', 'h:1', '//[::1]:80/', '//h:1?q#f', '//[bad'])
    return {'kind': 'other', 'uri': s + ':' + rest}
  # mutated / malformed
  if r.random() < 0.3:           # int() on odd port text
    ports = [''.join(r.choice(' _+-00112233456789\x0b\x0c') for _ in range(r.choice([0, 1, 2, 3, 4, 6]))) for _ in range(r.choice([1, 1, 2]))]
    return {'kind': 'raw', 'uri': 'tcp://' + ','.join('h%d:%s' % (i, p) for i, p in enumerate(ports))}
  base = r.choice(['tcp://a:1', 'tcp://host.example.com:8080,10.0.0.2:9090', 'zk://zk1:2181,zk2:2181/svc/path#http',
                   'tcp://a:1,b:2,c:3', 'zk://z/p', 'tcp://[::1]:80', 'http://a:1', 'tcp://h:65535'])
  alpha = ',,::://##??[]@ \t\n\r\x0b\x0c\x1c\x00_+-0123456789abctpzkTCPZK.%' + 'é١\u00a0\u2100'
  s = list(base)
  for _ in range(r.choice([1, 1, 2, 3, 5])):
    op = r.random()
    pos = r.randrange(len(s) + 1)
    if op < 0.45:
      s.insert(pos, r.choice(alpha))
    elif op < 0.75 and s:
      del s[min(pos, len(s) - 1)]
    elif s:
      s[min(pos, len(s) - 1)] = r.choice(alpha)
  return {'kind': 'raw', 'uri': ''.join(s)}


FIXED_URIS = ['tcp://localhost:8080,localhost:8081', 'zk://zk1.zk.com:2181/test/path', 'tcp://', 'tcp:', 'tcp', '', ':', '://',
              'tcp://a', 'tcp://a:', 'tcp://:1', 'tcp://a:1,', 'tcp://,a:1', 'tcp://a:1,,b:2', 'tcp://a:1:2', 'tcp://a:b',
              'tcp://a: 1', 'tcp://a:1 ', 'tcp://a:+1', 'tcp://a:-1', 'tcp://a:--1', 'tcp://a:+-1', 'tcp://a:1_0', 'tcp://a:_1',
              'tcp://a:1_', 'tcp://a:1__0', 'tcp://a:0_0', 'tcp://a:007', 'tcp://a:0x10', 'tcp://a:1e3', 'tcp://a:1.0', 'tcp://a:+',
              'tcp://a:- 1', 'tcp://a:\x0b1\x0c', 'tcp://a:\x1c1', 'tcp://a:\x001', 'tcp://a:1/p', 'tcp://a:1?x', 'tcp://a:1#f',
              'tcp://a:1/p#f?q', 'tcp://u@a:1', 'tcp://[::1]:5', 'tcp://[::1:5', 'tcp://::1]:5', 'tcp://[::1]', 'tcp://[x]:5',
              'tcp://[]:5', 'tcp://a:1,[::1]', ' tcp://a:1', '\x00\x1f tcp://a:1', 't\tc\np\r://a:\t1', 'tcp:/a:1', 'tcp:a:1',
              'tcp:///a:1', 'TCP://A:1', 'tCp://a:1', 'ZK://h/p#n', 'zk://', 'zk:', 'zk:///p', 'zk://h', 'zk://h/', 'zk://h#n',
              'zk://h?q', 'zk://h/p?q', 'zk://h/p?q#n', 'zk://h/p#', 'zk://h/p#n#m', 'zk://h/p#n?q', 'zk://h/p?q#n?r', 'zk://h/p;x#n',
              'zk://a:x/p', 'zk://[::1]:2181/p', 'x://a', '1tcp://a:1', '+tcp://a:1', 't cp://a:1', 'tcp ://a:1', 't+c.p-1://a',
              'tcp2://a:1', 'http://a:1', '//a:1', 'a:1', 'tcp//a:1', 'tcp://é:1', 'tcp://\u2100:1', 'tcp://a:١٢', 'tcp://a:\u00a01',
              'ｔcp://a:1', 'tcp://a:1\u3000']


def gen_cases(tier, seed):
  n_proxy = 1000 if tier == 'quick' else 10000
  n_uri = 2000 if tier == 'quick' else 20000
  out = [{'kind': 'raw', 'uri': u} for u in FIXED_URIS]
  for i in range(n_proxy):
    out.append(gen_proxy(C.case_rng(seed, PID, i), i))
  for i in range(n_uri):
    out.append(gen_uri(C.case_rng(seed, PID + 'u', i), i))
  return out


def search_cases(tier, seed, diverging):
  out = []
  for i in range(3000):
    out.append(gen_proxy(C.case_rng(seed + 104729, PID, i), i))
  for i in range(6000):
    out.append(gen_uri(C.case_rng(seed + 104729, PID + 'u', i), i))
  return out


# ---------------------------------------------------------------------------------------------
# implementation driver: proxies
# ---------------------------------------------------------------------------------------------
_CODE = {}


def _mk_func(fname, params, uid, log, is_async=False):
  src = '%sdef _f(%s):\n  _LOG.append(("own", _UID))\n  return ("ownret", _UID)\n' % (
      'async ' if is_async else '', ', '.join(params))
  code = _CODE.get(src)
  if code is None:
    code = _CODE[src] = compile(src, '<c20-iface>', 'exec')
  ns = {'_LOG': log, '_UID': uid}
  exec(code, ns)
  f = ns['_f']
  f.__name__ = fname
  f.__qualname__ = fname
  return f


class _Helper(object):
  pass


class _Callable(object):
  def __call__(self, *a, **k):
    return None


def _mk_value(m, uid, log):
  t = m['type']
  sig = list(m.get('sig') or [])
  if t == 'def':
    return _mk_func(m['fname'], ['self'] + sig, uid, log)
  if t == 'async':
    return _mk_func(m['fname'], ['self'] + sig, uid, log, True)
  if t == 'lambda':
    f = (lambda self, *a, **k: log.append(('own', uid)))
    f.__name__ = m['fname']
    return f
  if t == 'static':
    return staticmethod(_mk_func(m['fname'], sig, uid, log))
  if t == 'classm':
    return classmethod(_mk_func(m['fname'], ['cls'] + sig, uid, log))
  if t == 'bound':
    return types.MethodType(_mk_func(m['fname'], ['self'] + sig, uid, log), _Helper())
  if t == 'prop':
    return property(_mk_func('getter', ['self'], uid, log))
  if t == 'data':
    return [None, 0, 7, 'text', 2.5, (1, 2), {'k': 1}][uid % 7]
  if t == 'builtin':
    return [len, repr, [].append][uid % 3]
  if t == 'partial':
    return functools.partial(_mk_func('p', ['x'], uid, log), 1)
  if t == 'callable':
    return _Callable()
  if t == 'class':
    return type('Nested', (object,), {})
  raise ValueError(t)


def build_iface(case, log):
  built = []
  for ci, c in enumerate(case['classes']):
    ns = {}
    for mi, m in enumerate(c['members']):
      ns[m['attr']] = _mk_value(m, ci * 100 + mi, log)
    bases = tuple(built[b] for b in c['bases']) or (object,)
    try:
      k = type('Iface%d' % ci, bases, ns)
    except TypeError:                    # inconsistent MRO for this choice of bases: keep the first base only
      k = type('Iface%d' % ci, bases[:1], ns)
    k.__module__ = 'c20.generated'
    built.append(k)
  return built


def _sibling_iface():
  k = _S.get('sibling_iface')
  if k is None:
    k = type('IfaceSibling', (object,), {'sibling_only': lambda self, a: None})
    k.__module__ = 'c20.generated'
    _S['sibling_iface'] = k
  return k


def _mro_indices(built):
  return [built.index(k) for k in built[-1].__mro__ if k in built]


def _ids(pool, xs):
  out = []
  for x in xs:
    out.append(next((i for i, p in enumerate(pool) if p is x), -1))
  return out


def run_proxy(case):
  core = _S['core']
  log = []
  built = build_iface(case, log)
  iface = built[-1]
  obs = {'mro': _mro_indices(built), 'probes': []}
  builder = core.ClientProxyBuilder
  try:
    if case.get('build') == 'build':
      proxy_cls = builder._BuildServiceProxy(iface)
      obs['cache_same'] = True
    else:
      # self-contained cases (replays run in a fresh process): another interface of the same module has already been
      # turned into a client when this one is built
      try:
        builder.CreateServiceClient(_sibling_iface())
      except Exception:
        pass
      proxy_cls = builder.CreateServiceClient(iface)
      obs['cache_same'] = builder.CreateServiceClient(iface) is proxy_cls
  except Exception as e:
    obs['ctor'] = 'build:' + type(e).__name__
    return obs
  finally:
    try:
      builder._PROXY_TYPE_CACHE.pop(iface, None)     # hygiene only: do not keep 10^4 generated classes alive
    except Exception:
      pass
  real = case.get('dispatcher') == 'real'
  openmode = case.get('open', 'ready') if real else 'ready'
  deferred = []
  open_ar = None
  if real:
    if openmode != 'ready':
      open_ar = _S['AsyncResult']()
    prov = _S['RecProvider'](open_ar)
    rec = prov.sink
    dtimeout = {'late_notimeout': None, 'after_deadline': 0.05, 'never': 0.05}.get(openmode, 10)
    disp = _S['MessageDispatcher'](iface, prov, dtimeout, {_S['SinkProperties'].Label: 'c20'})
  else:
    disp = rec = _StubDispatcher()
  del log[:]
  try:
    p = proxy_cls(disp)
    if real:
      disp.Open()        # (not p.DispatcherOpen(): the interface may declare a method of that name)
    obs['ctor'] = 'ok'
  except Exception as e:
    obs['ctor'] = type(e).__name__
    return obs
  obs['isinstance'] = isinstance(p, iface)
  base_cls = core._ProxyBase
  pool = [_Val(0), [1], {'k': 2}, tuple(['t', 3]), float(4) + 0.5, _Val(5), 'six' * 2, bytearray(b'7')]
  for oi, op in enumerate(case['ops']):
    name = op['name']
    o = {}
    inst = getattr(p, '__dict__', {})
    if name in inst:
      o['res'] = 'field' if inst[name] is disp else 'instattr'
    else:
      owner = next((k for k in type(p).__mro__ if name in vars(k)), None)
      if owner is None:
        o['res'] = 'missing'
      elif owner is type(p):
        o['res'] = 'call'
      elif owner is base_cls:
        o['res'] = 'base'
      elif owner is object:
        o['res'] = 'object'
      else:
        o['res'] = 'own'
    if o['res'] == 'call' and open_ar is not None:
      deferred.append((oi, op, o))             # issued below, while Open() is still pending
    elif o['res'] == 'call':
      value, err = _Val(('value', oi)), _Err('e%d' % oi)
      args = tuple(pool[i] for i in op['args'])
      kwargs = dict((k, pool[i]) for k, i in op['kwargs'])
      d = op['disp']
      pend = None
      if real:
        rec.next = (d, value if d == 'value' else err)
      elif d == 'raise':
        rec.next = ('raise', err)
      else:
        if case.get('pending') == 'real':
          pend = _S['CountingAsyncResult']()
          if d == 'value':
            pend.set(value)
          else:
            pend.set_exception(err)
        else:
          pend = _Pending(value if d == 'value' else None, err if d == 'error' else None)
        rec.next = ('return', pend)
      before = len(rec.calls)
      del log[:]
      try:
        if real:
          import gevent
          with gevent.Timeout(5):
            got = getattr(p, name)(*args, **kwargs)
        else:
          got = getattr(p, name)(*args, **kwargs)
        if got is value:
          o['ret'] = ['value', oi]
        elif pend is not None and got is pend:
          o['ret'] = ['pending', oi]
        elif real and isinstance(got, _S['AsyncResult']):
          # the dispatcher's own pending result: it must settle as scripted
          try:
            v = got.get(timeout=5)
            o['ret'] = ['pending', oi] if (d == 'value' and v is value) else ['other', 'pending settled with %r' % (v,)]
          except Exception as e2:
            ok = d == 'error' and (e2 is err or getattr(e2, 'inner_exception', None) is err)
            o['ret'] = ['pending', oi] if ok else ['other', 'pending failed with %r' % (e2,)]
        else:
          o['ret'] = ['other', repr(got)[:80]]
      except BaseException as e:
        if e is err or (real and getattr(e, 'inner_exception', None) is err):
          o['ret'] = ['raise', oi]
        else:
          o['ret'] = ['other', 'raised %s: %s' % (type(e).__name__, str(e)[:80])]
      new = rec.calls[before:]
      o['ncalls'] = len(new)
      o['gets'] = -1 if real else (pend.gets if pend is not None else 0)   # -1: not observable
      if new:
        method, a, kw, timeout = new[0]
        o['method'] = method if isinstance(method, str) else repr(method)
        o['args_tuple'] = type(a) is tuple
        o['kwargs_dict'] = type(kw) is dict
        try:
          o['args'] = _ids(pool, a)
        except TypeError:
          o['args'] = [-2]
        try:
          o['kwargs'] = [[k if isinstance(k, str) else repr(k), _ids(pool, [v])[0]] for k, v in kw.items()]
        except Exception:
          o['kwargs'] = [['?', -2]]
        o['timeout_none'] = timeout is None
      o['own_ran'] = len(log)
    obs['probes'].append(o)
  if deferred:
    _run_deferred(case, p, rec, open_ar, openmode, pool, deferred, log)
  return obs


def _record(o, pool, rcall):
  method, a, kw, timeout = rcall
  o['method'] = method if isinstance(method, str) else repr(method)
  o['args_tuple'] = type(a) is tuple
  o['kwargs_dict'] = type(kw) is dict
  try:
    o['args'] = _ids(pool, a)
  except TypeError:
    o['args'] = [-2]
  try:
    o['kwargs'] = [[k if isinstance(k, str) else repr(k), _ids(pool, [v])[0]] for k, v in kw.items()]
  except Exception:
    o['kwargs'] = [['?', -2]]
  o['timeout_none'] = timeout is None


def _run_deferred(case, p, rec, open_ar, openmode, pool, deferred, log):
  """Calls issued while the real dispatcher's Open() is pending.  Blocking forms run in greenlets (they block in
  get(); the async forms finish at once with the pending result).  Then Open() completes
  (late*), completes after the calls' deadline (after_deadline) or never does, and every call must end as the
  property says: the scripted value / error, or the call's own TimeoutError when it was never dispatched."""
  import gevent
  AR, TE = _S['AsyncResult'], _S['ScalesTimeoutError']
  del log[:]
  issued = []
  before = len(rec.calls)
  for oi, op, o in deferred:
    value, err = _Val(('value', oi)), _Err('e%d' % oi)
    d = 'error' if op['disp'] == 'raise' else op['disp']
    token = _Val(('tok', oi))          # last positional argument: tells the sink which call this is
    rec.script[token] = (d, value if d == 'value' else err)
    args = tuple(pool[i] for i in op['args']) + (token,)
    kwargs = dict((k, pool[i]) for k, i in op['kwargs'])
    meth = getattr(p, op['name'])

    def blocking(meth=meth, args=args, kwargs=kwargs):
      try:
        return ('ok', meth(*args, **kwargs))
      except BaseException as e:      # noqa
        return ('exc', e)
    g = gevent.spawn(blocking)
    gevent.sleep(0)                   # the method runs up to its first blocking point (or to completion)
    issued.append((oi, op, o, d, value, err, token, g))
  o_early = [x[-1].ready() for x in issued]
  early_calls = len(rec.calls) - before
  if openmode in ('late', 'late_notimeout'):
    open_ar.set(True)
  elif openmode == 'after_deadline':
    gevent.sleep(0.2)
    open_ar.set(True)
  gevent.joinall([x[-1] for x in issued], timeout=8)
  settled = []
  for k, (oi, op, o, d, value, err, token, g) in enumerate(issued):
    o['deferred'] = openmode
    o['gets'] = -1
    o['early_dispatch'] = early_calls > 0
    if not g.ready():
      g.kill(block=False)
      o['ret'] = ['other', 'still blocked 8 s after Open() completed' if openmode.startswith('late') else 'still blocked after the deadline']
      settled.append(None)
      continue
    tag, got = g.value if g.value is not None else ('exc', g.exception)
    how = None               # 'value' / 'error' / 'timeout' / text
    pending = False
    if tag == 'ok' and isinstance(got, AR) and got is not value:
      pending = True
      o['async_returned_at_once'] = o_early[k]
      try:
        v = got.get(timeout=8)
        how = 'value' if v is value else 'settled with %r' % (v,)
      except BaseException as e2:     # noqa
        tag, got = 'exc', e2
    if how is None:
      if tag == 'ok':
        how = 'value' if got is value else 'returned %r' % (got,)
      elif got is err or getattr(got, 'inner_exception', None) is err:
        how = 'error'
      elif isinstance(got, TE):
        how = 'timeout'
      else:
        how = 'raised %s: %s' % (type(got).__name__, str(got)[:80])
    o['how'] = how
    o['was_pending'] = pending
    if openmode.startswith('late'):
      if how == 'value' and d == 'value':
        o['ret'] = ['pending', oi] if pending else ['value', oi]
      elif how == 'error' and d == 'error':
        o['ret'] = ['pending', oi] if pending else ['raise', oi]
      else:
        o['ret'] = ['other', ('pending result ' if pending else '') + how]
    else:
      o['ret'] = ['pending-timeout' if pending else 'timeout'] if how == 'timeout' else ['other', ('pending result ' if pending else '') + how]
  new = rec.calls[before:]
  for k, (oi, op, o, d, value, err, token, g) in enumerate(issued):
    def has(c):
      try:
        return any(a is token for a in list(c[1]) + list(c[2].values()))
      except Exception:
        return False
    mine = [c for c in new if has(c)]
    o['ncalls'] = len(mine)           # never / after_deadline: 0 (a call that timed out waiting for Open() is C01's)
    if mine:
      method, a, kw, t = mine[0]
      a2 = a[:-1] if (type(a) is tuple and a and a[-1] is token) else a      # the token rode as last positional
      _record(o, pool, (method, a2, kw, t))
    o['own_ran'] = len(log)


# ---------------------------------------------------------------------------------------------
# implementation driver: URIs
# ---------------------------------------------------------------------------------------------
def case_uri(case):
  k = case['kind']
  if k == 'tcp':
    return case['scheme'] + '://' + ','.join('%s:%d' % (h, p) for h, p in case['eps'])
  if k == 'zk':
    u = case['scheme'] + '://' + case['hosts'] + case['path']
    if case.get('query') is not None:
      u += '?' + case['query']
    if case.get('name') is not None:
      u += '#' + case['name']
    return u
  return case['uri']


def run_uri(case):
  core = _S['core']
  Zk = _S['Zk']
  uri = case_uri(case)
  fake = not (case['kind'] == 'zk' and case.get('kazoo') == 'real')
  Zk.KazooClient = _FakeKazoo if fake else _S['SafeKazoo']
  del _FakeKazoo.created[:]
  try:
    try:
      prov = core.ScalesUriParser().Parse(uri)
    except Exception as e:
      return {'exc': type(e).__name__, 'msg': str(e)[:200], 'exact': type(e) is Exception}
    if isinstance(prov, _S['Static']):
      servers = prov.GetServers()
      eps = []
      typed = type(servers) is list
      for s in servers:
        ep = s.service_endpoint
        eps.append([ep.host, ep.port])
        typed = typed and type(ep.port) is int and isinstance(s, core.ScalesUriParser.Server) and \
            isinstance(ep, core.ScalesUriParser.Endpoint)
      return {'type': 'static', 'eps': eps, 'typed': typed}
    if isinstance(prov, Zk):
      o = {'type': 'zk', 'path': prov._zk_path, 'name': prov.endpoint_name, 'owns': bool(prov._owns_zk_client)}
      cl = prov._zk_client
      if isinstance(cl, _FakeKazoo):
        o['hosts'] = cl.kwargs.get('hosts', cl.args[0] if cl.args else None)
        o['started'] = cl.started
        o['nclients'] = len(_FakeKazoo.created)
      else:
        o['khosts'] = [[h, p] for h, p in cl.hosts]
        o['chroot'] = cl.chroot
        o['started'] = getattr(cl, 'c20_started', 0) + (1 if cl.connected else 0)
      return o
    return {'type': 'unknown:' + type(prov).__name__}
  finally:
    Zk.KazooClient = _S['RealKazoo']


def run_impl(case):
  setup()
  if case['kind'] == 'proxy':
    return run_proxy(case)
  return run_uri(case)


# ---------------------------------------------------------------------------------------------
# monitor: the property statement, from the specification alone
# ---------------------------------------------------------------------------------------------
def resolved_members(case, mro):
  """First definition of every attribute along the MRO (what getattr(Iface, name) finds)."""
  seen = {}
  for ci in mro:
    for m in case['classes'][ci]['members']:
      if m['attr'] not in seen:
        seen[m['attr']] = m
  return seen


def _is_public(n):
  return not n.startswith('__') and not n.endswith('__')


def public_methods(case, mro):
  """Methods the property speaks about: functions/methods whose attribute name and own name are both public.
  Returns (definitely_public, unspecified): aliases whose two names disagree are left unspecified."""
  pub, unspec = set(), set()
  for n, m in resolved_members(case, mro).items():
    if m['type'] not in FUNC_TYPES:
      continue
    a, f = _is_public(n), _is_public(m['fname'])
    if a and f:
      pub.add(n)
    elif a != f:
      unspec.add(n)
  return pub, unspec


def monitor_proxy(case, obs):
  v = []
  if obs.get('ctor') != 'ok':
    return [('proxy-construction-failed', 'building/instantiating the client raised %s' % obs.get('ctor'))]
  if not obs.get('isinstance', True):
    v.append(('proxy-not-instance', 'the client is not an instance of the interface'))
  pub, unspec = public_methods(case, obs['mro'])
  forwarding = pub | unspec
  for op, o in zip(case['ops'], obs['probes']):
    name = op['name']
    # which public method, if any, must this name be a form of?
    want = None
    if name in pub and name not in RESERVED:
      shadow = name.endswith('_async') and name[:-6] in forwarding
      if not shadow:
        want = (name, 'sync')
    if name.endswith('_async') and name[:-6] in pub:
      want = (name[:-6], 'async')          # the generated async form (shadows a declared foo_async, section 10)
    if want is None:
      continue
    m, mode = want
    tag = '%s form of %r (looked up as %r)' % (mode, m, name)
    if o.get('res') != 'call':
      v.append(('%s-form-missing' % mode, '%s is not a generated method: %s' % (tag, o.get('res'))))
      continue
    if o.get('deferred') in ('never', 'after_deadline'):
      # issued while Open() was pending and Open() did not complete before the call's deadline: the call's
      # error is its TimeoutError - raised by the blocking form, carried by the pending result of the async form
      exp = 'timeout' if mode == 'sync' else 'pending-timeout'
      if (o.get('ret') or ['?'])[0] != exp:
        v.append(('%s-result' % mode, '%s, issued while Open() was pending (%s): caller got %s, the call timed out' %
                  (tag, o['deferred'], o.get('ret'))))
      continue
    if o.get('ncalls') != 1:
      v.append(('dispatch-count', '%s dispatched %s times' % (tag, o.get('ncalls'))))
      if o.get('deferred'):
        # the outcome is still the caller's to see (a call lost while Open() was pending must not look like success)
        r0 = (o.get('ret') or ['other'])[0]
        if r0 == 'other':
          v.append(('%s-result' % mode, '%s, issued while Open() was pending: caller got %s' % (tag, o.get('ret'))))
      continue
    if o.get('method') != m:
      v.append(('method-name-changed', '%s handed method name %r to the dispatcher' % (tag, o.get('method'))))
    if o.get('args') != op['args'] or not o.get('args_tuple'):
      v.append(('args-changed', '%s handed positional arguments %s (tuple=%s), caller passed %s' %
                (tag, o.get('args'), o.get('args_tuple'), op['args'])))
    if o.get('kwargs') != op['kwargs'] or not o.get('kwargs_dict'):
      v.append(('kwargs-changed', '%s handed keyword arguments %s, caller passed %s' % (tag, o.get('kwargs'), op['kwargs'])))
    if not o.get('timeout_none', True):
      v.append(('extra-dispatch-argument', '%s passed a timeout to the dispatcher' % tag))
    d = op['disp']
    if d == 'raise' and case.get('dispatcher') == 'real':
      d = 'error'            # the real dispatcher never raises synchronously: the call fails instead
    ret = o.get('ret') or ['other', 'nothing observed']
    if d == 'raise':
      if ret[0] != 'raise':
        v.append(('dispatch-error-lost', '%s: dispatcher raised but caller got %s' % (tag, ret)))
    elif mode == 'sync':
      exp = 'value' if d == 'value' else 'raise'
      if ret[0] != exp:
        v.append(('sync-result', '%s: pending result settled with %s but caller got %s' % (tag, d, ret)))
      if o.get('gets') not in (1, -1):
        v.append(('sync-get-count', '%s called get() %s times' % (tag, o.get('gets'))))
    else:
      if ret[0] != 'pending':
        v.append(('async-result', '%s: caller got %s instead of the pending result' % (tag, ret)))
      if o.get('gets') not in (0, -1):
        v.append(('async-get-count', '%s called get() %s times on the pending result' % (tag, o.get('gets'))))
    if o.get('own_ran'):
      v.append(('interface-body-ran', '%s executed the interface\'s own method body' % tag))
  return v


_SCHEME_RE = re.compile(r'^([A-Za-z][A-Za-z0-9+.\-]*):')


def monitor_uri(case, obs):
  v = []
  k = case['kind']
  uri = case_uri(case)
  if k == 'tcp':
    if 'exc' in obs:
      return [('tcp-rejected', '%r raised %s: %s' % (uri[:120], obs['exc'], obs.get('msg')))]
    if obs.get('type') != 'static':
      return [('tcp-provider', '%r gave %s' % (uri[:120], obs.get('type')))]
    if obs['eps'] != case['eps']:
      v.append(('tcp-endpoints', '%r yields %s, listed %s' % (uri[:120], obs['eps'][:5], case['eps'][:5])))
    elif not obs.get('typed'):
      v.append(('tcp-endpoint-types', 'endpoints are not Server(Endpoint(host, int port))'))
  elif k == 'zk':
    if 'exc' in obs:
      if case.get('kazoo') == 'real':
        return v           # KazooClient validates the host list itself (environment)
      return [('zk-rejected', '%r raised %s: %s' % (uri[:120], obs['exc'], obs.get('msg')))]
    if obs.get('type') != 'zk':
      return [('zk-provider', '%r gave %s' % (uri[:120], obs.get('type')))]
    if obs.get('path') != case['path']:
      v.append(('zk-path', '%r: path %r' % (uri[:120], obs.get('path'))))
    want_name = case['name'] if case.get('name') else None
    if obs.get('name') != want_name:
      v.append(('zk-endpoint-name', '%r: endpoint name %r' % (uri[:120], obs.get('name'))))
    if 'hosts' in obs:
      if obs['hosts'] != case['hosts']:
        v.append(('zk-hosts', '%r: hosts handed to KazooClient %r' % (uri[:120], obs['hosts'])))
      if obs.get('nclients') != 1:
        v.append(('zk-client-count', '%s KazooClient objects created' % obs.get('nclients')))
    else:
      want = []
      for h in case['hosts'].split(','):
        host, _, port = h.partition(':')
        want.append([host.lower(), int(port) if port else 2181])       # kazoo lower-cases host names
      if sorted([h.lower(), p] for h, p in obs.get('khosts', [])) != sorted(want):
        v.append(('zk-hosts', '%r: KazooClient hosts %s' % (uri[:120], obs.get('khosts'))))
    if obs.get('started'):
      v.append(('zk-connected-eagerly', 'the ZooKeeper client was started by Parse'))
    if not obs.get('owns'):
      v.append(('zk-client-ownership', 'provider does not own the client it created'))
  else:
    # foreign / malformed: only "any other scheme is rejected" is claimed, and only for text urlsplit does not rewrite
    if all(ord(c) > 32 for c in uri):
      m = _SCHEME_RE.match(uri)
      scheme = m.group(1).lower() if m else ''
      if scheme not in ('tcp', 'zk') and 'exc' not in obs:
        v.append(('scheme-not-rejected', '%r (scheme %r) was accepted: %s' % (uri[:120], scheme, obs.get('type'))))
  return v


def monitor(case, obs):
  if case['kind'] == 'proxy':
    return monitor_proxy(case, obs)
  return monitor_uri(case, obs)


# ---------------------------------------------------------------------------------------------
# translation to Coq terms
# ---------------------------------------------------------------------------------------------
def _text(s):
  """str -> Coq term of type list Z (code points); printable ASCII goes through Proxy.zs (cheap to parse)."""
  if s and all(32 <= ord(c) < 127 for c in s):
    return '(zs "%s")' % s.replace('"', '""')
  return C.zlist([ord(c) for c in s])


def _zs(xs):
  return '[' + ';'.join(str(int(x)) if x >= 0 else '(%d)' % x for x in xs) + ']%Z'


KIND = {'def': 'KFunction', 'async': 'KFunction', 'lambda': 'KFunction', 'static': 'KFunction', 'classm': 'KMethod',
        'bound': 'KMethod', 'builtin': 'KBuiltin', 'prop': 'KOther', 'data': 'KOther', 'partial': 'KOther',
        'callable': 'KOther', 'class': 'KOther'}
OBJECT_MEMBERS = [('__doc__', 'KOther'), ('__init_subclass__', 'KBuiltin'), ('__repr__', 'KOther')]   # a few of object's own


def model_members(case, mro):
  res = resolved_members(case, mro)
  ms = [(n, KIND[m['type']], m.get('fname', '')) for n, m in res.items()]
  for n, k in OBJECT_MEMBERS:
    if n not in res:
      ms.append((n, k, n if k == 'KBuiltin' else ''))
  if '__init__' not in res:
    ms.append(('__init__', 'KOther', ''))       # object.__init__ is a slot wrapper
  ms.sort(key=lambda x: x[0])                   # inspect.getmembers sorts by name
  return ms


COMMON = {}       # frequent names are defined once in the header of every generated case file


def _common_header():
  names = KWNAMES + [n for n, _k in OBJECT_MEMBERS] + ['__init__', '<lambda>', '_dispatcher', 'DispatcherOpen', 'DispatcherClose',
                                                     'helper', '_setup', 'init', '__call__', '__len__', '__enter__']
  lines = []
  for i, n in enumerate(names):
    COMMON[n] = 'cn%d' % i
    lines.append('Definition cn%d : list Z := %s.' % (i, _text(n)))
  return '\n'.join(lines)


class _Names(object):
  """Interns the strings of one case: each distinct name is written once (let-bound), string literals are
  what makes Coq slow on these terms."""

  def __init__(self):
    self.ids = {}

  def __call__(self, s):
    if s == '':
      return '[]'
    if s in COMMON:
      return COMMON[s]
    if s not in self.ids:
      self.ids[s] = 's%d' % len(self.ids)
    return self.ids[s]

  def wrap(self, body):
    return '(' + ''.join('let %s := %s in ' % (v, _text(k)) for k, v in self.ids.items()) + body + ')'


def _pobs(op, o, nm):
  r = o.get('res')
  if r == 'field':
    return 'PField'
  if r == 'base':
    return 'PBase'
  if r == 'own':
    return 'POwn'
  if r == 'missing':
    return 'PMissing'
  if r != 'call':
    return '(PCall (CallObs [] [] [] (Raises (-9)%Z) (-9)%Z))'      # never produced by the model
  ret = o.get('ret') or ['other']
  if ret[0] == 'value':
    rt = '(RetValue %s)' % C.zlit(ret[1])
  elif ret[0] == 'pending':
    rt = '(RetPending %s)' % C.zlit(ret[1])
  elif ret[0] == 'raise':
    rt = '(Raises %s)' % C.zlit(ret[1])
  else:
    rt = '(Raises (-1)%Z)'
  gets = o.get('gets', -1)
  if o.get('ncalls') != 1 or not o.get('args_tuple') or not o.get('kwargs_dict') or not o.get('timeout_none') or o.get('own_ran'):
    gets = -100
  kw = C.lst(['(%s, %s)' % (nm(k), C.zlit(i)) for k, i in o.get('kwargs', [])])
  return '(PCall (CallObs %s %s %s %s %s))' % (nm(o.get('method', '')), _zs(o.get('args', [])), kw, rt, C.zlit(gets))


def to_coq(case, obs):
  if case['kind'] == 'proxy':
    if 'mro' not in obs:
      return None
    nm = _Names()
    ms = C.lst(['(Mem %s %s %s)' % (nm(n), k, nm(f)) for n, k, f in model_members(case, obs['mro'])])
    probes = []
    for oi, (op, o) in enumerate(zip(case['ops'], obs.get('probes', []))):
      if o.get('deferred') in ('never', 'after_deadline'):
        continue               # never dispatched (timed out waiting for Open()): monitor only
      d = op['disp']
      if d == 'raise' and case.get('dispatcher') == 'real':
        d = 'error'
      dt = '(DRaise %s)' % C.zlit(oi) if d == 'raise' else '(DPending %s (%s %s))' % (
          C.zlit(oi), 'SValue' if d == 'value' else 'SError', C.zlit(oi))
      pr = '(Probe %s %s %s %s)' % (nm(op['name']), _zs(op['args']),
                                    C.lst(['(%s, %s)' % (nm(k), C.zlit(i)) for k, i in op['kwargs']]), dt)
      probes.append('(%s, %s)' % (pr, _pobs(op, o, nm)))
    return nm.wrap('CProxy (PCase %s %s %s)' % (ms, C.blit(obs.get('ctor') == 'ok'), C.lst(probes)))
  uri = case_uri(case)
  if any(ord(c) > 127 and (c.isdecimal() or c.isspace()) for c in uri):
    return None                # int() on non-ASCII digits/blanks is outside the model
  if case['kind'] == 'zk' and case.get('kazoo') == 'real':
    return None                # KazooClient keeps only the parsed host list; checked by the monitor
  import urllib.parse as up
  try:
    up.urlsplit(uri)
    envok = True
  except ValueError:
    envok = False
  if 'exc' in obs:
    if obs['exc'] == 'ValueError':
      e = 'UValueError'
    elif obs['exc'] == 'Exception' and obs.get('exact') and obs.get('msg', '').startswith('No handler found for prefix '):
      e = '(UNoHandler %s)' % _text(obs['msg'][len('No handler found for prefix '):])
    else:
      e = '(UNoHandler [(-1)]%Z)'
  elif obs.get('type') == 'static':
    if not all(isinstance(p, int) and isinstance(h, str) for h, p in obs['eps']):
      e = '(UNoHandler [(-2)]%Z)'
    else:
      e = '(UTcp %s)' % C.lst(['(%s, %s)' % (_text(h), C.zlit(p)) for h, p in obs['eps']])
  elif obs.get('type') == 'zk' and isinstance(obs.get('hosts'), str):
    e = '(UZk %s %s %s)' % (_text(obs['hosts']), _text(obs['path']), C.opt(_text(obs['name'])) if obs['name'] is not None else 'None')
  else:
    e = '(UNoHandler [(-3)]%Z)'
  if case['kind'] == 'tcp':
    # the model renders the URI itself from the endpoint list (and must agree with the harness' '%s:%d' rendering)
    eps = C.lst(['(%s, %s)' % (_text(h), C.zlit(p)) for h, p in case['eps']])
    return 'CUri (UTcpRendered %s %s %s %s %s %s)' % (_text(case['scheme']), eps, _text(uri), C.blit(envok), C.blit(envok), e)
  return 'CUri (UParse %s %s %s %s)' % (_text(uri), C.blit(envok), C.blit(envok), e)


def nontrivial(case, obs):
  if case['kind'] == 'proxy':
    return any(o.get('res') == 'call' for o in obs.get('probes', []))
  return 'exc' not in obs


def describe(case, obs):
  c = dict(case)
  o = dict(obs)
  if 'ops' in c and len(c['ops']) > 6:
    c['ops'] = c['ops'][:6] + ['...%d more' % (len(case['ops']) - 6)]
  if 'probes' in o and len(o['probes']) > 6:
    o['probes'] = o['probes'][:6] + ['...%d more' % (len(obs['probes']) - 6)]
  if 'eps' in c and len(c['eps']) > 6:
    c['eps'] = c['eps'][:6] + ['...']
  if 'eps' in o and len(o['eps']) > 6:
    o['eps'] = o['eps'][:6] + ['...']
  return {'case': c, 'obs': o}


def stats(cases, obs):
  res = {}
  rets = {}
  kinds = {}
  uri_out = {}
  feats = {}
  defer = {}
  n_alias = n_coll = n_multi = n_initalias = n_real = n_public = n_unspec = n_reserved = 0
  for c, o in zip(cases, obs):
    if not isinstance(o, dict) or 'harness_exc' in o:
      continue
    if c['kind'] == 'proxy':
      if 'mro' not in o:
        continue
      rm = resolved_members(c, o['mro'])
      pub, unspec = public_methods(c, o['mro'])
      n_public += len(pub)
      n_unspec += len(unspec)
      n_multi += 1 if any(len(k['bases']) > 1 for k in c['classes']) else 0
      n_real += 1 if c.get('dispatcher') == 'real' else 0
      for n, m in rm.items():
        kinds[m['type']] = kinds.get(m['type'], 0) + 1
        if m['type'] in FUNC_TYPES and m['fname'] != n:
          n_alias += 1
          if n == '__init__' and _is_public(m['fname']):
            n_initalias += 1
        if n in RESERVED and m['type'] in FUNC_TYPES:
          n_reserved += 1
      n_coll += sum(1 for n in pub | unspec if n + '_async' in rm)
      for op, p in zip(c['ops'], o.get('probes', [])):
        res[p.get('res')] = res.get(p.get('res'), 0) + 1
        if p.get('res') == 'call':
          key = '%s/%s' % (op['disp'], (p.get('ret') or ['?'])[0])
          rets[key] = rets.get(key, 0) + 1
          if p.get('deferred'):
            key = '%s:%s/%s' % (p['deferred'], op['disp'], (p.get('ret') or ['?'])[0])
            defer[key] = defer.get(key, 0) + 1
    else:
      key = c['kind'] + ':' + (o.get('type') or o.get('exc') or '?')
      uri_out[key] = uri_out.get(key, 0) + 1
      u = case_uri(c)
      for name, hit in (('bracket', '[' in u or ']' in u), ('both_brackets', '[' in u and ']' in u),
                        ('non_ascii', any(ord(ch) > 127 for ch in u)), ('leading_blank', u[:1] <= ' ' and u != ''),
                        ('tab_cr_lf', any(ch in u for ch in '\t\r\n')), ('upper_scheme', u[:1].isupper() or u[1:2].isupper()),
                        ('query', '?' in u), ('fragment', '#' in u), ('underscore_port', bool(re.search(r':[0-9_]*_[0-9_]*(,|$)', u))),
                        ('signed_port', bool(re.search(r':[ ]*[+-]', u))), ('blank_in_port', bool(re.search(r':[0-9]* [0-9]*(,|$)', u))),
                        ('no_double_slash', '://' not in u), ('empty_netloc_piece', ',,' in u or u.endswith(',') or '//,' in u),
                        ('extra_colon', bool(re.search(r':[^,/]*:[^,/]*:', u)))):
        if hit:
          feats[name] = feats.get(name, 0) + 1
  return {'lookup_resolutions': res, 'call_outcomes_by_dispatcher_behaviour': rets, 'member_kinds_resolved': kinds,
          'public_methods': n_public, 'alias_members': n_alias, 'aliases_with_unspecified_publicness': n_unspec,
          'init_aliases': n_initalias, 'foo_foo_async_collisions': n_coll, 'reserved_name_methods': n_reserved,
          'interfaces_with_multiple_inheritance': n_multi, 'interfaces_on_real_dispatcher': n_real,
          'calls_issued_while_open_pending_by_mode_and_outcome': defer, 'uri_outcomes': uri_out,
          'uri_features': feats}


COQ_HEADER = COQ_HEADER + '\n' + _common_header()
