"""C20 - Generated proxies and URI parsing are faithful for every interface.

Implementation under test (imported from $SCALES_REPO as it is now):
  scales.core.ClientProxyBuilder.CreateServiceClient / _BuildServiceProxy / _ProxyBase
  scales.core.ScalesUriParser.Parse (-> StaticServerSetProvider / ZooKeeperServerSetProvider)
  scales.dispatch.MessageDispatcher.DispatchMethodCall (in the 'real' dispatcher cases)
Model: coq/Model/Proxy.v, coq/Model/Uri.v (case type in coq/Model/ProxyUri.v).
Monitor: the property statement, written directly in Python from the case specification (no inspect,
no urlparse, no model).

Proxy cases: an interface is a small class hierarchy built with type() from a JSON specification; the
generated client is instantiated around a recording dispatcher and every name of interest is looked up
and, when it is a generated method, invoked ('ops').  URI cases: rendered endpoint lists, zk URIs (with a
recording stand-in for KazooClient, so nothing connects), foreign schemes and mutated/malformed URIs.
"""
import functools
import re
import sys
import types

from .. import common as C

PID = 'C20'
PROPS_FILE = 'Props/C20.v'
COQ_HEADER = 'From Coq Require Import String ZArith List.\nFrom Scales Require Import Model.Proxy Model.Uri Model.ProxyUri.\nImport ListNotations.\nLocal Open Scope string_scope.'
COQ_CASE_TYPE = 'ProxyUri.case'
COQ_CHECK = 'ProxyUri.check_case'
COQ_EXPLAIN = 'ProxyUri.explain_case'
SHARD = 100
WORKERS = 4
RULE = ('seeded generator. Proxy cases: 1-4 classes built with type() (single/multiple inheritance, overrides), members '
        'of 12 kinds (def, async def, lambda, staticmethod, classmethod, foreign bound method, property, data, builtin, '
        'partial, callable instance, nested class) with names plain/_x/x_/__x/x__/__x__/_/__/___/non-ASCII, aliases whose '
        '__name__ differs from the attribute (incl. __init__ = helper), deliberate foo/foo_async collisions, reserved names '
        '(_dispatcher, DispatcherOpen/Close), signatures with defaults, *args, **kwargs, keyword-only and positional-only '
        'parameters; every resolved attribute, its _async and some _async_async/absent names are looked up and every '
        'generated method is invoked with 0-4 positional and 0-3 keyword arguments (identity-tracked values; keyword names '
        'include timeout/method/args/kwargs) against a dispatcher that raises, or returns a pending result settled with a '
        'value or an error (stub result object or the real scales AsyncResult), or against the real MessageDispatcher over '
        'a recording sink whose Open() is complete before the calls, completes after all calls were issued (deferred '
        'dispatch, with and without a call timeout; blocking forms run in greenlets), completes after the calls\' deadline '
        'or never (the call\'s error is then its TimeoutError), or fails (before the calls / after they were issued); '
        'self-audit dimensions: two client instances of the one generated class with their own dispatchers (calls '
        'interleaved, completion of the two Open()s in both orders); the dispatcher calling back into a client from inside '
        'DispatchMethodCall or from inside get(); completion callbacks of pending results that call the client again; '
        'pending results settled only after they were returned (async form must hand them back unsettled, blocking form '
        'blocks); sinks replying after AsyncProcessRequest returned; errors of 7 kinds incl. BaseException subclasses, '
        'gevent.Timeout, StopIteration, the scales TimeoutError; DispatcherClose / calls on the closed client / '
        'DispatcherOpen again; the same object passed twice (also once by keyword), equal-but-not-identical arguments, '
        '255-300 positional arguments, the empty keyword name, 255-300 character names, an interface with no members. '
        'URI cases: tcp URIs rendered from 1-20 (sometimes 60) endpoints (dotted names, IPv4, odd hosts, '
        'ports 0..10^20, scheme case variants), zk URIs (hosts with/without ports, path, optional #name, optional query), '
        'foreign schemes, and mutated/malformed URIs (missing/extra colons, signs, underscores and blanks in ports, '
        'brackets, leading blanks, tabs, non-ASCII); every URI is parsed twice by the same parser (same answer), every static '
        'provider is read twice, 30% go through Scales.NewBuilder(...).SetUri, 30% after the same parser handled other good '
        'and bad URIs; 255/256/257/1000 endpoints and 255..65536-character hosts occasionally (URIs above 20 kB: monitor only). non-trivial = a proxy case with at least one forwarded call, or a URI '
        'that was accepted; distinct by canonical JSON of (case, observation)')
TRUSTED = ['the case specification -> class construction in harness/props/c20.py (type(), exec of generated def statements)',
           'classification of a looked-up attribute by the class that owns it in type(proxy).__mro__',
           'Python class semantics (MRO, descriptor lookup), inspect.getmembers, urllib.parse.urlsplit and int() are the '
           'environment: transcribed in the model for the inputs generated here and re-compared on every run']
ASSUMPTIONS = ['ports have fewer than 4300 digits (CPython int_max_str_digits); the model of int() covers ASCII text '
               '(URIs containing non-ASCII decimal digits or blanks are checked by the monitor only)',
               'urlsplit\'s IPv6-literal validation and NFKC netloc check are environment oracles of the model '
               '(theorems hold for every oracle)',
               'a keyword argument named "self" cannot be forwarded (Python binds it to the proxy instance); '
               'an interface method named _dispatcher is hidden by the instance attribute of the same name; '
               'when an interface declares both foo and foo_async the generated async form of foo shadows the blocking '
               'form of foo_async (lemma C20_collision; DESIGN.md section 10)']

MANIFEST = {
    'text': ('Theorems C20_both_forms, C20_collision, C20_excluded, C20_tcp, C20_zk, C20_scheme hold for every interface '
             '(any member list, any names, any arguments, any dispatcher outcome) and every endpoint list / URI of the Gallina '
             'transcription of ClientProxyBuilder._BuildServiceProxy and ScalesUriParser.Parse (incl. the part of urlsplit and '
             'int() they rely on); the transcription is compared with the real code on ~1k interfaces (~25k lookups/calls) and '
             '~2.5k URIs per quick run (x10 thorough).'),
    'note': ('Specification-sized model: the weight rests on the correspondence (Python reflection, urlsplit and int() are '
             'environment). Trusted: Coq kernel, the harness and its sampling. All theorems closed under the global context.'),
    'technique': 'Coq proof (dictionary-update invariants, split/join and decimal round-trip) + differential execution model vs code',
    'design_ref': 'DESIGN.md section 5, C20; section 10 (proxy name collisions)',
}

_S = {}


# ---------------------------------------------------------------------------------------------
# setup: import the real code, build the stubs
# ---------------------------------------------------------------------------------------------
class _Pending(object):
  """Stand-in for the pending result returned by DispatchMethodCall."""

  def __init__(self, value=None, error=None):
    self.value, self.error, self.gets = value, error, 0
    self.hook = None

  def get(self, *a, **k):
    self.gets += 1
    h, self.hook = self.hook, None
    if h is not None:
      h()                      # re-entrancy: the caller's code runs inside get()
    if self.error is not None:
      raise self.error
    return self.value


class _StubDispatcher(object):
  """Records what the proxy hands over; same call signature as MessageDispatcher.DispatchMethodCall.
  Every expected call is scripted ({'id', 'kind', 'obj', 'hook'}); the script may call back into a proxy."""

  def __init__(self):
    self.calls = []
    self.queue = []
    self.opened = self.closed = 0

  def Open(self):
    self.opened += 1
    return _Pending(True)

  def Close(self):
    self.closed += 1

  def DispatchMethodCall(self, method, args, kwargs, timeout=None):
    sc = self.queue.pop(0) if self.queue else None
    self.calls.append((method, args, kwargs, timeout, sc['id'] if sc else None))
    if sc is None:
      raise _Err('unscripted dispatch')
    if sc.get('hook') is not None:
      sc['hook']()             # re-entrancy: the dispatcher calls back into a proxy before it returns
    if sc['kind'] == 'raise':
      raise sc['obj']
    return sc['obj']


class _Val(object):
  __slots__ = ('i',)

  def __init__(self, i):
    self.i = i


class _Err(Exception):
  pass


class _BaseErr(BaseException):
  pass


ERR_KINDS = ['exc', 'exc', 'base', 'gtimeout', 'stopiter', 'keyerr', 'stimeout']


def _mk_err(kind, tag):
  if kind == 'base':
    return _BaseErr(tag)
  if kind == 'gtimeout':
    import gevent
    return gevent.Timeout()
  if kind == 'stopiter':
    return StopIteration(tag)
  if kind == 'keyerr':
    return KeyError(tag)
  if kind == 'stimeout':
    return _S['ScalesTimeoutError']()
  return _Err(tag)


class _FakeKazoo(object):
  """Recording stand-in for kazoo.client.KazooClient: nothing is resolved or connected."""
  created = []

  def __init__(self, *args, **kwargs):
    self.args, self.kwargs = args, kwargs
    self.started = self.stopped = 0
    _FakeKazoo.created.append(self)

  def start(self, *a, **k):
    self.started += 1

  def stop(self, *a, **k):
    self.stopped += 1


def setup():
  if _S:
    return
  if C.REPO not in sys.path:
    sys.path.insert(0, C.REPO)
  import scales
  assert scales.__file__.startswith(C.REPO), scales.__file__
  import warnings
  warnings.simplefilter('ignore')
  from scales import core
  from scales.asynchronous import AsyncResult
  from scales.dispatch import MessageDispatcher
  from scales.sink import ClientMessageSink
  from scales.message import MethodReturnMessage
  from scales.constants import SinkProperties, ChannelState
  from scales.loadbalancer.serverset import StaticServerSetProvider, ZooKeeperServerSetProvider

  class CountingAsyncResult(AsyncResult):
    gets = 0
    hook = None

    in_get = False

    def get(self, *a, **k):
      if self.in_get:            # gevent's blocking get() re-enters get(block=False) once the result is there
        return AsyncResult.get(self, *a, **k)
      self.gets += 1
      h, self.hook = self.hook, None
      if h is not None:
        h()
      self.in_get = True
      try:
        return AsyncResult.get(self, *a, **k)
      finally:
        self.in_get = False

  class RecSink(ClientMessageSink):
    """Terminal sink: records the MethodCallMessage and answers as scripted.  Calls may arrive in any order
    (deferred dispatch, several greenlets): each carries a token object that selects its answer."""

    def __init__(self, open_ar=None):
      super(RecSink, self).__init__()
      self.calls = []
      self.next = None
      self.script = {}           # token object -> (kind, obj, 'inline' | 'later')
      self.open_ar = open_ar     # None: Open() completes at once; else the harness completes it (or never does)

    @property
    def state(self):
      return ChannelState.Open

    def Open(self):
      return self.open_ar if self.open_ar is not None else AsyncResult.Complete()

    def Close(self):
      pass

    def AsyncProcessRequest(self, sink_stack, msg, stream, headers):
      self.calls.append((msg.method, msg.args, msg.kwargs, None))
      kind, obj, when = (self.next or ('value', None)) + ('inline',)
      try:
        vals = list(msg.args) + list(msg.kwargs.values())
      except Exception:
        vals = []
      tok = next((a for a in vals if isinstance(a, _Val) and isinstance(a.i, tuple) and a.i[0] == 'tok'), None)
      if self.script:
        kind, obj, when = self.script.get(tok, ('error', _Err('call without its token'), 'inline'))

      def respond():
        if kind == 'value':
          sink_stack.AsyncProcessResponseMessage(MethodReturnMessage(obj))
        else:
          sink_stack.AsyncProcessResponseMessage(MethodReturnMessage(error=obj))
      if when == 'later':
        import gevent
        gevent.spawn_later(0.001, respond)      # the reply arrives after AsyncProcessRequest returned
      else:
        respond()

    def AsyncProcessResponse(self, sink_stack, context, stream, msg):
      raise NotImplementedError()

  class RecProvider(object):
    def __init__(self, open_ar=None):
      self.sink = RecSink(open_ar)

    def CreateSink(self, properties):
      return self.sink

  RealKazoo = ZooKeeperServerSetProvider.__dict__.get('KazooClient')

  class SafeKazoo(RealKazoo):
    """The real KazooClient (it parses the host list itself) that can never connect."""
    c20_started = 0

    def start(self, *a, **k):
      self.c20_started += 1

    def start_async(self, *a, **k):
      self.c20_started += 1

  from scales.message import TimeoutError as ScalesTimeoutError
  from scales.core import Scales
  _S.update(SafeKazoo=SafeKazoo, ScalesTimeoutError=ScalesTimeoutError, Scales=Scales)
  _S.update(core=core, AsyncResult=AsyncResult, CountingAsyncResult=CountingAsyncResult,
            MessageDispatcher=MessageDispatcher, RecProvider=RecProvider, SinkProperties=SinkProperties,
            Static=StaticServerSetProvider, Zk=ZooKeeperServerSetProvider,
            RealKazoo=RealKazoo)


# ---------------------------------------------------------------------------------------------
# generators
# ---------------------------------------------------------------------------------------------
LETTERS = 'abcdefghijklmnopqrstuvwxyzABCDEFGHIJKLMNOPQRSTUVWXYZ'
FUNC_TYPES = ('def', 'async', 'lambda', 'static', 'classm', 'bound')
OTHER_TYPES = ('prop', 'data', 'builtin', 'partial', 'callable', 'class')
SIGS = [[], ['a'], ['a', 'b'], ['a', 'b=2'], ['a=None'], ['a', '*args'], ['**kw'], ['*args', '**kwargs'],
        ['a', 'b=None', '*args', '**kwargs'], ['*', 'k'], ['a', '*', 'k=3'], ['a', '/', 'b'], ['a', 'b', 'c', 'd=4']]
KWNAMES = ['a', 'b', 'k', 'x', 'timeout', 'method', 'method_name', 'args', 'kwargs', 'asynchronous', 'ar', 'cls', 'é', '']
RESERVED = ('_dispatcher',)
NO_PROBE = set(dir(object)) | {'__dict__', '__weakref__', '__module__', '__doc__', '__del__', '__slots__',
                               '__abstractmethods__', '__qualname__', '__name__', '__mro__', '__bases__'}


def rand_base(r):
  n = r.choice([1, 1, 2, 3, 5, 8])
  if r.random() < 0.004:
    n = r.choice([255, 256, 300])      # very long identifiers
  s = r.choice(LETTERS) + ''.join(r.choice(LETTERS + '0123456789_') for _ in range(n - 1))
  k = r.random()
  if k < 0.06:
    s = s + '__' + r.choice(LETTERS)       # inner double underscore
  elif k < 0.10:
    s = r.choice('éßλж') + s               # non-ASCII identifier
  return s


HARMLESS_DUNDERS = ('__call__', '__len__', '__enter__')


def _safe_name(n):
  """Python's own special names (object construction, attribute access, class creation, ...: __new__,
  __getattribute__, __slots__, __class__, __eq__, __hash__, __del__ ...) are all-lower-case __x__ words.  An interface
  member of such a name changes what 'an instance of the interface' means and is not a method the property talks
  about, so a generated all-lower-case __x__ name gets a capital letter; a few harmless ones are kept."""
  if len(n) > 4 and n.startswith('__') and n.endswith('__') and n not in HARMLESS_DUNDERS:
    core = n.strip('_')
    if core and core == core.lower() and core.replace('_', '').isalpha() and core.isascii():
      i = n.index(core)
      return n[:i] + core[0].upper() + core[1:] + n[i + len(core):]
  return n


def rand_name(r):
  return _safe_name(_rand_name(r))


def _rand_name(r):
  b = rand_base(r)
  k = r.random()
  if k < 0.45:
    return b
  if k < 0.53:
    return '_' + b
  if k < 0.59:
    return b + '_'
  if k < 0.67:
    return '__' + b
  if k < 0.75:
    return b + '__'
  if k < 0.84:
    return '__' + b + '__'
  if k < 0.87:
    return '_' + b + '_'
  if k < 0.90:
    return '___' + b
  if k < 0.92:
    return b + '___'
  if k < 0.94:
    return '_' + b + '__'
  return r.choice(['_', '__', '___', '____', '_a', 'a_', '__call__', '__len__', '__enter__', '_async', 'x_async'])


def rand_member(r, existing):
  attr = rand_name(r)
  k = r.random()
  if existing and k < 0.12:
    attr = r.choice(existing) + '_async'             # collision foo / foo_async
  elif existing and k < 0.16:
    attr = r.choice(existing)                        # override in a subclass / duplicate
  elif k < 0.175:
    attr = r.choice(['_dispatcher', 'DispatcherOpen', 'DispatcherClose'])
  t = r.choice(FUNC_TYPES + ('def', 'def', 'def', 'def', 'static', 'classm')) if r.random() < 0.75 else r.choice(OTHER_TYPES)
  if attr in ('_dispatcher', 'DispatcherOpen', 'DispatcherClose') and t not in FUNC_TYPES:
    t = 'def'          # (a property named _dispatcher would make _ProxyBase.__init__ fail: not an interface method at all)
  m = {'attr': attr, 'type': t}
  if t in FUNC_TYPES:
    m['fname'] = '<lambda>' if t == 'lambda' else attr
    if r.random() < 0.14:
      m['fname'] = rand_name(r)                      # alias: attribute name != function __name__
    m['sig'] = r.choice(SIGS)
  return m


def gen_proxy(r, idx):
  ncls = r.choice([1, 1, 1, 2, 2, 3, 4])
  classes = []
  names = []
  for ci in range(ncls):
    bases = []
    if ci > 0:
      want = r.choice([1, 1, 1, 2, 3]) if ci > 1 else 1
      cand = list(range(ci))
      r.shuffle(cand)
      bases = sorted(cand[:want], reverse=True)
    members = []
    for _ in range(r.choice([0, 1, 2, 3, 4, 6]) if ci < ncls - 1 else r.choice([1, 2, 3, 5, 8])):
      m = rand_member(r, names)
      if m['attr'] in [x['attr'] for x in members]:
        continue
      members.append(m)
      names.append(m['attr'])
    if r.random() < 0.06:
      members.append({'attr': '__init__', 'type': 'def', 'fname': '__init__', 'sig': []})
    elif r.random() < 0.05 and not any(x['attr'] == '__init__' for x in members):
      members.append({'attr': '__init__', 'type': 'def', 'fname': r.choice(['helper', '_setup', 'init']), 'sig': []})
    classes.append({'bases': bases, 'members': members})
  if r.random() < 0.008:
    classes, names = [{'bases': [], 'members': []}], []      # an interface with nothing to proxy
  realdisp = r.random() < 0.14
  case = {'kind': 'proxy', 'classes': classes, 'dispatcher': 'real' if realdisp else 'stub',
          'pending': r.choice(['stub', 'real']), 'build': r.choice(['create', 'create', 'build']),
          'two': r.random() < 0.5}           # two client instances of the one generated class, each with its own dispatcher
  openmode = 'ready'
  if realdisp:
    # how Open() ends relative to the calls: complete before them / already failed before them / completes (or fails)
    # after all of them were issued (deferred dispatch; call timeout 10, None or 0) / after their deadline / never
    openmode = case['open'] = r.choice(['ready', 'ready', 'ready', 'ready_failed', 'late', 'late', 'late', 'late', 'late_notimeout',
                                        'late_zero', 'late_fail', 'late_fail', 'after_deadline', 'never'])
    case['open_order'] = r.choice([0, 1])
  # names to look up
  probe = []
  allnames = sorted(set(names))
  for n in allnames:
    probe += [n, n + '_async']
    if r.random() < 0.25:
      probe.append(n + '_async_async')
    if r.random() < 0.1:
      probe.append(n[:-1] if len(n) > 1 else n + 'q')
  probe += [rand_name(r), rand_name(r) + '_async']
  if r.random() < 0.3:
    probe += ['_dispatcher', 'DispatcherOpen', 'DispatcherClose']
  if any(m['attr'] == '__init__' for c in classes for m in c['members']):
    probe.append('__init___async')
  probe = [n for n in probe if n not in NO_PROBE and n != '__init__']
  probe = probe + [r.choice(probe) for _ in range(r.choice([0, 2, 5]))] if probe else probe
  r.shuffle(probe)

  def call_spec(n):
    nargs = r.choice([0, 0, 1, 1, 2, 3, 4])
    if r.random() < 0.004:
      nargs = r.choice([255, 256, 300])
    args = [r.randrange(8) for _ in range(nargs)]
    if args and r.random() < 0.15:
      args.append(args[0])               # the same object twice
    kws = r.sample(KWNAMES, r.choice([0, 0, 0, 1, 1, 2, 3]))
    kwargs = [[kw, r.randrange(8)] for kw in kws]
    if args and kwargs and r.random() < 0.2:
      kwargs[0][1] = args[0]             # ... and once more by keyword
    d = r.choice(['value', 'value', 'value', 'error', 'error', 'raise'])
    if realdisp and d == 'raise':
      d = 'error'
    op = {'name': n, 'args': args, 'kwargs': kwargs, 'disp': d}
    if d != 'value':
      op['err'] = r.choice(ERR_KINDS)
    if case['two']:
      op['inst'] = r.choice([0, 1])
    return op
  ops = []
  for n in probe:
    op = call_spec(n)
    if realdisp:
      if r.random() < 0.3:
        op['reply'] = 'later'            # the sink answers after AsyncProcessRequest returned, not inside it
      if openmode.startswith('late') and r.random() < 0.3:
        op['chain'] = True               # the completion callback of the pending result calls the client again
    else:
      if op['disp'] != 'raise' and r.random() < 0.2:
        op['settle'] = 'after'           # the pending result is settled only after DispatchMethodCall returned it
      if r.random() < 0.12:
        op['inner'] = call_spec(r.choice(probe))     # re-entrancy: a second call from inside the first
        op['inner']['where'] = r.choice(['dispatch', 'get'])
    ops.append(op)
  if realdisp and openmode == 'ready' and ops and r.random() < 0.45:
    # second life: Close, calls on the closed client, Open again, more calls
    i = r.randrange(len(ops) + 1)
    ctl = {'ctl': 'close'}
    if case['two']:
      ctl['inst'] = r.choice([0, 1])
    ops.insert(i, ctl)
    if r.random() < 0.8:
      j = r.randrange(i + 1, len(ops) + 1)
      ops.insert(j, dict(ctl, ctl='open'))
      if r.random() < 0.3:
        ops.insert(r.randrange(j + 1, len(ops) + 1), dict(ctl, ctl='close'))
  case['ops'] = ops
  return case


HOST_PARTS = ['a', 'b1', 'web', 'zk1', 'zk', 'svc-7', 'example', 'com', 'net', 'local', 'X', 'Node_3', 'x--y', '0', '9z']


def rand_host(r):
  k = r.random()
  if k < 0.45:
    return '.'.join(r.choice(HOST_PARTS) for _ in range(r.choice([1, 2, 3, 4])))
  if k < 0.75:
    return '.'.join(str(r.choice([0, 1, 10, 127, 192, 255, r.randrange(256)])) for _ in range(4))
  if k < 0.82:
    return 'localhost'
  if k < 0.88:
    return ''.join(r.choice(LETTERS + '0123456789-._~%@!$&\'()*+;= ') for _ in range(r.choice([1, 2, 5, 12])))
  if k < 0.92:
    return r.choice(['bücher.example', 'ñ', 'хост.рф', '例え.jp'])
  if k < 0.94:
    return ''
  if k < 0.945:
    return 'h' * r.choice([255, 256, 65535, 65536])      # very long host names (the longest are compared by the monitor only)
  return r.choice(HOST_PARTS)


def rand_port(r):
  return r.choice([0, 1, 7, 80, 443, 2181, 8080, 9090, 10000, 65535, 65536, 99999999, 10 ** 20, 2 ** 64,
                   r.randrange(65536), r.randrange(65536), r.randrange(65536), r.randrange(10 ** 9)])


def case_variant(r, s):
  k = r.random()
  if k < 0.7:
    return s
  if k < 0.8:
    return s.upper()
  return ''.join(c.upper() if r.random() < 0.5 else c for c in s)


OTHER_SCHEMES = ['http', 'https', 'file', 'ftp', 'tcps', 'tcp4', 'zks', 'zoo', 'tc', 'cp', 'z', 'k', 't', 'udp', 'inet+tcp',
                 'tcp+zk', 'tcp.zk', 'zk-tcp', 'thrift', 'mux', 'kafka', 'HTTP', 'TcpX', 'zK2', 'tcpp', 'ttcp', 'zkk', 'zzk', 'a1+.-']


def gen_uri(r, idx):
  c = _gen_uri(r, idx)
  if r.random() < 0.3:
    c['via'] = 'builder'
  if r.random() < 0.3:
    c['warm'] = [r.choice(WARM_URIS) for _ in range(r.choice([1, 2, 3]))]
  return c


def _gen_uri(r, idx):
  k = r.random()
  if k < 0.40:
    n = r.choice([1, 1, 2, 3, 5, 8, 13, 20, r.randrange(1, 21), r.randrange(1, 21)])
    if r.random() < 0.02:
      n = 60
    if r.random() < 0.006:
      n = r.choice([255, 256, 257, 1000])
    return {'kind': 'tcp', 'scheme': case_variant(r, 'tcp'), 'eps': [[rand_host(r), rand_port(r)] for _ in range(n)]}
  if k < 0.60:
    n = r.choice([1, 1, 2, 3, 5])
    hs = []
    for _ in range(n):
      h = rand_host(r) or 'zk'
      hs.append(h + ':%d' % r.choice([2181, 2181, 2182, r.randrange(1, 65536)]) if r.random() < 0.8 else h)
    path = r.choice(['', '/', '/a', '/test/path', '/svc/prod/web', '/a/b/c/d/e', '/p:q', '/a,b', '/x y', '//dbl', '/é'])
    name = r.choice([None, None, 'http', 'thrift', 'admin', 'a#b', 'x?y', 'n/m', 'é', '0'])
    query = r.choice([None, None, None, None, 'q=1', ''])
    plain = all(re.fullmatch(r'[A-Za-z0-9._-]+(:[0-9]+)?', h) for h in hs)      # kazoo parses the host list itself
    return {'kind': 'zk', 'scheme': case_variant(r, 'zk'), 'hosts': ','.join(hs), 'path': path, 'name': name,
            'query': query, 'kazoo': 'real' if (plain and r.random() < 0.15) else 'stub'}
  if k < 0.75:
    if r.random() < 0.7:
      s = r.choice(OTHER_SCHEMES)
    else:
      s = r.choice(LETTERS) + ''.join(r.choice(LETTERS + '0123456789+-.') for _ in range(r.choice([0, 1, 2, 4])))
      if s.lower() in ('tcp', 'zk'):
        s += 'x'
    rest = r.choice(['//h:1', '//h:1,g:2', '//zk1:2181/path#name', '//', '', '/x', 'h:1', '//[::1]:80/', '//h:1?q#f', '//[bad'])
    return {'kind': 'other', 'uri': s + ':' + rest}
  # mutated / malformed
  if r.random() < 0.3:           # int() on odd port text
    ports = [''.join(r.choice(' _+-00112233456789\x0b\x0c') for _ in range(r.choice([0, 1, 2, 3, 4, 6]))) for _ in range(r.choice([1, 1, 2]))]
    return {'kind': 'raw', 'uri': 'tcp://' + ','.join('h%d:%s' % (i, p) for i, p in enumerate(ports))}
  base = r.choice(['tcp://a:1', 'tcp://host.example.com:8080,10.0.0.2:9090', 'zk://zk1:2181,zk2:2181/svc/path#http',
                   'tcp://a:1,b:2,c:3', 'zk://z/p', 'tcp://[::1]:80', 'http://a:1', 'tcp://h:65535'])
  alpha = ',,::://##??[]@ \t\n\r\x0b\x0c\x1c\x00_+-0123456789abctpzkTCPZK.%' + 'é١\u00a0\u2100'
  s = list(base)
  for _ in range(r.choice([1, 1, 2, 3, 5])):
    op = r.random()
    pos = r.randrange(len(s) + 1)
    if op < 0.45:
      s.insert(pos, r.choice(alpha))
    elif op < 0.75 and s:
      del s[min(pos, len(s) - 1)]
    elif s:
      s[min(pos, len(s) - 1)] = r.choice(alpha)
  return {'kind': 'raw', 'uri': ''.join(s)}


FIXED_URIS = ['tcp://localhost:8080,localhost:8081', 'zk://zk1.zk.com:2181/test/path', 'tcp://', 'tcp:', 'tcp', '', ':', '://',
              'tcp://a', 'tcp://a:', 'tcp://:1', 'tcp://a:1,', 'tcp://,a:1', 'tcp://a:1,,b:2', 'tcp://a:1:2', 'tcp://a:b',
              'tcp://a: 1', 'tcp://a:1 ', 'tcp://a:+1', 'tcp://a:-1', 'tcp://a:--1', 'tcp://a:+-1', 'tcp://a:1_0', 'tcp://a:_1',
              'tcp://a:1_', 'tcp://a:1__0', 'tcp://a:0_0', 'tcp://a:007', 'tcp://a:0x10', 'tcp://a:1e3', 'tcp://a:1.0', 'tcp://a:+',
              'tcp://a:- 1', 'tcp://a:\x0b1\x0c', 'tcp://a:\x1c1', 'tcp://a:\x001', 'tcp://a:1/p', 'tcp://a:1?x', 'tcp://a:1#f',
              'tcp://a:1/p#f?q', 'tcp://u@a:1', 'tcp://[::1]:5', 'tcp://[::1:5', 'tcp://::1]:5', 'tcp://[::1]', 'tcp://[x]:5',
              'tcp://[]:5', 'tcp://a:1,[::1]', ' tcp://a:1', '\x00\x1f tcp://a:1', 't\tc\np\r://a:\t1', 'tcp:/a:1', 'tcp:a:1',
              'tcp:///a:1', 'TCP://A:1', 'tCp://a:1', 'ZK://h/p#n', 'zk://', 'zk:', 'zk:///p', 'zk://h', 'zk://h/', 'zk://h#n',
              'zk://h?q', 'zk://h/p?q', 'zk://h/p?q#n', 'zk://h/p#', 'zk://h/p#n#m', 'zk://h/p#n?q', 'zk://h/p?q#n?r', 'zk://h/p;x#n',
              'zk://a:x/p', 'zk://[::1]:2181/p', 'x://a', '1tcp://a:1', '+tcp://a:1', 't cp://a:1', 'tcp ://a:1', 't+c.p-1://a',
              'tcp2://a:1', 'http://a:1', '//a:1', 'a:1', 'tcp//a:1', 'tcp://é:1', 'tcp://\u2100:1', 'tcp://a:١٢', 'tcp://a:\u00a01',
              'ｔcp://a:1', 'tcp://a:1\u3000']


def gen_cases(tier, seed):
  n_proxy = 1000 if tier == 'quick' else 10000
  n_uri = 2000 if tier == 'quick' else 20000
  out = [{'kind': 'raw', 'uri': u} for u in FIXED_URIS]
  for i in range(n_proxy):
    out.append(gen_proxy(C.case_rng(seed, PID, i), i))
  for i in range(n_uri):
    out.append(gen_uri(C.case_rng(seed, PID + 'u', i), i))
  return out


def search_cases(tier, seed, diverging):
  out = []
  for i in range(3000):
    out.append(gen_proxy(C.case_rng(seed + 104729, PID, i), i))
  for i in range(6000):
    out.append(gen_uri(C.case_rng(seed + 104729, PID + 'u', i), i))
  return out


# ---------------------------------------------------------------------------------------------
# implementation driver: proxies
# ---------------------------------------------------------------------------------------------
_CODE = {}


def _mk_func(fname, params, uid, log, is_async=False):
  src = '%sdef _f(%s):\n  _LOG.append(("own", _UID))\n  return ("ownret", _UID)\n' % (
      'async ' if is_async else '', ', '.join(params))
  code = _CODE.get(src)
  if code is None:
    code = _CODE[src] = compile(src, '<c20-iface>', 'exec')
  ns = {'_LOG': log, '_UID': uid}
  exec(code, ns)
  f = ns['_f']
  f.__name__ = fname
  f.__qualname__ = fname
  return f


class _Helper(object):
  pass


class _Callable(object):
  def __call__(self, *a, **k):
    return None


def _mk_value(m, uid, log):
  t = m['type']
  sig = list(m.get('sig') or [])
  if t == 'def':
    return _mk_func(m['fname'], ['self'] + sig, uid, log)
  if t == 'async':
    return _mk_func(m['fname'], ['self'] + sig, uid, log, True)
  if t == 'lambda':
    f = (lambda self, *a, **k: log.append(('own', uid)))
    f.__name__ = m['fname']
    return f
  if t == 'static':
    return staticmethod(_mk_func(m['fname'], sig, uid, log))
  if t == 'classm':
    return classmethod(_mk_func(m['fname'], ['cls'] + sig, uid, log))
  if t == 'bound':
    return types.MethodType(_mk_func(m['fname'], ['self'] + sig, uid, log), _Helper())
  if t == 'prop':
    return property(_mk_func('getter', ['self'], uid, log))
  if t == 'data':
    return [None, 0, 7, 'text', 2.5, (1, 2), {'k': 1}][uid % 7]
  if t == 'builtin':
    return [len, repr, [].append][uid % 3]
  if t == 'partial':
    return functools.partial(_mk_func('p', ['x'], uid, log), 1)
  if t == 'callable':
    return _Callable()
  if t == 'class':
    return type('Nested', (object,), {})
  raise ValueError(t)


def build_iface(case, log):
  built = []
  for ci, c in enumerate(case['classes']):
    ns = {}
    for mi, m in enumerate(c['members']):
      ns[m['attr']] = _mk_value(m, ci * 100 + mi, log)
    bases = tuple(built[b] for b in c['bases']) or (object,)
    try:
      k = type('Iface%d' % ci, bases, ns)
    except TypeError:                    # inconsistent MRO for this choice of bases: keep the first base only
      k = type('Iface%d' % ci, bases[:1], ns)
    k.__module__ = 'c20.generated'
    built.append(k)
  return built


def _sibling_iface():
  k = _S.get('sibling_iface')
  if k is None:
    k = type('IfaceSibling', (object,), {'sibling_only': lambda self, a: None})
    k.__module__ = 'c20.generated'
    _S['sibling_iface'] = k
  return k


def _mro_indices(built):
  return [built.index(k) for k in built[-1].__mro__ if k in built]


def _ids(pool, xs):
  out = []
  for x in xs:
    out.append(next((i for i, p in enumerate(pool) if p is x), -1))
  return out


def _pool():
  """Argument values, tracked by identity; 1/5 and 2/7 are equal but not identical."""
  return [_Val(0), [1], {'k': 2}, tuple(['t', 3]), float(4) + 0.5, [1], 'six' * 2, {'k': 2}]


DTIMEOUT = {'ready': 10, 'ready_failed': 10, 'late': 10, 'late_notimeout': None, 'late_zero': 0, 'late_fail': 10,
            'after_deadline': 0.05, 'never': 0.05}


def _classify(p, name, disp, base_cls):
  inst = getattr(p, '__dict__', {})
  if name in inst:
    return 'field' if inst[name] is disp else 'instattr'
  owner = next((k for k in type(p).__mro__ if name in vars(k)), None)
  if owner is None:
    return 'missing'
  if owner is type(p):
    return 'call'
  if owner is base_cls:
    return 'base'
  if owner is object:
    return 'object'
  return 'own'


def _inst_of(insts, op):
  k = op.get('inst', 0)
  return insts[k if 0 <= k < len(insts) else 0]


def run_proxy(case):
  core = _S['core']
  log = []
  built = build_iface(case, log)
  iface = built[-1]
  obs = {'mro': _mro_indices(built), 'probes': []}
  builder = core.ClientProxyBuilder
  try:
    if case.get('build') == 'build':
      proxy_cls = builder._BuildServiceProxy(iface)
      obs['cache_same'] = True
    else:
      # self-contained cases (replays run in a fresh process): another interface of the same module has already been
      # turned into a client when this one is built
      try:
        builder.CreateServiceClient(_sibling_iface())
      except Exception:
        pass
      proxy_cls = builder.CreateServiceClient(iface)
      obs['cache_same'] = builder.CreateServiceClient(iface) is proxy_cls
  except Exception as e:
    obs['ctor'] = 'build:' + type(e).__name__
    return obs
  finally:
    try:
      builder._PROXY_TYPE_CACHE.pop(iface, None)     # hygiene only: do not keep 10^4 generated classes alive
    except Exception:
      pass
  real = case.get('dispatcher') == 'real'
  openmode = case.get('open', 'ready') if real else 'ready'
  insts = []
  for k in range(2 if case.get('two') else 1):
    open_ar = None
    if real:
      if openmode != 'ready':
        open_ar = _S['AsyncResult']()
        if openmode == 'ready_failed':
          open_ar.set_exception(_Err('open failed'))
      prov = _S['RecProvider'](open_ar)
      rec = prov.sink
      disp = _S['MessageDispatcher'](iface, prov, DTIMEOUT.get(openmode, 10), {_S['SinkProperties'].Label: 'c20-%d' % k})
    else:
      disp = rec = _StubDispatcher()
    insts.append({'disp': disp, 'rec': rec, 'open_ar': open_ar, 'closed': False, 'k': k})
  del log[:]
  try:
    for it in insts:
      it['p'] = proxy_cls(it['disp'])
      if real:
        it['disp'].Open()        # (not p.DispatcherOpen(): the interface may declare a method of that name)
    obs['ctor'] = 'ok'
  except Exception as e:
    obs['ctor'] = type(e).__name__
    return obs
  obs['isinstance'] = all(isinstance(it['p'], iface) for it in insts)
  base_cls = core._ProxyBase
  pool = _pool()
  pending_open = real and openmode not in ('ready', 'ready_failed')
  deferred = []
  for oi, op in enumerate(case['ops']):
    it = _inst_of(insts, op)
    if op.get('ctl'):
      o = {'res': 'ctl'}
      if real and not pending_open:
        try:
          if op['ctl'] == 'close':
            base_cls.DispatcherClose(it['p'])
            it['closed'] = True
          else:
            base_cls.DispatcherOpen(it['p'])
            it['closed'] = False
        except Exception as e:
          o['ctl_exc'] = type(e).__name__
      obs['probes'].append(o)
      continue
    o = {'res': _classify(it['p'], op['name'], it['disp'], base_cls)}
    if o['res'] == 'call':
      if pending_open:
        deferred.append((oi, op, o, it))         # issued below, while Open() is still pending
      elif real:
        _call_real(insts, it, op, o, oi, pool, log)
      else:
        _call_stub(case, insts, it, op, o, oi, pool, log, base_cls, 0)
    obs['probes'].append(o)
  if deferred:
    _run_deferred(case, insts, openmode, pool, deferred, log)
  return obs


def _record(o, pool, rcall):
  method, a, kw, timeout = rcall[:4]
  o['method'] = method if isinstance(method, str) else repr(method)
  o['args_tuple'] = type(a) is tuple
  o['kwargs_dict'] = type(kw) is dict
  try:
    o['args'] = _ids(pool, a)
  except TypeError:
    o['args'] = [-2]
  try:
    o['kwargs'] = [[k if isinstance(k, str) else repr(k), _ids(pool, [v])[0]] for k, v in kw.items()]
  except Exception:
    o['kwargs'] = [['?', -2]]
  o['timeout_none'] = timeout is None


def _call_stub(case, insts, it, op, o, oid, pool, log, base_cls, depth):
  """One call on a client over the recording dispatcher.  The dispatcher may call back into a client from inside
  DispatchMethodCall or from inside get() (op['inner']), and may settle the pending result only later."""
  import gevent
  value, err = _Val(('value', oid)), _mk_err(op.get('err', 'exc'), 'e%d' % oid)
  o['id'] = oid
  args = tuple(pool[i] for i in op['args'])
  kwargs = dict((k, pool[i]) for k, i in op['kwargs'])
  d = op['disp']
  after = op.get('settle') == 'after' and d != 'raise'
  pend = None
  sc = {'id': oid, 'hook': None}
  if d == 'raise':
    sc.update(kind='raise', obj=err)
  else:
    if case.get('pending') == 'real' or after:
      pend = _S['CountingAsyncResult']()
      if not after:
        if d == 'value':
          pend.set(value)
        else:
          pend.set_exception(err)
    else:
      pend = _Pending(value if d == 'value' else None, err if d == 'error' else None)
    sc.update(kind='return', obj=pend)
  inner = op.get('inner') if depth == 0 else None
  if inner:
    iit = _inst_of(insts, inner)

    def hook():
      io = {'res': _classify(iit['p'], inner['name'], iit['disp'], base_cls)}
      o['inner'] = io
      if io['res'] == 'call':
        _call_stub(case, insts, iit, inner, io, 1000 + oid, pool, log, base_cls, 1)
    if inner.get('where') == 'dispatch':
      sc['hook'] = hook
    elif pend is not None:
      pend.hook = hook
  it['rec'].queue.append(sc)
  before = [len(x['rec'].calls) for x in insts]
  if depth == 0:
    del log[:]
  if after:
    gevent.spawn_later(0.001, (lambda: pend.set(value)) if d == 'value' else (lambda: pend.set_exception(err)))
  try:
    if after:
      with gevent.Timeout(5):
        got = getattr(it['p'], op['name'])(*args, **kwargs)
    else:
      got = getattr(it['p'], op['name'])(*args, **kwargs)
    if got is value:
      o['ret'] = ['value', oid]
    elif pend is not None and got is pend:
      o['ret'] = ['pending', oid]
      if after:
        o['ready_at_return'] = bool(pend.ready())
    else:
      o['ret'] = ['other', repr(got)[:80]]
  except BaseException as e:        # noqa
    if e is err:
      o['ret'] = ['raise', oid]
    else:
      o['ret'] = ['other', 'raised %s: %s' % (type(e).__name__, str(e)[:80])]
  if after and not pend.ready():
    pend.wait(1)
  if sc in it['rec'].queue:
    it['rec'].queue.remove(sc)
  mine, other = [], 0
  for x, b in zip(insts, before):
    rel = [c for c in x['rec'].calls[b:] if c[4] in (oid, None)]
    if x is it:
      mine = rel
    else:
      other += len(rel)
  o['ncalls'] = len(mine)
  o['other_calls'] = other           # calls that reached the dispatcher of ANOTHER client instance
  o['gets'] = pend.gets if pend is not None else 0
  if mine:
    _record(o, pool, mine[0])
  o['own_ran'] = len(log)


def _token_calls(rec, before, token):
  def has(c):
    try:
      return any(a is token for a in list(c[1]) + list(c[2].values()))
    except Exception:
      return False
  return [c for c in rec.calls[before:] if has(c)]


def _strip_token(c, token):
  method, a, kw, t = c[:4]
  a2 = a[:-1] if (type(a) is tuple and a and a[-1] is token) else a      # the token rode as last positional
  return (method, a2, kw, t)


def _call_real(insts, it, op, o, oid, pool, log):
  """One call on a client over the real MessageDispatcher whose Open() has ended (completed or failed), or which
  was closed (second life: DispatcherClose / DispatcherOpen)."""
  import gevent
  AR = _S['AsyncResult']
  value = _Val(('value', oid))
  d = 'error' if op['disp'] == 'raise' else op['disp']
  err = _mk_err(op.get('err', 'exc'), 'e%d' % oid)
  o['id'] = oid
  token = _Val(('tok', oid))          # last positional argument: tells the sink which call this is
  it['rec'].script[token] = (d, value if d == 'value' else err, op.get('reply', 'inline'))
  args = tuple(pool[i] for i in op['args']) + (token,)
  kwargs = dict((k, pool[i]) for k, i in op['kwargs'])
  before = [len(x['rec'].calls) for x in insts]
  closed = o['closed'] = bool(it['closed'])
  del log[:]

  def is_closed_error(e):
    return closed and type(e) is Exception and 'not open' in str(e)
  try:
    with gevent.Timeout(5):
      got = getattr(it['p'], op['name'])(*args, **kwargs)
    if got is value:
      o['ret'] = ['value', oid]
    elif isinstance(got, AR):
      # the dispatcher's own pending result: it must settle as scripted
      try:
        v = got.get(timeout=5)
        o['ret'] = ['pending', oid] if (d == 'value' and v is value) else ['other', 'pending settled with %r' % (v,)]
      except BaseException as e2:     # noqa
        if d == 'error' and (e2 is err or getattr(e2, 'inner_exception', None) is err):
          o['ret'] = ['pending', oid]
        elif is_closed_error(e2):
          o['ret'] = ['pending-closed']
        else:
          o['ret'] = ['other', 'pending failed with %r' % (e2,)]
    else:
      o['ret'] = ['other', repr(got)[:80]]
  except BaseException as e:          # noqa
    if e is err or getattr(e, 'inner_exception', None) is err:
      o['ret'] = ['raise', oid]
    elif is_closed_error(e):
      o['ret'] = ['closed']
    else:
      o['ret'] = ['other', 'raised %s: %s' % (type(e).__name__, str(e)[:80])]
  mine = _token_calls(it['rec'], before[it['k']], token)
  o['ncalls'] = len(mine)
  o['other_calls'] = sum(len(_token_calls(x['rec'], b, token)) for x, b in zip(insts, before) if x is not it)
  o['gets'] = -1
  if mine:
    _record(o, pool, _strip_token(mine[0], token))
  o['own_ran'] = len(log)


def _run_deferred(case, insts, openmode, pool, deferred, log):
  """Calls issued while the real dispatchers' Open() is pending.  Blocking forms run in greenlets (they block in
  get(); the async forms finish at once with the pending result).  Then Open() completes or fails (late*),
  completes after the calls' deadline (after_deadline) or never does, and every call must end as the property
  says: the scripted value / error, or the call's own TimeoutError when it was never dispatched.  op['chain']:
  the completion callback of an async form's pending result calls the client again (re-entrancy)."""
  import gevent
  AR, TE = _S['AsyncResult'], _S['ScalesTimeoutError']
  del log[:]
  issued = []
  before = [len(x['rec'].calls) for x in insts]
  for oi, op, o, it in deferred:
    value = _Val(('value', oi))
    d = 'error' if op['disp'] == 'raise' else op['disp']
    err = _mk_err(op.get('err', 'exc'), 'e%d' % oi)
    o['id'] = oi
    token = _Val(('tok', oi))
    it['rec'].script[token] = (d, value if d == 'value' else err, op.get('reply', 'inline'))
    args = tuple(pool[i] for i in op['args']) + (token,)
    kwargs = dict((k, pool[i]) for k, i in op['kwargs'])
    meth = getattr(it['p'], op['name'])
    chain = None
    if op.get('chain') and openmode.startswith('late'):
      chain = {'value': _Val(('value', 2000 + oi)), 'token': _Val(('tok', 2000 + oi))}
      it['rec'].script[chain['token']] = ('value', chain['value'], 'inline')

    def blocking(meth=meth, args=args, kwargs=kwargs, chain=chain, value=value):
      try:
        r = meth(*args, **kwargs)
      except BaseException as e:      # noqa
        return ('exc', e)
      if chain is not None and isinstance(r, AR) and r is not value:
        def cb(_):
          try:
            chain['r2'] = meth(pool[0], chain['token'])
          except BaseException as e:  # noqa
            chain['exc'] = e
        r.rawlink(cb)
      return ('ok', r)
    g = gevent.spawn(blocking)
    gevent.sleep(0)                   # the method runs up to its first blocking point (or to completion)
    issued.append((oi, op, o, it, d, value, err, token, chain, g))
  o_early = [x[-1].ready() for x in issued]
  early_calls = sum(len(x['rec'].calls) - b for x, b in zip(insts, before))
  order = list(insts) if not case.get('open_order') else list(reversed(insts))
  if openmode == 'after_deadline':
    gevent.sleep(0.2)
  for x in order:
    if openmode == 'late_fail':
      x['open_ar'].set_exception(_Err('open failed'))
    elif openmode != 'never':
      x['open_ar'].set(True)
    gevent.sleep(0)
  gevent.joinall([x[-1] for x in issued], timeout=4)
  # one shared budget for all pending results (a changed dispatcher may leave many of them unsettled for ever)
  ars = [x[-1].value[1] for x in issued if x[-1].ready() and x[-1].value is not None and x[-1].value[0] == 'ok'
         and isinstance(x[-1].value[1], AR)]
  if ars:
    gevent.wait(ars, timeout=4)
  for k, (oi, op, o, it, d, value, err, token, chain, g) in enumerate(issued):
    o['deferred'] = openmode
    o['gets'] = -1
    o['early_dispatch'] = early_calls > 0
    if not g.ready():
      g.kill(block=False)
      o['ret'] = ['other', 'still blocked 4 s after Open() ended' if openmode.startswith('late') else 'still blocked after the deadline']
      continue
    tag, got = g.value if g.value is not None else ('exc', g.exception)
    how = None               # 'value' / 'error' / 'timeout' / text
    pending = False
    if tag == 'ok' and isinstance(got, AR) and got is not value:
      pending = True
      o['async_returned_at_once'] = o_early[k]
      try:
        v = got.get(block=False)
        how = 'value' if v is value else 'settled with %r' % (v,)
      except gevent.Timeout as e2:
        if got.ready():
          tag, got = 'exc', e2        # (the scripted error was a gevent.Timeout)
        else:
          how = 'never settled'
      except BaseException as e2:     # noqa
        tag, got = 'exc', e2
    if how is None:
      if tag == 'ok':
        how = 'value' if got is value else 'returned %r' % (got,)
      elif got is err or getattr(got, 'inner_exception', None) is err:
        how = 'error'
      elif isinstance(got, TE):
        how = 'timeout'
      else:
        how = 'raised %s: %s' % (type(got).__name__, str(got)[:80])
    o['how'] = how
    o['was_pending'] = pending
    if openmode.startswith('late'):
      if how == 'value' and d == 'value':
        o['ret'] = ['pending', oi] if pending else ['value', oi]
      elif how == 'error' and d == 'error':
        o['ret'] = ['pending', oi] if pending else ['raise', oi]
      else:
        o['ret'] = ['other', ('pending result ' if pending else '') + how]
    else:
      o['ret'] = ['pending-timeout' if pending else 'timeout'] if how == 'timeout' else ['other', ('pending result ' if pending else '') + how]
    if chain is not None and pending:
      gevent.sleep(0)
      if 'exc' in chain:
        o['chain'] = 'the call made from the completion callback raised %r' % (chain['exc'],)
      elif 'r2' not in chain:
        o['chain'] = 'the completion callback never ran'
      else:
        try:
          r2 = chain['r2']
          v2 = r2.get(timeout=2) if isinstance(r2, AR) else r2
          o['chain'] = 'ok' if v2 is chain['value'] else 'the call made from the completion callback gave %r' % (v2,)
        except BaseException as e3:   # noqa
          o['chain'] = 'the call made from the completion callback failed with %r' % (e3,)
  for k, (oi, op, o, it, d, value, err, token, chain, g) in enumerate(issued):
    mine = _token_calls(it['rec'], before[it['k']], token)
    o['ncalls'] = len(mine)           # never / after_deadline: 0 (a call that timed out waiting for Open() is C01's)
    o['other_calls'] = sum(len(_token_calls(x['rec'], b, token)) for x, b in zip(insts, before) if x is not it)
    if mine:
      _record(o, pool, _strip_token(mine[0], token))
    o['own_ran'] = len(log)


# ---------------------------------------------------------------------------------------------
# implementation driver: URIs
# ---------------------------------------------------------------------------------------------
def case_uri(case):
  k = case['kind']
  if k == 'tcp':
    return case['scheme'] + '://' + ','.join('%s:%d' % (h, p) for h, p in case['eps'])
  if k == 'zk':
    u = case['scheme'] + '://' + case['hosts'] + case['path']
    if case.get('query') is not None:
      u += '?' + case['query']
    if case.get('name') is not None:
      u += '#' + case['name']
    return u
  return case['uri']


WARM_URIS = ['tcp://warm1:1,warm2:2', 'zk://warmzk:2181/warm/path#warmname', 'http://warm', 'tcp://bad', 'tcp://w:1,w:1', 'ZK://W/']


def _observe_provider(core, prov, count_clients=True):
  Zk = _S['Zk']
  if isinstance(prov, _S['Static']):
    servers = prov.GetServers()
    eps = []
    typed = type(servers) is list
    for s in servers:
      ep = s.service_endpoint
      eps.append([ep.host, ep.port])
      typed = typed and type(ep.port) is int and isinstance(s, core.ScalesUriParser.Server) and \
          isinstance(ep, core.ScalesUriParser.Endpoint)
    o = {'type': 'static', 'eps': eps, 'typed': typed}
    # a provider is read many times (every balancer, every re-open): the second read must say the same
    try:
      again = [[s.service_endpoint.host, s.service_endpoint.port] for s in prov.GetServers()]
    except Exception as e:
      again = 'raised %s' % type(e).__name__
    o['reread_same'] = again == eps
    return o
  if isinstance(prov, Zk):
    o = {'type': 'zk', 'path': prov._zk_path, 'name': prov.endpoint_name, 'owns': bool(prov._owns_zk_client)}
    cl = prov._zk_client
    if isinstance(cl, _FakeKazoo):
      o['hosts'] = cl.kwargs.get('hosts', cl.args[0] if cl.args else None)
      o['started'] = cl.started
      if count_clients:
        o['nclients'] = len(_FakeKazoo.created)
    else:
      o['khosts'] = [[h, p] for h, p in cl.hosts]
      o['chroot'] = cl.chroot
      o['started'] = getattr(cl, 'c20_started', 0) + (1 if cl.connected else 0)
    return o
  return {'type': 'unknown:' + type(prov).__name__}


def run_uri(case):
  core = _S['core']
  Zk = _S['Zk']
  uri = case_uri(case)
  fake = not (case['kind'] == 'zk' and case.get('kazoo') == 'real')
  Zk.KazooClient = _FakeKazoo if fake else _S['SafeKazoo']
  try:
    if case.get('via') == 'builder':
      builder = _S['Scales'].NewBuilder(_sibling_iface())      # the public way: builder.SetUri(uri)
      parse = lambda u: builder.SetUri(u).server_set_provider
    else:
      parser = core.ScalesUriParser()
      parse = parser.Parse
    for w in case.get('warm') or []:     # the same parser / builder has already handled other URIs (good and bad)
      try:
        parse(w)
      except Exception:
        pass
    del _FakeKazoo.created[:]
    try:
      prov = parse(uri)
    except Exception as e:
      return {'exc': type(e).__name__, 'msg': str(e)[:200], 'exact': type(e) is Exception}
    o = _observe_provider(core, prov)
    # ... and handles the same URI again: same answer
    try:
      prov2 = parse(uri)
      o2 = _observe_provider(core, prov2, count_clients=False)
      o['again_same'] = all(o2.get(k) == o.get(k) for k in ('type', 'eps', 'path', 'name', 'hosts', 'khosts'))
    except Exception as e:
      o['again_same'] = False
      o['again_exc'] = type(e).__name__
    return o
  finally:
    Zk.KazooClient = _S['RealKazoo']


def run_impl(case):
  setup()
  if case['kind'] == 'proxy':
    return run_proxy(case)
  return run_uri(case)


# ---------------------------------------------------------------------------------------------
# monitor: the property statement, from the specification alone
# ---------------------------------------------------------------------------------------------
def resolved_members(case, mro):
  """First definition of every attribute along the MRO (what getattr(Iface, name) finds)."""
  seen = {}
  for ci in mro:
    for m in case['classes'][ci]['members']:
      if m['attr'] not in seen:
        seen[m['attr']] = m
  return seen


def _is_public(n):
  return not n.startswith('__') and not n.endswith('__')


def public_methods(case, mro):
  """Methods the property speaks about: functions/methods whose attribute name and own name are both public.
  Returns (definitely_public, unspecified): aliases whose two names disagree are left unspecified."""
  pub, unspec = set(), set()
  for n, m in resolved_members(case, mro).items():
    if m['type'] not in FUNC_TYPES:
      continue
    a, f = _is_public(n), _is_public(m['fname'])
    if a and f:
      pub.add(n)
    elif a != f:
      unspec.add(n)
  return pub, unspec


def call_pairs(case, obs):
  """(op, observation, closed) for every looked-up name, calls made from inside another call included; closed =
  the client's dispatcher had been closed (and not re-opened) by the control ops before this op."""
  ctl_live = case.get('dispatcher') == 'real' and case.get('open', 'ready') in ('ready', 'ready_failed')
  closed = {}
  out = []
  for op, o in zip(case['ops'], obs.get('probes', [])):
    k = op.get('inst', 0) if case.get('two') and op.get('inst', 0) in (0, 1) else 0
    if op.get('ctl'):
      if ctl_live:
        closed[k] = op['ctl'] == 'close'
      continue
    out.append((op, o, closed.get(k, False)))
    if op.get('inner') and isinstance(o.get('inner'), dict):
      out.append((op['inner'], o['inner'], False))
  return out


def in_domain(case):
  """False for a (hand-made or old) proxy case whose interface defines one of Python's own special names: such a class
  is not an interface the property talks about (see _safe_name); the generator never produces one."""
  if not all(m['attr'] == '__init__' or _safe_name(m['attr']) == m['attr']
             for c in case.get('classes', []) for m in c['members']):
    return False
  if case.get('dispatcher') == 'real':
    # with the real dispatcher the driver itself opens / closes the client through the proxy's own management methods;
    # an interface that defines a member of that name (or its _async twin) takes them away from the driver, and what is
    # then observed (calls blocked behind an Open() nobody issued) says nothing about the proxy
    mgmt = ('DispatcherOpen', 'DispatcherClose', '_dispatcher')
    for c in case.get('classes', []):
      for m in c['members']:
        a = m['attr']
        if a in mgmt or (a.endswith('_async') and a[:-6] in mgmt):
          return False
  return True


def monitor_proxy(case, obs):
  v = []
  if not in_domain(case):
    return v
  if obs.get('ctor') != 'ok':
    return [('proxy-construction-failed', 'building/instantiating the client raised %s' % obs.get('ctor'))]
  if not obs.get('isinstance', True):
    v.append(('proxy-not-instance', 'the client is not an instance of the interface'))
  pub, unspec = public_methods(case, obs['mro'])
  forwarding = pub | unspec
  for op, o, closed in call_pairs(case, obs):
    name = op['name']
    # which public method, if any, must this name be a form of?
    want = None
    if name in pub and name not in RESERVED:
      shadow = name.endswith('_async') and name[:-6] in forwarding
      if not shadow:
        want = (name, 'sync')
    if name.endswith('_async') and name[:-6] in pub:
      want = (name[:-6], 'async')          # the generated async form (shadows a declared foo_async, section 10)
    if want is None:
      continue
    m, mode = want
    tag = '%s form of %r (looked up as %r)' % (mode, m, name)
    if o.get('res') != 'call':
      v.append(('%s-form-missing' % mode, '%s is not a generated method: %s' % (tag, o.get('res'))))
      continue
    if o.get('other_calls'):
      v.append(('wrong-dispatcher', '%s reached the dispatcher of another client instance (%s times)' % (tag, o['other_calls'])))
    if closed:
      # the client was closed: the dispatcher refuses the call; the blocking form must raise that error, the async
      # form must raise it or hand back a pending result that fails with it
      # (a dispatcher that still serves the call is judged like any other call, below)
      ok = ('closed',) if mode == 'sync' else ('closed', 'pending-closed')
      if (o.get('ret') or ['?'])[0] in ok:
        continue
    if o.get('chain') not in (None, 'ok'):
      v.append(('async-result', '%s: %s' % (tag, o['chain'])))
    if o.get('deferred') in ('never', 'after_deadline'):
      # issued while Open() was pending and Open() did not complete before the call's deadline: the call's
      # error is its TimeoutError - raised by the blocking form, carried by the pending result of the async form
      exp = 'timeout' if mode == 'sync' else 'pending-timeout'
      if (o.get('ret') or ['?'])[0] != exp:
        v.append(('%s-result' % mode, '%s, issued while Open() was pending (%s): caller got %s, the call timed out' %
                  (tag, o['deferred'], o.get('ret'))))
      continue
    if o.get('ncalls') != 1:
      v.append(('dispatch-count', '%s dispatched %s times' % (tag, o.get('ncalls'))))
      if o.get('deferred'):
        # the outcome is still the caller's to see (a call lost while Open() was pending must not look like success)
        r0 = (o.get('ret') or ['other'])[0]
        if r0 == 'other':
          v.append(('%s-result' % mode, '%s, issued while Open() was pending: caller got %s' % (tag, o.get('ret'))))
      continue
    if o.get('method') != m:
      v.append(('method-name-changed', '%s handed method name %r to the dispatcher' % (tag, o.get('method'))))
    if o.get('args') != op['args'] or not o.get('args_tuple'):
      v.append(('args-changed', '%s handed positional arguments %s (tuple=%s), caller passed %s' %
                (tag, o.get('args'), o.get('args_tuple'), op['args'])))
    if o.get('kwargs') != op['kwargs'] or not o.get('kwargs_dict'):
      v.append(('kwargs-changed', '%s handed keyword arguments %s, caller passed %s' % (tag, o.get('kwargs'), op['kwargs'])))
    if not o.get('timeout_none', True):
      v.append(('extra-dispatch-argument', '%s passed a timeout to the dispatcher' % tag))
    d = op['disp']
    if d == 'raise' and case.get('dispatcher') == 'real':
      d = 'error'            # the real dispatcher never raises synchronously: the call fails instead
    ret = o.get('ret') or ['other', 'nothing observed']
    if d == 'raise':
      if ret[0] != 'raise':
        v.append(('dispatch-error-lost', '%s: dispatcher raised but caller got %s' % (tag, ret)))
    elif mode == 'sync':
      exp = 'value' if d == 'value' else 'raise'
      if ret[0] != exp:
        v.append(('sync-result', '%s: pending result settled with %s but caller got %s' % (tag, d, ret)))
      if o.get('gets') not in (1, -1):
        v.append(('sync-get-count', '%s called get() %s times' % (tag, o.get('gets'))))
    else:
      if ret[0] != 'pending':
        v.append(('async-result', '%s: caller got %s instead of the pending result' % (tag, ret)))
      if o.get('gets') not in (0, -1):
        v.append(('async-get-count', '%s called get() %s times on the pending result' % (tag, o.get('gets'))))
    if o.get('own_ran'):
      v.append(('interface-body-ran', '%s executed the interface\'s own method body' % tag))
  return v


_SCHEME_RE = re.compile(r'^([A-Za-z][A-Za-z0-9+.\-]*):')


def monitor_uri(case, obs):
  v = []
  k = case['kind']
  uri = case_uri(case)
  if k == 'tcp':
    if 'exc' in obs:
      return [('tcp-rejected', '%r raised %s: %s' % (uri[:120], obs['exc'], obs.get('msg')))]
    if obs.get('type') != 'static':
      return [('tcp-provider', '%r gave %s' % (uri[:120], obs.get('type')))]
    if not obs.get('reread_same', True):
      v.append(('tcp-endpoints', '%r: a second GetServers() on the same provider gave a different list' % uri[:120]))
    if not obs.get('again_same', True):
      v.append(('tcp-endpoints', '%r: parsing the same URI again gave a different answer (%s)' % (uri[:120], obs.get('again_exc'))))
    if obs['eps'] != case['eps']:
      v.append(('tcp-endpoints', '%r yields %s, listed %s' % (uri[:120], obs['eps'][:5], case['eps'][:5])))
    elif not obs.get('typed'):
      v.append(('tcp-endpoint-types', 'endpoints are not Server(Endpoint(host, int port))'))
  elif k == 'zk':
    if 'exc' in obs:
      if case.get('kazoo') == 'real':
        return v           # KazooClient validates the host list itself (environment)
      return [('zk-rejected', '%r raised %s: %s' % (uri[:120], obs['exc'], obs.get('msg')))]
    if obs.get('type') != 'zk':
      return [('zk-provider', '%r gave %s' % (uri[:120], obs.get('type')))]
    if not obs.get('again_same', True):
      v.append(('zk-provider', '%r: parsing the same URI again gave a different answer (%s)' % (uri[:120], obs.get('again_exc'))))
    if obs.get('path') != case['path']:
      v.append(('zk-path', '%r: path %r' % (uri[:120], obs.get('path'))))
    want_name = case['name'] if case.get('name') else None
    if obs.get('name') != want_name:
      v.append(('zk-endpoint-name', '%r: endpoint name %r' % (uri[:120], obs.get('name'))))
    if 'hosts' in obs:
      if obs['hosts'] != case['hosts']:
        v.append(('zk-hosts', '%r: hosts handed to KazooClient %r' % (uri[:120], obs['hosts'])))
      if obs.get('nclients') != 1:
        v.append(('zk-client-count', '%s KazooClient objects created' % obs.get('nclients')))
    else:
      want = []
      for h in case['hosts'].split(','):
        host, _, port = h.partition(':')
        want.append([host.lower(), int(port) if port else 2181])       # kazoo lower-cases host names
      if sorted([h.lower(), p] for h, p in obs.get('khosts', [])) != sorted(want):
        v.append(('zk-hosts', '%r: KazooClient hosts %s' % (uri[:120], obs.get('khosts'))))
    if obs.get('started'):
      v.append(('zk-connected-eagerly', 'the ZooKeeper client was started by Parse'))
    if not obs.get('owns'):
      v.append(('zk-client-ownership', 'provider does not own the client it created'))
  else:
    # foreign / malformed: only "any other scheme is rejected" is claimed, and only for text urlsplit does not rewrite
    if all(ord(c) > 32 for c in uri):
      m = _SCHEME_RE.match(uri)
      scheme = m.group(1).lower() if m else ''
      if scheme not in ('tcp', 'zk') and 'exc' not in obs:
        v.append(('scheme-not-rejected', '%r (scheme %r) was accepted: %s' % (uri[:120], scheme, obs.get('type'))))
  return v


def monitor(case, obs):
  if case['kind'] == 'proxy':
    return monitor_proxy(case, obs)
  return monitor_uri(case, obs)


# ---------------------------------------------------------------------------------------------
# translation to Coq terms
# ---------------------------------------------------------------------------------------------
def _text(s):
  """str -> Coq term of type list Z (code points); printable ASCII goes through Proxy.zs (cheap to parse)."""
  if s and all(32 <= ord(c) < 127 for c in s):
    return '(zs "%s")' % s.replace('"', '""')
  return C.zlist([ord(c) for c in s])


def _zs(xs):
  return '[' + ';'.join(str(int(x)) if x >= 0 else '(%d)' % x for x in xs) + ']%Z'


KIND = {'def': 'KFunction', 'async': 'KFunction', 'lambda': 'KFunction', 'static': 'KFunction', 'classm': 'KMethod',
        'bound': 'KMethod', 'builtin': 'KBuiltin', 'prop': 'KOther', 'data': 'KOther', 'partial': 'KOther',
        'callable': 'KOther', 'class': 'KOther'}
OBJECT_MEMBERS = [('__doc__', 'KOther'), ('__init_subclass__', 'KBuiltin'), ('__repr__', 'KOther')]   # a few of object's own


def model_members(case, mro):
  res = resolved_members(case, mro)
  ms = [(n, KIND[m['type']], m.get('fname', '')) for n, m in res.items()]
  for n, k in OBJECT_MEMBERS:
    if n not in res:
      ms.append((n, k, n if k == 'KBuiltin' else ''))
  if '__init__' not in res:
    ms.append(('__init__', 'KOther', ''))       # object.__init__ is a slot wrapper
  ms.sort(key=lambda x: x[0])                   # inspect.getmembers sorts by name
  return ms


COMMON = {}       # frequent names are defined once in the header of every generated case file


def _common_header():
  names = KWNAMES + [n for n, _k in OBJECT_MEMBERS] + ['__init__', '<lambda>', '_dispatcher', 'DispatcherOpen', 'DispatcherClose',
                                                     'helper', '_setup', 'init', '__call__', '__len__', '__enter__']
  lines = []
  for i, n in enumerate(names):
    COMMON[n] = 'cn%d' % i
    lines.append('Definition cn%d : list Z := %s.' % (i, _text(n)))
  return '\n'.join(lines)


class _Names(object):
  """Interns the strings of one case: each distinct name is written once (let-bound), string literals are
  what makes Coq slow on these terms."""

  def __init__(self):
    self.ids = {}

  def __call__(self, s):
    if s == '':
      return '[]'
    if s in COMMON:
      return COMMON[s]
    if s not in self.ids:
      self.ids[s] = 's%d' % len(self.ids)
    return self.ids[s]

  def wrap(self, body):
    return '(' + ''.join('let %s := %s in ' % (v, _text(k)) for k, v in self.ids.items()) + body + ')'


def _pobs(op, o, nm):
  r = o.get('res')
  if r == 'field':
    return 'PField'
  if r == 'base':
    return 'PBase'
  if r == 'own':
    return 'POwn'
  if r == 'missing':
    return 'PMissing'
  if r != 'call':
    return '(PCall (CallObs [] [] [] (Raises (-9)%Z) (-9)%Z))'      # never produced by the model
  ret = o.get('ret') or ['other']
  if ret[0] == 'value':
    rt = '(RetValue %s)' % C.zlit(ret[1])
  elif ret[0] == 'pending':
    rt = '(RetPending %s)' % C.zlit(ret[1])
  elif ret[0] == 'raise':
    rt = '(Raises %s)' % C.zlit(ret[1])
  else:
    rt = '(Raises (-1)%Z)'
  gets = o.get('gets', -1)
  if o.get('ncalls') != 1 or not o.get('args_tuple') or not o.get('kwargs_dict') or not o.get('timeout_none') or o.get('own_ran') \
     or o.get('other_calls') or o.get('chain') not in (None, 'ok'):
    gets = -100
  kw = C.lst(['(%s, %s)' % (nm(k), C.zlit(i)) for k, i in o.get('kwargs', [])])
  return '(PCall (CallObs %s %s %s %s %s))' % (nm(o.get('method', '')), _zs(o.get('args', [])), kw, rt, C.zlit(gets))


def to_coq(case, obs):
  if case['kind'] == 'proxy':
    if 'mro' not in obs or not in_domain(case):
      return None
    nm = _Names()
    ms = C.lst(['(Mem %s %s %s)' % (nm(n), k, nm(f)) for n, k, f in model_members(case, obs['mro'])])
    probes = []
    for n, (op, o, closed) in enumerate(call_pairs(case, obs)):
      if o.get('deferred') in ('never', 'after_deadline') or (closed and (o.get('ret') or ['?'])[0] in ('closed', 'pending-closed')):
        continue               # never reached the sink (timed out waiting for Open() / closed client): monitor only
      oi = o.get('id', n)      # the id the driver gave this call's value / error / pending result
      d = op['disp']
      if d == 'raise' and case.get('dispatcher') == 'real':
        d = 'error'
      dt = '(DRaise %s)' % C.zlit(oi) if d == 'raise' else '(DPending %s (%s %s))' % (
          C.zlit(oi), 'SValue' if d == 'value' else 'SError', C.zlit(oi))
      pr = '(Probe %s %s %s %s)' % (nm(op['name']), _zs(op['args']),
                                    C.lst(['(%s, %s)' % (nm(k), C.zlit(i)) for k, i in op['kwargs']]), dt)
      probes.append('(%s, %s)' % (pr, _pobs(op, o, nm)))
    return nm.wrap('CProxy (PCase %s %s %s)' % (ms, C.blit(obs.get('ctor') == 'ok'), C.lst(probes)))
  uri = case_uri(case)
  if len(uri) > 20000:
    return None                # tens of kilobytes of literal: checked by the monitor only
  if any(ord(c) > 127 and (c.isdecimal() or c.isspace()) for c in uri):
    return None                # int() on non-ASCII digits/blanks is outside the model
  if case['kind'] == 'zk' and case.get('kazoo') == 'real':
    return None                # KazooClient keeps only the parsed host list; checked by the monitor
  import urllib.parse as up
  try:
    up.urlsplit(uri)
    envok = True
  except ValueError:
    envok = False
  if 'exc' in obs:
    if obs['exc'] == 'ValueError':
      e = 'UValueError'
    elif obs['exc'] == 'Exception' and obs.get('exact') and obs.get('msg', '').startswith('No handler found for prefix '):
      e = '(UNoHandler %s)' % _text(obs['msg'][len('No handler found for prefix '):])
    else:
      e = '(UNoHandler [(-1)]%Z)'
  elif obs.get('type') == 'static':
    if not all(isinstance(p, int) and isinstance(h, str) for h, p in obs['eps']):
      e = '(UNoHandler [(-2)]%Z)'
    else:
      e = '(UTcp %s)' % C.lst(['(%s, %s)' % (_text(h), C.zlit(p)) for h, p in obs['eps']])
  elif obs.get('type') == 'zk' and isinstance(obs.get('hosts'), str):
    e = '(UZk %s %s %s)' % (_text(obs['hosts']), _text(obs['path']), C.opt(_text(obs['name'])) if obs['name'] is not None else 'None')
  else:
    e = '(UNoHandler [(-3)]%Z)'
  if not obs.get('reread_same', True) or not obs.get('again_same', True):
    e = '(UNoHandler [(-4)]%Z)'      # the provider / parser did not give the same answer twice: never what the model says
  if case['kind'] == 'tcp':
    # the model renders the URI itself from the endpoint list (and must agree with the harness' '%s:%d' rendering)
    eps = C.lst(['(%s, %s)' % (_text(h), C.zlit(p)) for h, p in case['eps']])
    return 'CUri (UTcpRendered %s %s %s %s %s %s)' % (_text(case['scheme']), eps, _text(uri), C.blit(envok), C.blit(envok), e)
  return 'CUri (UParse %s %s %s %s)' % (_text(uri), C.blit(envok), C.blit(envok), e)


def nontrivial(case, obs):
  if case['kind'] == 'proxy':
    return any(o.get('res') == 'call' for _op, o, _c in call_pairs(case, obs))
  return 'exc' not in obs


def describe(case, obs):
  c = dict(case)
  o = dict(obs)
  if 'ops' in c and len(c['ops']) > 6:
    c['ops'] = c['ops'][:6] + ['...%d more' % (len(case['ops']) - 6)]
  if 'probes' in o and len(o['probes']) > 6:
    o['probes'] = o['probes'][:6] + ['...%d more' % (len(obs['probes']) - 6)]
  if 'eps' in c:
    c['eps'] = [[h if len(h) < 80 else h[:40] + '...(%d chars)' % len(h), p] for h, p in c['eps'][:6]] + (['...'] if len(c['eps']) > 6 else [])
  if 'eps' in o:
    o['eps'] = [[h if len(h) < 80 else h[:40] + '...(%d chars)' % len(h), p] for h, p in o['eps'][:6]] + (['...'] if len(o['eps']) > 6 else [])
  return {'case': c, 'obs': o}


def stats(cases, obs):
  res = {}
  rets = {}
  kinds = {}
  uri_out = {}
  feats = {}
  defer = {}
  dims = {}
  n_alias = n_coll = n_multi = n_initalias = n_real = n_public = n_unspec = n_reserved = 0
  for c, o in zip(cases, obs):
    if not isinstance(o, dict) or 'harness_exc' in o:
      continue
    if c['kind'] == 'proxy':
      if 'mro' not in o:
        continue
      rm = resolved_members(c, o['mro'])
      pub, unspec = public_methods(c, o['mro'])
      n_public += len(pub)
      n_unspec += len(unspec)
      n_multi += 1 if any(len(k['bases']) > 1 for k in c['classes']) else 0
      n_real += 1 if c.get('dispatcher') == 'real' else 0
      for n, m in rm.items():
        kinds[m['type']] = kinds.get(m['type'], 0) + 1
        if m['type'] in FUNC_TYPES and m['fname'] != n:
          n_alias += 1
          if n == '__init__' and _is_public(m['fname']):
            n_initalias += 1
        if n in RESERVED and m['type'] in FUNC_TYPES:
          n_reserved += 1
      n_coll += sum(1 for n in pub | unspec if n + '_async' in rm)
      if c.get('two'):
        dims['two_client_instances'] = dims.get('two_client_instances', 0) + 1
      if not rm:
        dims['empty_interface'] = dims.get('empty_interface', 0) + 1
      if c.get('dispatcher') == 'real':
        k = 'real_dispatcher_open:' + c.get('open', 'ready')
        dims[k] = dims.get(k, 0) + 1
      for op in c['ops']:
        if op.get('ctl'):
          dims['control:' + op['ctl']] = dims.get('control:' + op['ctl'], 0) + 1
      for op, p, closed in call_pairs(c, o):
        res[p.get('res')] = res.get(p.get('res'), 0) + 1
        if p.get('res') == 'call':
          key = '%s/%s' % (op['disp'], (p.get('ret') or ['?'])[0])
          rets[key] = rets.get(key, 0) + 1
          if p.get('deferred'):
            key = '%s:%s/%s' % (p['deferred'], op['disp'], (p.get('ret') or ['?'])[0])
            defer[key] = defer.get(key, 0) + 1
          for name, hit in (('call_on_second_instance', op.get('inst') == 1 and c.get('two')),
                            ('call_from_inside_DispatchMethodCall', op.get('where') == 'dispatch'),
                            ('call_from_inside_get', op.get('where') == 'get'),
                            ('pending_settled_after_return', op.get('settle') == 'after'),
                            ('async_form_returned_unsettled_pending', p.get('ready_at_return') is False),
                            ('sink_replied_later', op.get('reply') == 'later' and c.get('dispatcher') == 'real'),
                            ('completion_callback_called_client_again', p.get('chain') == 'ok'),
                            ('call_on_closed_client', closed),
                            ('error_kind:' + op.get('err', 'exc'), op['disp'] != 'value'),
                            ('same_object_passed_twice', len(set(op['args']) | set(i for _k, i in op['kwargs'])) <
                             len(op['args']) + len(op['kwargs'])),
                            ('equal_but_distinct_arguments', any(x in (1, 5) for x in op['args']) and
                             {1, 5} <= set(op['args']) | set(i for _k, i in op['kwargs'])),
                            ('ge_255_positional_arguments', len(op['args']) >= 255),
                            ('empty_keyword_name', any(k == '' for k, _i in op['kwargs'])),
                            ('name_ge_255_chars', len(op['name']) >= 255)):
            if hit:
              dims[name] = dims.get(name, 0) + 1
    else:
      key = c['kind'] + ':' + (o.get('type') or o.get('exc') or '?')
      uri_out[key] = uri_out.get(key, 0) + 1
      u = case_uri(c)
      for name, hit in (('uri_through_ClientBuilder_SetUri', c.get('via') == 'builder'), ('uri_parser_reused_after_other_uris', bool(c.get('warm'))),
                        ('uri_ge_255_endpoints', len(c.get('eps') or []) >= 255), ('uri_host_ge_255_chars', any(len(h) >= 255 for h, _p in c.get('eps') or [])),
                        ('uri_over_64KiB', len(u) > 65536), ('uri_provider_read_twice', 'reread_same' in o), ('uri_parsed_twice', 'again_same' in o)):
        if hit:
          dims[name] = dims.get(name, 0) + 1
      for name, hit in (('bracket', '[' in u or ']' in u), ('both_brackets', '[' in u and ']' in u),
                        ('non_ascii', any(ord(ch) > 127 for ch in u)), ('leading_blank', u[:1] <= ' ' and u != ''),
                        ('tab_cr_lf', any(ch in u for ch in '\t\r\n')), ('upper_scheme', u[:1].isupper() or u[1:2].isupper()),
                        ('query', '?' in u), ('fragment', '#' in u), ('underscore_port', bool(re.search(r':[0-9_]*_[0-9_]*(,|$)', u))),
                        ('signed_port', bool(re.search(r':[ ]*[+-]', u))), ('blank_in_port', bool(re.search(r':[0-9]* [0-9]*(,|$)', u))),
                        ('no_double_slash', '://' not in u), ('empty_netloc_piece', ',,' in u or u.endswith(',') or '//,' in u),
                        ('extra_colon', bool(re.search(r':[^,/]*:[^,/]*:', u)))):
        if hit:
          feats[name] = feats.get(name, 0) + 1
  return {'lookup_resolutions': res, 'call_outcomes_by_dispatcher_behaviour': rets, 'member_kinds_resolved': kinds,
          'public_methods': n_public, 'alias_members': n_alias, 'aliases_with_unspecified_publicness': n_unspec,
          'init_aliases': n_initalias, 'foo_foo_async_collisions': n_coll, 'reserved_name_methods': n_reserved,
          'interfaces_with_multiple_inheritance': n_multi, 'interfaces_on_real_dispatcher': n_real,
          'calls_issued_while_open_pending_by_mode_and_outcome': defer, 'audit_dimensions': dims, 'uri_outcomes': uri_out,
          'uri_features': feats}


COQ_HEADER = COQ_HEADER + '\n' + _common_header()
