"""C19 - ZooKeeper server set reports exactly the membership changes that occurred.

Implementation under test (imported from $SCALES_REPO as it is now):
  scales.loadbalancer.zookeeper.ServerSet (with Member.from_node) created with on_join/on_leave and a
  member_filter exactly as ZooKeeperServerSetProvider.Initialize does, on top of the REAL
  kazoo.recipe.watchers.DataWatch / ChildrenWatch running over harness/c19_fakezk.FakeZk.
A case is a history {'filtered': [...], 'ep_mod': m (optional), 'ops': [...]} (member n announces the
endpoint n mod m: different node names with the same host:port, a server restarting under a new node)
with operations
  ['start'] | ['mkp'] | ['rmp'] | ['touch'] | ['mk', n] | ['rm', n] | ['deliver'] | ['work'] | ['raise']
(the harness greenlet never yields except inside 'work', so the schedule is the op sequence: tree
mutations, delivery of the oldest pending watch callback, one run of the notification worker up to
its next blocking point - a member read, answered from the tree at that moment - and arming the next
consumer callback to raise).
Model: coq/Model/ZkSet.v, evaluated in lock step on every history (check_case).
Monitor: the property statement on the on_join/on_leave log vs the simulated tree, written without
reference to the model; membership is tracked both by node name and - the way LoadBalancerSink keys
its servers - by endpoint.
"""
import json
import os
import sys

from .. import common as C
from .. import c19_shadow as SH

PID = 'C19'
PROPS_FILE = 'Props/C19.v'
COQ_HEADER = 'From Scales Require Import Model.ZkSet.'
COQ_CASE_TYPE = 'ZkSet.case'
COQ_CHECK = 'ZkSet.check_case'
COQ_EXPLAIN = 'ZkSet.explain_case'
SHARD = 120
WORKERS = 6

# Schedule families on which the code as it is violates the property (open / listed findings):
#   g2  a member whose read was skipped (vanished) is re-created before a children notification showed its absence
#   g3  the path is deleted / re-created while a data-watch notification is still undelivered
# A family is generated when its signature is listed in KNOWN_FINDINGS.json (it is then reported as a
# KNOWN-FINDING line on every run) or when C19_AVOID (env, comma separated) does not name it; by
# default an unlisted family is not generated.  'g1' (F22: the data watch reports the path deleted while
# the worker still has work) is no longer a family: it was fixed by d0a2403, the schedules are always
# generated, and the pattern only names a violation (so that a regression is reported as F22).
SIG = {'g1': 'stale-join-after-parent-delete',
       'g2': 'missed-join-after-vanish-recreate',
       'g3': 'path-flap-before-data-watch'}
AVOID_DEFAULT = ('g2', 'g3')


def avoided():
  env = os.environ.get('C19_AVOID')
  if env is not None:
    return set(x for x in env.split(',') if x)
  return set(g for g in AVOID_DEFAULT if C.known_match(PID, SIG[g]) is None)


RULE = ('histories over 2-5 member names (some rejected by the member filter): (a) hand-written regressions incl. F19/F20/F22, '
        '(b) state-covering traces - breadth-first enumeration of a generator-side shadow of the mechanics over 2 names (+1 '
        'filtered), one shortest history per distinct shadow state up to depth 8 (quick) / 12 (thorough), each driven to '
        'quiescence, (c) 700 (quick) / 11000 (thorough) seeded random histories of 10-90 operations with creates/deletes, path '
        'deletion/re-creation/touch, deliveries and worker runs in any order (worker starved, deliveries late, path churn modes), '
        'members vanishing between listing and reading, raising callbacks, settling phases; (c2) restart histories: a state cover '
        'over 3 names / 2 endpoints and 300 (quick) / 4000 (thorough) random histories in which different node names announce '
        'the same endpoint (old node deleted and new node created in one children event, never two live nodes with one '
        'endpoint), judged also by an endpoint-keyed consumer; streams (b),(c),(c2) stay outside the two '
        'schedule families g2/g3 on which the code is known to fail; (d) for each family listed in KNOWN_FINDINGS.json (or '
        'requested with C19_AVOID): hand-written reproducers, an unrestricted state cover (depth 8/10) and 250/3000 unrestricted '
        'random histories; non-trivial = at least one callback was delivered and a quiescent point was checked; distinct by '
        'canonical JSON of (case, observation)')
TRUSTED = ['harness/c19_fakezk.py: in-process stand-in for the Kazoo client (one-shot watches as sets per path, registration only on '
           'success except exists, FIFO delivery of fired watch callbacks, reads see the tree at delivery/answer time); the real '
           'kazoo.recipe.watchers.DataWatch/ChildrenWatch (kazoo 2.11) run on it',
           'gevent scheduling: the harness greenlet yields only inside a work step, the worker parks inside FakeZk.get',
           'monitor in harness/props/c19.py (consumer set, alternation, quiescence detection from harness-visible facts; a listed '
           'family names a violation only when it can explain it: g3 any consumer/tree difference until the data watch next '
           'reports the deletion, g2 only the re-created members missing)']
ASSUMPTIONS = ['member data is well-formed JSON with the fields Member.from_node requires (a malformed member makes the worker '
               'drop the whole batch: outside the property statement)',
               'one ZooKeeper session without connection loss: watch callbacks are delivered in the order they fired (Kazoo has one '
               'callback worker) and each recipe callback reads the tree atomically at delivery time',
               'the notification worker may be delayed arbitrarily relative to watch callbacks (it is a separate greenlet; '
               'get_members() holding the callback blocker delays it in practice)',
               'consumer callbacks do not call back into the ServerSet and do not yield',
               'C19_converges_partial is proved under the guards G2 and G3 of Model/ZkSet.v; without them the statement is refuted '
               'on the faithful model (C19_converges_refuted*) and reproduced on the code (known findings '
               'missed-join-after-vanish-recreate, path-flap-before-data-watch)']

MANIFEST = {
    'text': ('Theorems over every label sequence (tree mutations, path deletion/re-creation, FIFO delivery of watch callbacks at any '
             'later time, worker runs with any read order, vanishing members, raising callbacks) of a Gallina model of ServerSet + the '
             'Kazoo watch recipes: C19_alternation and C19_callback_isolation at full strength; C19_converges_partial (consumer set = '
             'members present at every quiescent state) under the schedule guards G2 and G3, with C19_converges_refuted*: '
             'machine-checked witnesses that the unguarded statement is false of the code as it is (two schedule families, both '
             'reproduced on the real ServerSet and listed as known findings). Model compared in lock step with the real ServerSet + '
             'real Kazoo recipes over a fake client on every generated history.'),
    'note': ('Trusted: Coq kernel; fake Kazoo client and deterministic gevent scheduling of the harness; the monitor. The guards '
             'G2/G3 delimit schedules on which the code violates the property (known findings). All theorems closed under the '
             'global context.'),
    'technique': 'Coq invariants over a label-driven transition system + lock-step trace-driven correspondence on the real code',
    'design_ref': 'DESIGN.md section 5, C19',
}

_S = {}


def setup():
  if _S:
    return
  if C.REPO not in sys.path:
    sys.path.insert(0, C.REPO)
  import logging
  import scales
  assert scales.__file__.startswith(C.REPO), scales.__file__
  import gevent
  from scales.loadbalancer import zookeeper as zkmod
  from harness import c19_fakezk
  logging.getLogger('scales.pool.ZooKeeper').setLevel(logging.CRITICAL + 1)
  logging.getLogger('kazoo.recipe.watchers').setLevel(logging.CRITICAL + 1)
  _S.update(gevent=gevent, zkmod=zkmod, fake=c19_fakezk)


PATH = '/svc'


def _nm(case, n):
  return ('lock_%d' if n in case.get('filtered', []) else 'member_%d') % n


def _un(s):
  return int(s.split('_')[1])


def _ep(case, n):
  m = case.get('ep_mod')
  return n % m if m else n


def _data(ep):
  return json.dumps({'serviceEndpoint': {'host': 'h%d' % ep, 'port': 1000 + ep}, 'additionalEndpoints': {},
                     'status': 'ALIVE'}).encode()


class _Run(object):
  """One execution of a case on the real ServerSet."""

  def __init__(self, case, allow_raise=True):
    setup()
    self.case = case
    self.g = _S['gevent']
    self.zk = _S['fake'].FakeZk(PATH)
    self.ss = None
    self.events = []
    self.event_eps = []
    self.armed = 0
    self.allow_raise = allow_raise
    self.greenlet_errors = []

  def _cb(self, kind):
    def f(m):
      try:
        n = _un(m.name)
      except Exception:            # not a Member (e.g. None): still a notification the consumer received
        n = -1
      try:                         # the endpoint the member announces (what the load balancers key on)
        e = int(m.service_endpoint.port) - 1000
      except Exception:
        e = -1
      r = False
      if self.armed > 0:
        self.armed -= 1
        r = True
      self.events.append([kind, n, r])
      self.event_eps.append(e)
      if r:
        raise RuntimeError('consumer callback fails')
    return f

  def _settle(self):
    for _ in range(4):
      self.g.sleep(0)

  def step(self, op):
    zk = self.zk
    k = op[0]
    e0 = len(self.events)
    r0 = len(zk.read_log)
    o = {}
    if k == 'start':
      if self.ss is None:
        try:
          self.ss = _S['zkmod'].ServerSet(zk, PATH, self._cb('join'), self._cb('leave'),
                                          lambda s: s.startswith('member_'))
        except Exception as e:
          o['exc'] = type(e).__name__
    elif k == 'mkp':
      o['eff'] = zk.create_parent()
    elif k == 'rmp':
      o['eff'] = zk.delete_parent()
    elif k == 'touch':
      o['eff'] = zk.touch_parent()
    elif k == 'mk':
      o['eff'] = zk.create(_nm(self.case, op[1]), _data(_ep(self.case, op[1])))
    elif k == 'rm':
      o['eff'] = zk.delete(_nm(self.case, op[1]))
    elif k == 'deliver':
      d = zk.deliver()
      if d is not None:
        o['kind'] = d[0]
        if d[1] is not None:
          o['exc'] = type(d[1]).__name__
    elif k == 'work':
      if self.ss is not None:
        zk.release()
        self._settle()
        if self.ss._worker is not None and self.ss._worker.dead:
          o['worker_dead'] = True
    elif k == 'raise':
      if self.allow_raise:
        self.armed += 1
    else:
      raise ValueError(k)
    o['ev'] = self.events[e0:]
    o['evep'] = self.event_eps[e0:]
    o['reads'] = [[_un(n), f] for n, f in zk.read_log[r0:]]
    o['parked'] = None if zk.parked is None else _un(zk.parked[0])
    o['pending'] = [p[0] for p in zk.pending]
    o['dw'] = len(zk.data_watchers)
    o['cw'] = len(zk.child_watchers)
    o['tree'] = sorted(_un(n) for n in zk.children) if zk.parent else None
    return o

  def close(self):
    if self.ss is not None:
      try:
        self.ss.stop()
        if self.zk.parked is not None:
          self.zk.parked = None
        self._settle()
      except Exception:
        pass


def run_impl(case):
  if case.get('pattern') and case['pattern'] in avoided():
    return {'skipped': 'schedule family %s is not generated in this configuration' % case['pattern']}
  run = _Run(case)
  try:
    steps = [run.step(op) for op in case['ops']]
  finally:
    run.close()
  out = {'steps': steps}
  if any(e[2] for s in steps for e in s['ev']):
    # the same history with no callback raising: the notifications must be the same
    run2 = _Run(case, allow_raise=False)
    try:
      steps2 = [run2.step(op) for op in case['ops']]
    finally:
      run2.close()
    out['noraise_events'] = [[e[0], e[1]] for s in steps2 for e in s['ev']]
  return out


# ---------------------------------------------------------------------------------------------
# monitor: the property statement, judged from what the harness can see
# ---------------------------------------------------------------------------------------------
def monitor(case, obs):
  if 'skipped' in obs:
    return []
  filtered = set(case.get('filtered', []))
  v = []
  seen = set()
  pats = []

  g2_names = set()             # members re-created while their read had been skipped and no listing showed them absent

  def flag(sym, msg, stale=(), missing=()):
    # Naming only.  A listed family may name a violation only if it can explain it: g3 (deaf or half-deaf
    # watch) any difference between consumer and tree, g2 only members of g2_names missing; neither
    # explains a broken alternation, a filtered name or a changed notification sequence.
    sig = sym
    if sym == 'consumer-differs-from-tree' and 'g3' in pats:
      sig = SIG['g3']
    elif sym == 'consumer-differs-from-tree' and not stale and missing and set(missing) <= g2_names:
      sig = SIG['g2']
    elif sym in ('consumer-differs-from-tree', 'double-join', 'leave-without-join') and 'g1' in pats:
      sig = SIG['g1']
    if sig not in seen:
      seen.add(sig)
      v.append((sig, msg))

  started = False
  busy = False                 # a watch callback has run and the worker has not gone idle since
  consumer = set()
  by_ep = {}                   # the consumer the way LoadBalancerSink keeps it: endpoint -> member (join ignored when present)
  ep_ok = True                 # judged by endpoint only while no two present members ever shared an endpoint and no
                               # violation by name has been seen (a derailed consumer is reported once, by name)
  skipped = set()              # members whose read found nothing and whose absence no later notification has shown
  prev = {'pending': [], 'cw': 0, 'parked': None, 'tree': None}
  checked = 0
  data_saw_present = True      # what the DataWatch saw last (it calls the function only on a change)
  out_of_scope = avoided()
  for i, (op, st) in enumerate(zip(case['ops'], obs['steps'])):
    k = op[0]
    # --- schedule families: used to name a violation; a history that enters a family which this
    # configuration does not generate (an open finding awaiting the decision to fix or list it, see
    # avoided()) is judged only up to that point, so that shrinking a failing history cannot drift
    # into the open finding and report that instead ---------------------------------------------
    if k in ('mkp', 'rmp') and st.get('eff') and 'data' in prev['pending'] and 'g3' not in pats:
      pats.append('g3')
    if k == 'mk' and st.get('eff') and op[1] in skipped:
      g2_names.add(op[1])
      if 'g2' not in pats:
        pats.append('g2')
    if (k == 'deliver' and st.get('kind') == 'data' and st['tree'] is None and started
            and (busy or prev['parked'] is not None) and 'g1' not in pats):
      pats.append('g1')
    if any(p in out_of_scope for p in pats):
      return v
    if k == 'start' and 'exc' not in st:
      started = True
    if k == 'start' or (k == 'deliver' and st.get('kind')):
      busy = True                                # a callback ran: it may have handed work to the worker
    if k in ('start', 'deliver') and st['cw'] > prev['cw']:
      skipped &= set(st['tree'] or [])           # get_children succeeded: the function was called with st['tree']
      g2_names &= set(st['tree'] or [])
    if k == 'start' or (k == 'deliver' and st.get('kind') == 'data'):
      if st['tree'] is None and data_saw_present:
        # the data watch reports the deletion: known nodes are forgotten, every member will be reported
        # leaving, a later creation starts a fresh children watch - earlier family patterns end here
        skipped.clear()
        g2_names.clear()
        pats[:] = [p for p in pats if p == 'g1']
      data_saw_present = st['tree'] is not None
    for n, found in st['reads']:
      if found:
        skipped.discard(n)
      else:
        skipped.add(n)
    if k == 'work' and st['parked'] is None:
      busy = False
    # --- the notifications of this step ------------------------------------------------------------
    if len(set(_ep(case, n) for n in (st['tree'] or []) if n not in filtered)) != len([n for n in (st['tree'] or []) if n not in filtered]):
      ep_ok = False
    for (kind, n, _raised), e in zip(st['ev'], st.get('evep') or [None] * len(st['ev'])):
      if kind == 'join':
        by_ep.setdefault(e, n)
      else:
        by_ep.pop(e, None)
      if n in filtered:
        flag('filtered-name-reported', 'step %d: %s reported for %d which the member filter rejects' % (i, kind, n))
      if kind == 'join':
        if n in consumer:
          flag('double-join', 'step %d (%s): member %d reported joining twice without a leave in between' % (i, k, n))
        consumer.add(n)
      else:
        if n not in consumer:
          flag('leave-without-join', 'step %d (%s): member %d reported leaving while the consumer does not hold it' % (i, k, n))
        consumer.discard(n)
    # --- quiescent: nothing undelivered and the worker has run to idle since the last callback --------
    if started and not st['pending'] and st['parked'] is None and not busy:
      checked += 1
      want = set(n for n in (st['tree'] or []) if n not in filtered)
      if consumer != want:
        flag('consumer-differs-from-tree',
             'step %d (%s): quiescent, consumer holds %s but the members present are %s (stale %s, missing %s)'
             % (i, k, sorted(consumer), sorted(want), sorted(consumer - want), sorted(want - consumer)),
             stale=consumer - want, missing=want - consumer)
      if v:
        ep_ok = False
      if ep_ok and 'evep' in st:
        want_ep = set(_ep(case, n) for n in want)
        if set(by_ep) != want_ep:
          flag('consumer-endpoints-differ-from-tree',
               'step %d (%s): quiescent, a consumer keyed by endpoint (join ignored when the endpoint is held, leave pops it) '
               'holds endpoints %s but the endpoints present are %s; names held %s'
               % (i, k, sorted(by_ep), sorted(want_ep), sorted(consumer)))
    prev = st
  if 'noraise_events' in obs:
    a = [[e[0], e[1]] for s in obs['steps'] for e in s['ev']]
    b = obs['noraise_events']
    names = set(e[1] for e in a + b)
    if len(a) != len(b) or any([e for e in a if e[1] == n] != [e for e in b if e[1] == n] for n in names):
      flag('callback-error-changes-notifications',
           'with raising callbacks the notifications were %s, without %s' % (a[:12], b[:12]))
  return v


# ---------------------------------------------------------------------------------------------
# generators
# ---------------------------------------------------------------------------------------------
def _settle_ops(s, limit=60):
  """Drives the shadow (and so the history) to quiescence: worker first, then the oldest callback."""
  ops = []
  if not s.started:
    ops.append(['start'])
    SH.step(s, ['start'])
  while not s.quiescent() and len(ops) < limit:
    op = ['work'] if (s.wk is not None or s.queue) else ['deliver']
    ops.append(op)
    SH.step(s, op)
  if ops and ops[-1] != ['work']:
    ops.append(['work'])          # the monitor judges a state only after the worker has run since the last callback
  return ops


def _ep_conflict(s, op, ep_mod):
  """Restart histories: a node is not created while another present member announces the same endpoint (two
  live nodes with one endpoint make an endpoint-keyed consumer ambiguous: it is then not judged by endpoint)."""
  if not ep_mod or op[0] != 'mk' or op[1] in s.filt:
    return False
  return any(x != op[1] and x not in s.filt and x % ep_mod == op[1] % ep_mod for x in s.kids)


def _cover_traces(depth, avoid, names, filt, limit, ep_mod=None):
  """One shortest history per distinct shadow state (breadth first), each followed by a settling phase."""
  alphabet = ([['start'], ['mkp'], ['rmp'], ['touch'], ['deliver'], ['work']] +
              [['mk', n] for n in names] + [['rm', n] for n in names])
  s0 = SH.St(filt)
  seen = {s0.key()}
  frontier = [(s0, [])]
  out = []
  for _d in range(depth):
    nxt = []
    for s, path in frontier:
      for op in alphabet:
        if not SH.effective(s, op) or (SH.patterns(s, op) & avoid) or _ep_conflict(s, op, ep_mod):
          continue
        t = SH.step(s.clone(), op)
        kx = t.key()
        if kx in seen:
          continue
        seen.add(kx)
        p2 = path + [op]
        nxt.append((t, p2))
        out.append(p2 + _settle_ops(t.clone()))
        if len(out) >= limit:
          return out
    frontier = nxt
  return out


_W = [('mk', 7), ('rm', 5), ('mkp', 2), ('rmp', 2), ('touch', 1), ('deliver', 7), ('work', 7), ('raise', 1), ('settle', 1)]


def _random_trace(r, avoid, restarts=False):
  k = r.choice([2, 2, 3, 4, 5])
  ep_mod = None
  if restarts:               # servers restarting on the same host:port under a new node name
    k = r.choice([2, 4, 6])
    ep_mod = k // 2
  filt = [r.randrange(k)] if r.random() < 0.3 else []
  n = r.choice([10, 20, 30, 50, 90])
  w = dict(_W)
  if restarts:
    w['restart'] = 6
  mode = r.random()
  if mode < 0.25:          # worker starved, deliveries prompt
    w['work'] = 1
  elif mode < 0.5:         # deliveries late
    w['deliver'] = 1
  elif mode < 0.65:        # path churn
    w['mkp'] = w['rmp'] = 5
  if r.random() < 0.5:
    w['raise'] = 0
  tot = sum(w.values())
  s = SH.St(filt)
  ops = []
  if r.random() < 0.85:
    pre = [['mkp']] + [['mk', r.randrange(k)] for _ in range(r.choice([0, 1, 2, 3]))]
    pre.insert(r.randrange(len(pre) + 1), ['start'])
    for op in pre:
      if not (SH.patterns(s, op) & avoid) and not _ep_conflict(s, op, ep_mod):
        ops.append(op)
        SH.step(s, op)
  while len(ops) < n:
    x = r.randrange(tot)
    for nm, wt in w.items():
      if x < wt:
        break
      x -= wt
    if nm == 'settle':
      ops.extend(_settle_ops(s))
      continue
    if nm == 'restart':      # old node gone, new node with the same endpoint there, before the children watch is re-read
      live = [x for x in s.kids if x not in filt]
      if not (s.parent and live):
        continue
      a = r.choice(live)
      cand = [b for b in range(k) if b != a and b not in filt and b % ep_mod == a % ep_mod]
      if not cand:
        continue
      pair = [['rm', a], ['mk', r.choice(cand)]]
      t = s.clone()
      bad = False
      for op in pair:
        if (SH.patterns(t, op) & avoid) or _ep_conflict(t, op, ep_mod):
          bad = True
          break
        SH.step(t, op)
      if not bad:
        for op in pair:
          ops.append(op)
          SH.step(s, op)
      continue
    op = [nm, r.randrange(k)] if nm in ('mk', 'rm') else [nm]
    if r.random() < 0.7 and not SH.effective(s, op):
      continue
    if (SH.patterns(s, op) & avoid) or _ep_conflict(s, op, ep_mod):
      continue
    if nm == 'start' and s.started:
      continue
    ops.append(op)
    SH.step(s, op)
  if r.random() < 0.9:
    ops.extend(_settle_ops(s))
  c = {'kind': 'random', 'filtered': filt, 'ops': ops}
  if ep_mod:
    c['kind'] = 'random-restarts'
    c['ep_mod'] = ep_mod
  return c


S_, D_, W_ = ['start'], ['deliver'], ['work']
HAND = [
    # path deleted with two members present (F19), then re-created with one of them (F20)
    {'kind': 'hand', 'name': 'f19-f20', 'ops': [['mkp'], ['mk', 0], ['mk', 1], S_, W_, W_, W_, ['rmp'], D_, D_, W_,
                                                  ['mkp'], D_, ['mk', 0], D_, W_, W_, W_]},
    # a raising on_leave inside _send_all_removed and inside the worker
    {'kind': 'hand', 'name': 'raise-in-all-removed', 'ops': [['mkp'], ['mk', 0], ['mk', 1], ['mk', 2], S_, W_, W_, W_, W_, ['raise'],
                                                               ['rmp'], D_, D_, W_, ['mkp'], D_, ['mk', 1], D_, W_, W_]},
    {'kind': 'hand', 'name': 'raise-in-worker', 'ops': [['mkp'], S_, ['mk', 0], ['mk', 1], D_, ['raise'], W_, W_, W_, ['rm', 0], ['mk', 2], D_,
                                                          ['raise'], ['raise'], W_, W_, W_]},
    # member vanishes between listing and reading; filtered sibling
    {'kind': 'hand', 'name': 'vanish', 'filtered': [2], 'ops': [['mkp'], S_, ['mk', 0], ['mk', 1], ['mk', 2], D_, W_, ['rm', 0], ['rm', 1], W_, W_, D_, W_]},
    # path absent at construction, created later; two children watches after a late children callback
    {'kind': 'hand', 'name': 'late-create', 'ops': [S_, W_, ['mkp'], D_, ['mk', 0], D_, W_, W_, ['rmp'], D_, D_, ['mkp'], D_, W_, ['mk', 1], D_, W_, W_]},
    {'kind': 'hand', 'name': 'two-watches', 'ops': [['mkp'], S_, W_, ['rmp'], D_, ['mkp'], D_, D_, W_, ['mk', 0], D_, D_, W_, W_, ['rm', 0], D_, D_, W_]},
]
F22_HAND = [   # F22 (fixed by d0a2403): the all-members-left notification must not overtake the worker
    {'kind': 'hand', 'name': 'f22-stale-join', 'ops': [['mkp'], S_, ['mk', 0], ['mk', 1], D_, W_, W_, ['rmp'], D_, D_, W_, W_, W_]},
    {'kind': 'hand', 'name': 'f22-double-join', 'ops': [['mkp'], S_, ['mk', 0], D_, ['rmp'], D_, D_, ['mkp'], ['mk', 0], D_, W_, W_, W_, W_]},
    {'kind': 'hand', 'name': 'f22-queued-leave-then-all-removed', 'ops': [['mkp'], ['mk', 0], ['mk', 1], S_, W_, W_, W_, ['rm', 0], D_, ['rmp'], D_, D_, W_, W_]},
]
RESTART_HAND = [   # a server restarts on the same host:port: old node and new node (same endpoint) in one children event
    {'kind': 'hand', 'name': 'restart-same-endpoint', 'ep_mod': 1,
     'ops': [['mkp'], ['mk', 0], S_, W_, W_, ['rm', 0], ['mk', 1], D_, W_, W_, W_]},
    {'kind': 'hand', 'name': 'restart-two-servers', 'ep_mod': 2,
     'ops': [['mkp'], ['mk', 0], ['mk', 1], S_, W_, W_, W_, ['rm', 0], ['mk', 2], ['rm', 1], ['mk', 3], D_, W_, W_, W_,
             ['rm', 3], ['mk', 1], D_, W_, W_]},
    {'kind': 'hand', 'name': 'restart-then-path-deleted', 'ep_mod': 1,
     'ops': [['mkp'], S_, ['mk', 0], D_, W_, W_, ['rm', 0], ['mk', 1], D_, W_, ['rmp'], D_, D_, W_, W_, ['mkp'], D_, ['mk', 0], D_, W_, W_, W_]},
]
PATTERN_HAND = [
    {'kind': 'pattern', 'pattern': 'g2', 'name': 'vanish-recreate', 'ops': [['mkp'], S_, ['mk', 0], D_, ['rm', 0], W_, W_, ['mk', 0], D_, W_]},
    {'kind': 'pattern', 'pattern': 'g3', 'name': 'dead-watch', 'ops': [['mkp'], ['mk', 0], S_, W_, W_, ['rmp'], D_, ['mkp'], D_, W_, ['mk', 1], D_, W_]},
    {'kind': 'pattern', 'pattern': 'g3', 'name': 'missed-absence', 'ops': [['mkp'], S_, ['rmp'], W_, D_, ['mkp'], ['mk', 0], D_, W_, W_, ['rmp'], D_, D_, W_]},
]


def gen_cases(tier, seed):
  """Two streams: 'clean' histories stay outside the families g2/g3 (any violation there is new), and -
  for every family that is listed as a known finding or explicitly requested - histories that may enter it."""
  avoid = avoided()
  clean = set(AVOID_DEFAULT)
  allowed = clean - avoid
  out = [dict(c) for c in HAND + F22_HAND + RESTART_HAND]
  quick = tier == 'quick'
  for names, filt, depth, limit in ([([0, 1], [], 8 if quick else 12, 700 if quick else 9000),
                                     ([0, 2], [2], 7 if quick else 9, 250 if quick else 2500)]):
    for ops in _cover_traces(depth, clean, names, filt, limit):
      out.append({'kind': 'cover', 'filtered': filt, 'ops': ops})
  n = 700 if quick else 11000
  for i in range(n):
    out.append(_random_trace(C.case_rng(seed, PID, i), clean))
  for ops in _cover_traces(8 if quick else 11, clean, [0, 1, 2], [], 250 if quick else 3000, ep_mod=2):
    out.append({'kind': 'cover-restarts', 'filtered': [], 'ep_mod': 2, 'ops': ops})
  for i in range(300 if quick else 4000):
    out.append(_random_trace(C.case_rng(seed + 7368787, PID, i), clean, restarts=True))
  if allowed:
    for c in PATTERN_HAND:
      if c['pattern'] in allowed:
        out.append(dict(c))
    for ops in _cover_traces(8 if quick else 10, avoid, [0, 1], [], 300 if quick else 3000):
      out.append({'kind': 'cover-families', 'filtered': [], 'ops': ops})
    for i in range(250 if quick else 3000):
      c = _random_trace(C.case_rng(seed + 104729, PID, i), avoid)
      c['kind'] = 'random-families'
      out.append(c)
  return out


def search_cases(tier, seed, diverging):
  """Used only when proof/correspondence broke and no monitor fired: a second, larger stream of histories."""
  out = []
  for i in range(3000):
    c = _random_trace(C.case_rng(seed + 15485863, PID, i), set(AVOID_DEFAULT))
    c['kind'] = 'search'
    out.append(c)
  for ops in _cover_traces(9, set(AVOID_DEFAULT), [0, 1], [], 4000):
    out.append({'kind': 'search', 'filtered': [], 'ops': ops})
  return out


# ---------------------------------------------------------------------------------------------
# translation to Coq terms
# ---------------------------------------------------------------------------------------------
_LBL = {'start': 'Start', 'mkp': 'CreateParent', 'rmp': 'DeleteParent', 'touch': 'TouchParent', 'deliver': 'Deliver',
        'raise': 'CallbackRaises'}


def _label(op, st):
  k = op[0]
  if k in _LBL:
    return _LBL[k]
  if k == 'mk':
    return 'Create %s' % C.zlit(op[1])
  if k == 'rm':
    return 'Delete %s' % C.zlit(op[1])
  if k == 'work':
    return 'WorkerStep %s' % C.opt(None if st['parked'] is None else C.zlit(st['parked']))
  raise ValueError(k)


def _obs(st):
  ev = C.lst(['Ev %s %s %s' % ('Join' if e[0] == 'join' else 'Leave', C.zlit(e[1]), C.blit(e[2])) for e in st['ev']])
  reads = C.lst(['(%s, %s)' % (C.zlit(n), C.blit(f)) for n, f in st['reads']])
  parked = C.opt(None if st['parked'] is None else C.zlit(st['parked']))
  pend = C.lst(['PData' if p == 'data' else 'PChild' for p in st['pending']])
  tree = C.opt(None if st['tree'] is None else C.zlist(st['tree']))
  exc = C.blit('exc' in st or st.get('worker_dead', False))
  return 'Obs %s %s %s %s %s %s %s %s' % (ev, reads, parked, pend, C.natlit(st['dw']), C.natlit(st['cw']), tree, exc)


def to_coq(case, obs):
  if 'skipped' in obs:
    return None
  steps = C.lst(['(%s, %s)' % (_label(op, st), _obs(st)) for op, st in zip(case['ops'], obs['steps'])])
  return '(%s, %s)' % (C.zlist(case.get('filtered', [])), steps)


# ---------------------------------------------------------------------------------------------
# evidence helpers
# ---------------------------------------------------------------------------------------------
def _quiescent_points(case, obs):
  started = busy = False
  prev_cw = 0
  n = 0
  for op, st in zip(case['ops'], obs['steps']):
    if op[0] == 'start':
      started = True
    if op[0] == 'start' or (op[0] == 'deliver' and st.get('kind')):
      busy = True
    if op[0] == 'work' and st['parked'] is None:
      busy = False
    if started and not st['pending'] and st['parked'] is None and not busy:
      n += 1
    prev_cw = st['cw']
  return n


def nontrivial(case, obs):
  if 'skipped' in obs:
    return False
  return any(s['ev'] for s in obs['steps']) and _quiescent_points(case, obs) > 0


def describe(case, obs):
  c = dict(case)
  if len(c['ops']) > 40:
    c['ops'] = c['ops'][:40] + ['... %d more' % (len(case['ops']) - 40)]
  o = {'skipped': obs['skipped']} if 'skipped' in obs else {
      'notifications': [e for s in obs['steps'] for e in s['ev']][:30],
      'final_tree': obs['steps'][-1]['tree'] if obs['steps'] else None}
  return {'case': c, 'obs': o}


def stats(cases, obs):
  import collections
  b = collections.Counter()
  for c, o in zip(cases, obs):
    if not isinstance(o, dict) or 'steps' not in o:
      b['cases_skipped_avoided_family'] += 1 if isinstance(o, dict) and 'skipped' in o else 0
      continue
    b['quiescent_points_checked'] += _quiescent_points(c, o)
    prev = {'pending': [], 'cw': 0, 'parked': None, 'tree': None}
    members_held = 0
    for op, st in zip(c['ops'], o['steps']):
      k = op[0]
      if k in ('mkp', 'rmp', 'touch', 'mk', 'rm'):
        b['%s_%s' % (k, 'effective' if st.get('eff') else 'noop')] += 1
      elif k == 'deliver':
        kind = st.get('kind')
        if kind is None:
          b['deliver_nothing_pending'] += 1
        elif kind == 'children':
          b['deliver_children_%s' % ('path_present' if st['tree'] is not None else 'path_absent_watch_stops')] += 1
        else:
          if st['tree'] is None:
            b['deliver_data_absent_%s' % ('all_removed_with_members' if any(e[0] == 'leave' for e in st['ev']) else 'no_members_or_no_change')] += 1
          elif st['cw'] > prev['cw']:
            b['deliver_data_present_begin_watch'] += 1
          else:
            b['deliver_data_present_already_watching_or_same_version'] += 1
      elif k == 'work':
        if prev['parked'] is None and not st['ev'] and st['parked'] is None:
          b['work_idle_or_empty_batches'] += 1
        for _n, f in st['reads']:
          b['read_%s' % ('found' if f else 'vanished')] += 1
        if st['parked'] is not None:
          b['work_parks_on_next_read'] += 1
        if st['ev']:
          b['work_applies_batch'] += 1
      elif k == 'start':
        b['start_%s' % ('path_present' if st['tree'] is not None else 'path_absent')] += 1
      if st['cw'] >= 2:
        b['steps_with_two_or_more_children_watches'] += 1
      for e in st['ev']:
        b['%s%s' % (e[0], '_raising' if e[2] else '')] += 1
      if st.get('evep'):
        le = set(ep for e, ep in zip(st['ev'], st['evep']) if e[0] == 'leave')
        je = set(ep for e, ep in zip(st['ev'], st['evep']) if e[0] == 'join')
        if le & je:
          b['worker_runs_with_leave_and_join_of_the_same_endpoint'] += 1
      if 'exc' in st:
        b['exception_escaped_%s' % st['exc']] += 1
      prev = st
    if 'noraise_events' in o:
      b['histories_rerun_without_raising'] += 1
    if c.get('ep_mod'):
      b['histories_with_shared_endpoints'] += 1
  return {'branch_distribution': dict(b), 'families_avoided': sorted(avoided())}
