"""C19 - ZooKeeper server set reports exactly the membership changes that occurred.  (work in progress)"""
import json
import os
import sys

from .. import common as C

PID = 'C19'
PROPS_FILE = 'Props/C19.v'

_S = {}


def setup():
  if _S:
    return
  if C.REPO not in sys.path:
    sys.path.insert(0, C.REPO)
  import logging
  import scales
  assert scales.__file__.startswith(C.REPO), scales.__file__
  import gevent
  from scales.loadbalancer import zookeeper as zkmod
  from harness import c19_fakezk
  logging.getLogger('scales.pool.ZooKeeper').setLevel(logging.CRITICAL + 1)
  logging.getLogger('kazoo.recipe.watchers').setLevel(logging.CRITICAL + 1)
  _S.update(gevent=gevent, zkmod=zkmod, fake=c19_fakezk)


PATH = '/svc'


def _nm(case, n):
  return ('lock_%d' if n in case.get('filtered', []) else 'member_%d') % n


def _un(s):
  return int(s.split('_')[1])


def _data(n):
  return json.dumps({'serviceEndpoint': {'host': 'h%d' % n, 'port': 1000 + n}, 'additionalEndpoints': {},
                     'status': 'ALIVE'}).encode()


class _Run(object):
  """One execution of a case on the real ServerSet."""

  def __init__(self, case, allow_raise=True):
    setup()
    self.case = case
    self.g = _S['gevent']
    self.zk = _S['fake'].FakeZk(PATH)
    self.ss = None
    self.events = []
    self.armed = 0
    self.allow_raise = allow_raise
    self.greenlet_errors = []

  def _cb(self, kind):
    def f(m):
      n = _un(m.name)
      r = False
      if self.armed > 0:
        self.armed -= 1
        r = True
      self.events.append([kind, n, r])
      if r:
        raise RuntimeError('consumer callback fails')
    return f

  def _settle(self):
    for _ in range(4):
      self.g.sleep(0)

  def step(self, op):
    zk = self.zk
    k = op[0]
    e0 = len(self.events)
    r0 = len(zk.read_log)
    o = {}
    if k == 'start':
      if self.ss is None:
        try:
          self.ss = _S['zkmod'].ServerSet(zk, PATH, self._cb('join'), self._cb('leave'),
                                          lambda s: s.startswith('member_'))
        except Exception as e:
          o['exc'] = type(e).__name__
    elif k == 'mkp':
      o['eff'] = zk.create_parent()
    elif k == 'rmp':
      o['eff'] = zk.delete_parent()
    elif k == 'touch':
      o['eff'] = zk.touch_parent()
    elif k == 'mk':
      o['eff'] = zk.create(_nm(self.case, op[1]), _data(op[1]))
    elif k == 'rm':
      o['eff'] = zk.delete(_nm(self.case, op[1]))
    elif k == 'deliver':
      d = zk.deliver()
      if d is not None:
        o['kind'] = d[0]
        if d[1] is not None:
          o['exc'] = type(d[1]).__name__
    elif k == 'work':
      if self.ss is not None:
        zk.release()
        self._settle()
        if self.ss._worker is not None and self.ss._worker.dead:
          o['worker_dead'] = True
    elif k == 'raise':
      if self.allow_raise:
        self.armed += 1
    else:
      raise ValueError(k)
    o['ev'] = self.events[e0:]
    o['reads'] = [[_un(n), f] for n, f in zk.read_log[r0:]]
    o['parked'] = None if zk.parked is None else _un(zk.parked[0])
    o['pending'] = [p[0] for p in zk.pending]
    o['dw'] = len(zk.data_watchers)
    o['cw'] = len(zk.child_watchers)
    o['tree'] = sorted(_un(n) for n in zk.children) if zk.parent else None
    return o

  def close(self):
    if self.ss is not None:
      try:
        self.ss.stop()
        if self.zk.parked is not None:
          self.zk.parked = None
        self._settle()
      except Exception:
        pass


def run_impl(case):
  run = _Run(case)
  try:
    steps = [run.step(op) for op in case['ops']]
  finally:
    run.close()
  return {'steps': steps}
