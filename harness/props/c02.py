"""C02 - A call only ever receives the reply to its own request.

Implementation under test: the shipped Thrift and ThriftMux client stacks in the simulation world, against echo peers
that answer `hi(x)` with 'R:' + x (so every caller can tell whose reply it was handed) and that log the method and
argument they decoded from the bytes on the wire.
Model: coq/Model/Routing.v, one instance per connection incarnation.  For every connection of every scenario the
sequence [request written | peer answered | reply handed to a sink stack | closed] is replayed through the model in
Coq; the recipient of each reply is the call whose sink stack the IMPLEMENTATION chose (read from the transport's own
tag map / transaction at that moment), the request it answers is taken from the peer's log.
Monitor: every value a caller received is the echo of its own argument; every application exception carries its own
argument; the server saw exactly the method and argument each caller passed, once.
"""
import logging
import sys

from .. import common as C

PID = 'C02'
PROPS_FILE = 'Props/C02.v'
COQ_HEADER = 'From Scales Require Import Model.Routing.'
COQ_CASE_TYPE = 'list Routing.case'
COQ_CHECK = '(forallb Routing.check_case)'
COQ_EXPLAIN = '(map (fun c => (Routing.check_case c, Routing.explain_case c)))'
SHARD = 300
WORKERS = 8
RULE = ('seeded full-stack scenarios with well-behaved echo peers (reply after 0..timeout+5 ticks, never, server exception, reply without a result field, '
        'connection close/reset, chunked replies), 1-3 endpoints, 1-12 concurrent calls with unique (partly non-ASCII) arguments, '
        'pool sizes 1-3 so that connections are reused, the timeout-then-late-reply pattern on a reused connection, I/O faults, '
        'both timer tie orders; one Coq case per connection; non-trivial = a connection carried >= 2 requests or an abandoned one; '
        'distinct by canonical JSON of the per-connection label sequence')
TRUSTED = ['simulation world, scripted echo peers (decode requests with the Thrift library / own mux parser), tracing wrappers',
           'peer contract: a server answers each request at most once, on the connection it arrived on, serial: in order, mux: with '
           'the request\'s tag (adversarial peers are C11\'s subject)']
ASSUMPTIONS = ['TCP is a FIFO byte stream per connection', 'codec fidelity is C13/C14; argument identity of the proxy is C20 (both are also '
               'checked end to end here by the monitor)']
MANIFEST = {
    'text': ('Theorems over every label sequence of the per-connection routing models: on a serial connection and on a multiplexed '
             'connection every reply is delivered to the call whose request it answers; an abandoned request blocks further writes on a '
             'serial incarnation (so it must be closed) and keeps its tag bound on a multiplexed one. Tied to the real stacks by replaying '
             'every simulated connection; end-to-end echo monitor gives concrete failing histories.'),
    'note': ('Trusted: Coq kernel; simulation world, echo peers, tracing wrappers; peer contract. Theorems closed under the global context.'),
    'technique': 'Coq invariants (FIFO discipline / tag-map binding with NoDup tags) + trace-driven replay per connection + end-to-end echo monitor',
    'design_ref': 'DESIGN.md section 5, C02',
}

_S = {}
PADS = ['', 'x', 'é', '漢字', '\U0001F600', 'a|b', ' ', 'long' * 30]


def setup():
  if _S:
    return
  logging.disable(logging.CRITICAL)
  if C.REPO not in sys.path:
    sys.path.insert(0, C.REPO)
  import scales
  assert scales.__file__.startswith(C.REPO), scales.__file__
  from harness import scenario
  _S['scenario'] = scenario


def _sanitize(spec, r, adversarial=False):
  """Peers stay inside the peer contract (unless adversarial: duplicate answers and frames on unused tags, checked by
  the monitor only); arguments become unique and partly non-ASCII."""
  for ep in spec['endpoints']:
    for cid, a in list((ep.get('plan') or {}).items()):
      if a.get('act') in ('garbage', 'rerr') or (not adversarial and a.get('act') in ('dup', 'bogus')):
        ep['plan'][cid] = {'act': 'reply', 'delay': a.get('delay', 0)}
      elif a.get('act') == 'bogus':
        a['bogus_tag'] = r.choice([1, 9999, 77])
    ep.pop('ping', None)
  from harness import scenario as _sc
  for e in _sc.call_events(spec):
    e['pad'] = r.choice(PADS)
  spec['faults'] = [f for f in spec.get('faults', []) if f['op'] != 'connect' or f['what'] != 'hang']
  return spec


def late_reply(r, i):
  """Timeout, then the late reply arrives while the next request uses the same pooled / multiplexed connection."""
  stack = ['thrift', 'mux'][i % 2]
  T = r.choice([4, 8, 16])
  late = T + r.choice([1, 2, 3, 6])
  spec = {'stack': stack, 'tie': r.choice(['fifo', 'lifo']), 'timeout': T, 'seed': r.randrange(1 << 30), 'resolution': 1,
          'endpoints': [{'port': 9001, 'default': {'act': 'reply', 'delay': r.choice([0, 1])},
                         'plan': {'c0': {'act': 'reply', 'delay': late}, 'c2': {'act': r.choice(['reply', 'drop']), 'delay': late + 3}},
                         'reach': []}],
          'pool': {'min': 1, 'max': 1, 'maxq': 8}, 'faults': [], 'horizon': 200,
          'events': [{'at': 0, 'op': 'call', 'id': 'c0'},
                     {'at': T + r.choice([0, 0, 1]), 'op': 'call', 'id': 'c1', 'timeout': 40},
                     {'at': T + 1, 'op': 'call', 'id': 'c2'},
                     {'at': late + r.choice([0, 1, 2]), 'op': 'call', 'id': 'c3', 'timeout': 40},
                     {'at': late + 12, 'op': 'call', 'id': 'c4', 'timeout': 40}]}
  if r.random() < 0.3:
    # the first request's write itself is slow: the time-out interrupts it after part of the frame was accepted
    spec['endpoints'][0]['send_delay'] = T + r.choice([1, 3])
  return spec


def queued_expiry(r, i):
  """A mux request expires while queued behind a slow write; later calls must not receive its (late) answer."""
  sd = r.choice([4, 6, 9])
  spec = {'stack': 'mux', 'tie': r.choice(['fifo', 'lifo']), 'timeout': 64, 'seed': r.randrange(1 << 30), 'resolution': 1,
          'endpoints': [{'port': 9001, 'default': {'act': 'reply', 'delay': r.choice([3, 6])},
                         'plan': {'c1': {'act': 'reply', 'delay': 0}, 'c2': {'act': 'reply', 'delay': r.choice([4, 8])}},
                         'reach': [], 'send_delay': sd}],
          'faults': [], 'horizon': 260,
          'events': [{'at': 0, 'op': 'call', 'id': 'c0'},
                     {'at': 0, 'op': 'call', 'id': 'c1', 'timeout': r.choice([1, 2, sd - 1])},
                     {'at': r.choice([sd + 1, 2 * sd + 1, 3 * sd]), 'op': 'call', 'id': 'c2'},
                     {'at': 3 * sd + 2, 'op': 'call', 'id': 'c3'},
                     {'at': 60, 'op': 'call', 'id': 'c4'}]}
  return spec


def valueless_replies(r, i):
  """Replies that carry no result field or an application exception, interleaved with successful calls of the same
  method on the same client: nothing of an earlier call's reply may reach a later caller."""
  stack = ['thrift', 'mux'][i % 2]
  n = r.choice([3, 5, 8])
  plan = {}
  for k in range(1, n):
    x = r.random()
    if x < 0.45:
      plan['c%d' % k] = {'act': r.choice(['null', 'null', 'exc']), 'delay': r.choice([0, 1, 3])}
  spec = {'stack': stack, 'tie': r.choice(['fifo', 'lifo']), 'timeout': 64, 'seed': r.randrange(1 << 30), 'resolution': 1,
          'endpoints': [{'port': 9001, 'default': {'act': 'reply', 'delay': r.choice([0, 1, 2])}, 'plan': plan, 'reach': []}],
          'faults': [], 'horizon': 200,
          'events': [{'at': k * r.choice([0, 1, 4]), 'op': 'call', 'id': 'c%d' % k} for k in range(n)]}
  return spec


def gen_cases(tier, seed):
  from harness import scengen
  n = 360 if tier == 'quick' else 6000
  out = []
  for i in range(n):
    r = C.case_rng(seed, PID, i)
    if i % 3 == 0:
      spec = late_reply(r, i // 3)
      kind = spec['stack'] + '/late-reply'
    elif i % 12 == 2:
      spec = queued_expiry(r, i)
      kind = 'mux/queued-expiry'
    elif i % 12 == 4:
      spec = valueless_replies(r, i // 12)
      kind = spec['stack'] + '/valueless-replies'
    elif i % 12 == 1:
      # adversarial mux peer: answers twice / also on unused tags, several calls in flight (monitor only)
      spec = scengen.gen(r, stack='mux', profile='mixed', idx=i)
      spec['events'] = [{'at': k // 3, 'op': 'call', 'id': 'c%d' % k} for k in range(r.choice([4, 6, 9]))]
      spec['endpoints'] = spec['endpoints'][:1]
      spec['endpoints'][0].update({'reach': [], 'member': True, 'default': {'act': 'reply', 'delay': 6}})
      spec['endpoints'][0]['plan'] = {'c%d' % k: {'act': r.choice(['dup', 'bogus', 'reply']), 'delay': r.choice([0, 1, 2, 3]),
                                                  'bogus_tag': 77} for k in range(9)}
      spec['timeout'] = 64
      spec['horizon'] = 200
      spec['faults'] = []
      out.append({'kind': 'mux/adversarial-peer', 'spec': _sanitize(spec, r, adversarial=True), 'adversarial': True})
      continue
    else:
      spec = scengen.gen(r, profile=['mixed', 'timeouts', 'faults'][i % 3], idx=i)
      kind = spec['stack'] + '/general'
    out.append({'kind': kind, 'spec': _sanitize(spec, r)})
  return out


def search_cases(tier, seed, diverging):
  out = []
  for i in range(1200):
    r = C.case_rng(seed + 32452843, PID, i)
    out.append({'kind': 'search', 'spec': _sanitize(late_reply(r, i), r)})
  return out


def run_impl(case):
  setup()
  tr = _S['scenario'].run(case['spec'])
  calls = {cid: {k: c.get(k) for k in ('issued', 'timeout', 'done', 'issue_error')} for cid, c in tr['calls'].items()}
  args = {e['id']: e['id'] + '|' + e.get('pad', '') for e in _S['scenario'].call_events(case['spec'])}
  return {'calls': calls, 'args': args,
          'events': [e for e in tr['events'] if e[1] in ('resp', 'answered', 'complete')],
          'servers': {p: {'requests': s['requests'], 'replies': s['replies']} for p, s in tr['servers'].items()},
          'closes': tr.get('closes', []), 'crashes': tr['crashes']}


def monitor(case, obs):
  v = []
  seen = {}
  for port, s in obs['servers'].items():
    for rq in s['requests']:
      cid = rq['id']
      seen.setdefault(cid, []).append(rq)
      want = obs['args'].get(cid)
      if rq['method'] != 'hi' or want is None or rq['arg'] != want:
        v.append(('server-saw-wrong-call', 'server on port %s decoded %s(%r), caller %s passed hi(%r)' % (port, rq['method'], rq['arg'], cid, want)))
  for cid, rqs in seen.items():
    if len(rqs) > 1:
      v.append(('request-duplicated', 'the request of call %s reached servers %d times' % (cid, len(rqs))))
  for cid, c in obs['calls'].items():
    for d in c['done']:
      arg = obs['args'].get(cid)
      if d['kind'] == 'value' and d['value'] != 'R:' + arg:
        v.append(('wrong-reply', 'call %s with argument %r received %r' % (cid, arg, d['value'])))
      nulls = any(ep.get('plan', {}).get(cid, {}).get('act') == 'null' or (ep.get('default') or {}).get('act') == 'null'
                  for ep in case['spec']['endpoints'])
      if d['kind'] == 'TApplicationException' and nulls and 'unknown result' in d['value']:
        continue       # a reply without a result field: the caller is told so
      if d['kind'] == 'TApplicationException' and ('boom:' + arg)[:100] not in d['value']:
        v.append(('wrong-reply', 'call %s with argument %r received exception %r' % (cid, arg, d['value'])))
      if d['kind'] == 'value' and cid not in seen:
        v.append(('reply-without-request', 'call %s got a value but no server saw its request' % cid))
  return v


def _num(cid):
  return int(cid[1:])


def to_coq(case, obs):
  if case.get('adversarial'):
    return None        # outside the peer contract of the model: monitor only
  stack = case['spec']['stack']
  terms = []
  for port, s in obs['servers'].items():
    conns = sorted(set(rq['conn'] for rq in s['requests']))
    for conn in conns:
      items = []   # (seq, label)
      reqs = [rq for rq in s['requests'] if rq['conn'] == conn]
      reps = [rp for rp in s['replies'] if rp['conn'] == conn]
      mine = set(rq['id'] for rq in reqs)
      for rq in reqs:
        if stack == 'thrift':
          items.append((rq['seq'], '(Serial.Write %s)' % C.zlit(_num(rq['id']))))
        else:
          items.append((rq['seq'], '(Mux.Write %s %s)' % (C.zlit(_num(rq['id'])), C.zlit(rq['tag']))))
      for rp in reps:
        if stack == 'thrift':
          items.append((rp['seq'], 'Serial.PeerReply'))
        else:
          items.append((rp['seq'], '(Mux.PeerReply %s %s)' % (C.zlit(rp['tag']), C.zlit(_num(rp['id'])))))
      # replies handed to a sink stack by the implementation, in order
      handed = []
      if stack == 'thrift':
        first_stream = {}
        for e in obs['events']:
          if e[1] == 'resp' and e[5] == 'stream' and e[2] in mine and e[2] not in first_stream:
            first_stream[e[2]] = e
        for cid, e in first_stream.items():
          handed.append((e[-1], cid))
          items.append((e[-1], '(Serial.Read %s)' % C.zlit(_num(cid))))
      else:
        conn_tags = {}
        for rq in reqs:
          conn_tags.setdefault(rq['tag'], []).append(rq)
        for e in obs['events']:
          if e[1] == 'answered' and e[2] in mine:
            # the answered event belongs to this connection iff the recipient's request was written here
            handed.append((e[-1], e[2]))
            items.append((e[-1], 'Mux.Recv'))
      for cl in obs['closes']:
        if str(cl[1]) == port and cl[2] == conn and cl[3] is not None:
          items.append((cl[3], 'Serial.Close' if stack == 'thrift' else 'Mux.Close'))
          break
      items.sort()
      handed.sort()
      # the k-th reply handed over on this connection is the k-th answer the peer sent on it
      delivered = []
      for k, (sq, cid) in enumerate(handed):
        if k >= len(reps):
          return None      # more hand-overs than answers: cannot attribute (stray data); left to the monitor
        delivered.append('(%s, %s)' % (C.zlit(_num(cid)), C.zlit(_num(reps[k]['id']))))
      delivered.reverse()
      ctor = 'CSerial' if stack == 'thrift' else 'CMux'
      terms.append('%s %s %s' % (ctor, C.lst([l for _sq, l in items]), C.lst(delivered)))
  return C.lst(terms)


def nontrivial(case, obs):
  for s in obs['servers'].values():
    per = {}
    for rq in s['requests']:
      per[rq['conn']] = per.get(rq['conn'], 0) + 1
    if any(n >= 2 for n in per.values()):
      return True
  return any(c['done'] and c['done'][0]['kind'] == 'TimeoutError' for c in obs['calls'].values())


def describe(case, obs):
  return {'spec': case['spec'], 'calls': obs['calls'], 'servers': obs['servers']}


def stats(cases, obs):
  conns = reqs = vals = reused = 0
  for o in obs:
    if not isinstance(o, dict) or 'servers' not in o:
      continue
    for s in o['servers'].values():
      per = {}
      for rq in s['requests']:
        per[rq['conn']] = per.get(rq['conn'], 0) + 1
      conns += len(per)
      reqs += len(s['requests'])
      reused += sum(1 for n in per.values() if n >= 2)
    vals += sum(1 for c in o['calls'].values() if c['done'] and c['done'][0]['kind'] == 'value')
  return {'connections': conns, 'requests_seen_by_servers': reqs, 'connections_reused': reused, 'calls_with_value': vals}
