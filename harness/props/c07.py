"""C07 - Watermark pool bounds concurrency, queues FIFO and never leaks capacity.

Implementation under test (imported from $SCALES_REPO as it is now):
  scales.pool.watermark.WatermarkPoolSink (+ QueuingMessageSink), scales.pool.base.PoolSink,
  scales.sink.ClientMessageSinkStack / FailingMessageSink, scales.observable.Observable
driven over mock connections made by a mock provider.  Calls are carried by real ClientMessageSinkStack objects
with a terminator frame at the bottom that records what reaches the caller.

Model: coq/Model/Watermark.v (step function, lock-step per operation).  Monitor: reference pool specification
(connections in existence <= max, exclusive lending, FIFO among live waiters, bounded queue, hand-off on release,
no leak / retention <= min at quiescence, dead-on-release fails every live waiter exactly once).

Scheduling is deterministic and recorded: gevent.spawn inside scales.pool.watermark is captured (the greenlet is
started when the case says `pq`), requests run in their own greenlets (they may block in _Get on Open().wait()),
and after every operation the hub is run until nothing is runnable.
"""
import sys

from .. import common as C

PID = 'C07'
PROPS_FILE = 'Props/C07.v'
COQ_HEADER = 'From Scales Require Import Model.Watermark.\nLocal Open Scope Z_scope.'
COQ_CASE_TYPE = 'Watermark.case'
COQ_CHECK = 'Watermark.check_case'
COQ_EXPLAIN = 'Watermark.explain_case'
SHARD = 400
WORKERS = 8
RULE = ('configurations min in {-1,0..3,2^31-1,default}, max in {0..4,2^31-1,default}, max_queue_len in {-1,0..3,2^31-1,default} '
        '(default = option not passed to the builder; min > max included); operation sequences of length 3..45 (and 150/250) '
        'over {request, complete an Open(), release a lent call, expire a queued call, run a spawned _ProcessQueue (any pending '
        'one), change a connection state (1..4), pool Close, pool Open}; Open() results completing later (ok or failed) or '
        'before Open() returns; connections that answer inside AsyncProcessRequest (reply or transport error, also on a dead '
        'connection); callers that react from inside the callback that answers them (new request, Close, Open, raising an '
        'Exception or gevent.Timeout) or from a fresh greenlet in the same instant (new request, Close, Open - also when '
        'answered with ServiceClosedError); every case drives TWO pool instances of one process with the same operations; '
        'seeded generators in four families (healthy, faults, closing, bursts above max+maxq with every-subset expiry), an '
        'exhaustive enumeration of all sequences of a 9-letter alphabet for (1,1,2) (depth 3 quick / 5 thorough), '
        'plus not-enabled labels; every case is followed by a recorded drain epilogue (run hand-offs, complete opens, '
        'release all lent calls until quiescent); non-trivial = at least one request was queued, failed or handed '
        'off; distinct by canonical JSON of (case, observation)')
TRUSTED = ['mock provider/connection/terminator and the captured gevent.spawn in harness/props/c07.py',
           'reference pool specification (monitor) in harness/props/c07.py']
ASSUMPTIONS = ['a connection reports state Closed after the pool called Close() on it',
               'out of scope (lead decision; not reachable through the shipped stack, whose response sink completes an AsyncResult '
               'that notifies from the hub and whose transports do not raise from Close()/Open()/CreateSink); each replays with a '
               'switch in c07.PENDING: P2 a caller re-dispatching from inside a ServiceClosedError callback during Close() on a '
               'saturated pool -> RuntimeError deque mutated during iteration, later waiters not failed; P3 a response callback '
               'raising inside Close() aborts the fail-all loop; P4 a connection whose Close() raises in _Release/_FlushCache loses '
               'the releasing caller\'s reply / aborts Close(); P5 a synchronous failure of CreateSink/Open() in _Get leaks the slot '
               'already counted in _current_size',
               'callers reacting inside Close()\'s loop (nested Close/Open) are not a label sequence: those cases are judged by the '
               'monitor only (counted as cases_not_sent_to_model)',
               'gevent runs spawned greenlets in spawn order; the model allows any pending _ProcessQueue to run (superset)',
               'a time-out of a call that already holds a connection is the same stack unwinding as a reply (label Resp); '
               'a time-out while blocked in Open().wait() does not involve the pool',
               'liveness clauses (hand-off, nobody waits below capacity, every call completes, retention <= min) are checked on '
               'pools that were never closed; safety clauses (<= max connections, exclusive lending, queue bound, answered at '
               'most once) are checked always. Observation, not a finding (lead decision): _Get never looks at the pool state, '
               'so a request that reaches an already closed and saturated pool is queued and then neither served nor failed '
               '(min=0,max=1: Req0, OpenDone s0, pool.Close(), Req1 queued, Resp0 only counts the size down; call 1 waits for '
               'its own time-out; watermark.py:137-138); a closed pool only counts returned connections down and does not '
               'close them (DESIGN C07_size note)']

MANIFEST = {
    'text': ('Theorems C07_size, C07_exclusive, C07_queue, C07_fifo, C07_no_leak, C07_handoff, C07_retention, '
             'C07_dead_on_release, C07_closed_pool_open_inert (and C07_once) hold for every configuration and every label sequence of the Gallina '
             'transcription of the watermark pool; the transcription is compared in lock-step with the real '
             'WatermarkPoolSink on ~2k (quick) / ~83k (thorough, incl. all 9^5 sequences over a 9-letter alphabet for (1,1,2)) '
             'operation sequences per run, each followed by a drain to quiescence.'),
    'note': ('Trusted: Coq kernel; the correspondence harness (harness/props/c07.py: mock connections, captured spawn) and '
             'its sampling; gevent FIFO scheduling. Liveness clauses are stated for pools that were never closed.'),
    'technique': 'Coq proof (inductive invariants over all label sequences) + lock-step differential execution model vs code + reference-spec monitor',
    'design_ref': 'DESIGN.md section 5, C07',
}

BIG = 2147483647
_S = {}
_CUR = [None]          # the pool world whose operation is being executed (greenlet errors are charged to it)
_BY_POOL = {}           # id(pool) -> world, so that a captured spawn lands in the world of the pool that spawned


# ---------------------------------------------------------------------------------------------
# world
# ---------------------------------------------------------------------------------------------
class _Dummy(object):
  def kill(self, *a, **k):
    pass

  def join(self, *a, **k):
    pass


class _GeventProxy(object):
  """Stands for the name `gevent` inside scales.pool.watermark: spawn() is captured, the rest is gevent."""

  def __init__(self, real):
    self._real = real

  def spawn(self, fn, *a, **kw):
    h = _BY_POOL.get(id(getattr(fn, '__self__', None))) or _CUR[0]
    if h is None:
      return self._real.spawn(fn, *a, **kw)
    sid = getattr(a[0], 'sid', -1) if a else -1
    h.events.append(['spawn', sid])
    h.pending.append((fn, a, kw, sid))
    return _Dummy()

  def __getattr__(self, n):
    return getattr(self._real, n)


def setup():
  if _S:
    return
  if C.REPO not in sys.path:
    sys.path.insert(0, C.REPO)
  import gevent
  import scales
  assert scales.__file__.startswith(C.REPO), scales.__file__
  import scales.pool.watermark as wm
  from scales.pool.watermark import WatermarkPoolSink
  from scales.sink import ClientMessageSink, ClientMessageSinkStack, SinkProviderBase
  from scales.asynchronous import AsyncResult
  from scales.constants import ChannelState, SinkProperties
  from scales.message import MethodCallMessage, MethodReturnMessage, TimeoutError, ChannelConcurrencyError
  from scales.varz import VarzReceiver, Source
  import collections
  wm.gevent = _GeventProxy(gevent)
  hub = gevent.get_hub()

  def handle_error(context, etype, value, tb):
    h = _CUR[0]
    if h is not None and not h.finished:
      h.events.append(['crash', getattr(etype, '__name__', str(etype))])
  hub.handle_error = handle_error

  class MockSink(ClientMessageSink):
    def __init__(self, h, sid, state):
      super(MockSink, self).__init__()
      self.h = h
      self.sid = sid
      self._st = state
      self.open_ar = None
      self.endpoint = None

    @property
    def state(self):
      return self._st

    def Open(self):
      self.open_ar = AsyncResult()
      h = self.h
      if self.sid in h.open_raises:
        raise IOError('open failed synchronously')
      if h.imm:
        # Open() completes before it returns (eg an already open shared connection): wait() does not yield.
        # In the model this is `Req; OpenDone s` back to back; what was seen so far belongs to the first label.
        h.imm = False
        h.cut(['OpenDone', self.sid])
        self.open_ar.set(None)
      else:
        h.open_pending.append(self.sid)
      return self.open_ar

    def Close(self):
      self.h.events.append(['close', self.sid])
      self._st = ChannelState.Closed
      if self.sid in self.h.close_raises:
        raise IOError('close failed')

    def AsyncProcessRequest(self, sink_stack, msg, stream, headers):
      h = self.h
      h.events.append(['fwd', msg.cid, self.sid])
      how = h.inline_next
      if how:
        # the connection answers before AsyncProcessRequest returns (a serial transport still busy with a timed-out
        # call answers ChannelConcurrencyError inline, a dead one fails fast): in the model `...; Resp c` back to back
        h.inline_next = None
        h.status[msg.cid] = 'done'
        h.cut(['Resp', msg.cid])
        if how == 'ok':
          sink_stack.AsyncProcessResponseMessage(MethodReturnMessage(return_value=1))
        else:
          sink_stack.AsyncProcessResponseMessage(MethodReturnMessage(error=ChannelConcurrencyError('inline')))

    def AsyncProcessResponse(self, sink_stack, context, stream, msg):
      raise NotImplementedError()

  class Provider(SinkProviderBase):
    def __init__(self, h):
      super(Provider, self).__init__()
      self.h = h

    def CreateSink(self, properties):
      h = self.h
      sid = len(h.sinks)
      s = MockSink(h, sid, h.prestate.pop(sid, ChannelState.Idle))
      h.sinks.append(s)
      h.events.append(['create', sid])
      return s

    @property
    def sink_class(self):
      return MockSink

  class Terminator(ClientMessageSink):
    """Bottom frame of every call's stack: what the caller is told."""

    def __init__(self, h):
      super(Terminator, self).__init__()
      self.h = h

    def AsyncProcessRequest(self, sink_stack, msg, stream, headers):
      raise NotImplementedError()

    def AsyncProcessResponse(self, sink_stack, context, stream, msg):
      h = self.h
      err = getattr(msg, 'error', None)
      name = type(err).__name__ if err is not None else None
      kind = _ERR.get(name, name)
      if name is None or name == 'ChannelConcurrencyError':
        kind = None
        h.events.append(['done', context])      # a reply or the transport's own error: it travelled past the pool
      else:
        h.events.append(['err', context, kind])
      act = h.react.pop(context, None)
      if act:
        h.reaction(act, kind)

  class CallMsg(MethodCallMessage):
    __slots__ = ('cid',)

  _S.update(gevent=gevent, wm=wm, Pool=WatermarkPoolSink, Stack=ClientMessageSinkStack, MockSink=MockSink,
            Provider=Provider, Terminator=Terminator, CallMsg=CallMsg, Ret=MethodReturnMessage,
            Timeout=TimeoutError, CS=ChannelState, SP=SinkProperties, VR=VarzReceiver, Source=Source,
            EP=collections.namedtuple('EP', 'host port'))


_ERR = {'MaxWaitersError': 1, 'ServiceClosedError': 2, 'TimeoutError': 3}
_G_SIZE = 'scales.pool.WatermarkPool.size'
_G_QUEUE = 'scales.pool.WatermarkPool.queue_size'


class _H(object):
  """One pool instance and its world."""

  def __init__(self, cfg, name):
    S = _S
    self.events = []
    self.sinks = []
    self.prestate = {}
    self.pending = []          # captured spawns
    self.open_pending = []     # sids whose Open() result is not completed yet
    self.finished = False
    self.imm = False
    self.inline_next = None
    self.react = {}            # cid -> what its caller does from inside the callback that answers it
    self.expected = None       # exception raised by a caller callback on purpose
    self.close_raises = set()  # sids whose Close() raises (PENDING['raising_collaborator'])
    self.suppressed = 0
    self.open_raises = set()
    self.nomodel = None
    self.cur_label = None
    self.segs = []             # (label, seen) segments of the operation being executed
    self.seg_start = 0
    self.ncall = 0
    self.stacks = {}
    self.status = {}           # cid -> pending | opening | queued | lent | done
    self.greenlets = []
    self.source = S['Source'](service='c07' + name, endpoint='h:1')
    for m in (_G_SIZE, _G_QUEUE):
      S['VR'].VARZ_DATA[m].pop(self.source, None)
    self.prov = S['Provider'](self)
    self.term = S['Terminator'](self)
    kw = {}
    for k, v in zip(('min_watermark', 'max_watermark', 'max_queue_len'), cfg):
      if v is not None:        # None: the option is not passed at all (builder default)
        kw[k] = v
    sp = S['Pool'].Builder(**kw).sink_properties
    self.pool = S['Pool'](self.prov, sp, {S['SP'].Label: 'c07' + name, S['SP'].Endpoint: S['EP']('h', 1)})
    _BY_POOL[id(self.pool)] = self
    # pool.Open() only defers _OpenImpl to a fresh greenlet: the label OpenPool starts when that greenlet starts,
    # and its outcome is known when it returns (the AsyncResult is checked against it at the end of the case)
    self.open_direct = False
    self.open_results = []
    self.ar_results = []
    self.wrapped = hasattr(self.pool, '_OpenImpl')
    if self.wrapped:
      orig = self.pool._OpenImpl

      def open_impl():
        if self.open_direct:
          self.open_direct = False
        else:
          self.cut(['OpenPool'])
        ok = False
        try:
          r = orig()
          ok = True
          return r
        finally:
          if not self.finished:
            self.events.append(['openres', ok])
            self.open_results.append(ok)
      self.pool._OpenImpl = open_impl

  def pool_open(self):
    ar = self.pool.Open()
    if self.wrapped:
      ar.rawlink(lambda a: self.ar_results.append(bool(a.successful())))
    else:
      self.cut(['OpenPool'])
      ar.rawlink(lambda a: self.events.append(['openres', bool(a.successful())]))

  # -- plumbing
  def guard(self, fn, *a, **kw):
    try:
      fn(*a, **kw)
    except BaseException as e:
      if e is self.expected and not self.nomodel:
        self.expected = None       # the caller's own exception came back to the caller's side: not the pool's doing
      elif not self.finished:
        self.events.append(['crash', type(e).__name__])

  def settle(self):
    sl = _S['gevent'].sleep
    for _ in range(4):
      sl(0)

  def run(self, fn, *a, **kw):
    """Runs fn on its own greenlet (it may block in Open().wait()) and lets the hub run until nothing is runnable."""
    g = _S['gevent'].spawn(self.guard, fn, *a, **kw)
    self.greenlets.append(g)
    self.settle()
    return g

  def gauges(self):
    d = _S['VR'].VARZ_DATA
    return d[_G_SIZE].get(self.source, 0), d[_G_QUEUE].get(self.source, 0)

  def seen(self):
    gs, gq = self.gauges()
    try:
      ps = self.pool.state
    except Exception:
      ps = -1
    return {'ev': self.events[self.seg_start:], 'ps': ps, 'gs': gs, 'gq': gq}

  def cut(self, next_label):
    """What was seen so far belongs to the current label; from now on the pool executes next_label
    (a second label started from inside the first one, at a point where the first has nothing left to do)."""
    if self.cur_label is not None:
      self.segs.append((self.cur_label, self.seen()))
    self.seg_start = len(self.events)
    self.cur_label = next_label

  def absorb(self):
    """Updates the call bookkeeping from the events of the operation just executed."""
    for e in self.events:
      if e[0] == 'fwd' and self.status.get(e[1]) != 'done':
        self.status[e[1]] = 'lent'
      elif e[0] in ('err', 'done'):
        self.status[e[1]] = 'done'
    for c, v in self.status.items():
      if v == 'pending':       # AsyncProcessRequest has not returned: blocked in Open().wait()
        self.status[c] = 'opening'

  def request(self, then=None):
    S = _S
    cid = self.ncall
    self.ncall += 1
    st = S['Stack']()
    st.Push(self.term, cid)
    msg = S['CallMsg'](None, 'm', (), {})
    msg.cid = cid
    self.stacks[cid] = st
    if then:
      self.react[cid] = then
    self.status[cid] = 'pending'
    try:
      self.pool.AsyncProcessRequest(st, msg, None, {})
    except BaseException:
      self.status[cid] = 'done'
      raise
    if self.status[cid] == 'pending':
      self.status[cid] = 'queued'

  def reaction(self, act, kind):
    """The caller's callback calls back into the pool before it returns."""
    if act.startswith('spawn_'):
      # the caller reacts from a fresh greenlet: it runs in the same instant, after the pool operation has returned
      g = _S['gevent'].spawn(self.guard, self.reaction, act[6:], None)
      self.greenlets.append(g)
      return
    if kind == 2:
      # inside Close()'s loop over the waiters
      if (act == 'req' and not PENDING['reenter_req_in_close']) or \
         (act.startswith('raise') and not PENDING['raising_callback_in_close']):
        self.suppressed += 1      # out of the property's scope (P2, P3 in ASSUMPTIONS): this caller does not react
        return
      # the pool is in the middle of an operation, so this is not a sequence of labels; such cases are checked
      # by the monitor only
      self.nomodel = '%s from inside a ServiceClosedError callback' % act
    if act == 'req':
      self.cut(['Req'])
      self.request()
    elif act == 'close':
      self.cut(['ClosePool'])
      self.pool.Close()
    elif act == 'open':
      self.pool_open()
    elif act in ('raise', 'raise_timeout'):
      # the caller's callback raises (an Exception, or gevent.Timeout which is a BaseException); outside Close()'s
      # loop the pool has nothing left to do, the exception travels up to whoever delivered the answer
      self.expected = ValueError('caller callback') if act == 'raise' else _S['gevent'].Timeout()
      raise self.expected

  # -- operations; each sets the concrete label before it acts
  def op(self, o):
    k = o['op']
    S = _S
    if k == 'req':
      self.cur_label = ['Req']
      self.run(self.request, o.get('then'))
      return
    if k == 'opendone':
      if 'i' in o:
        s = self.open_pending[o['i'] % len(self.open_pending)] if self.open_pending else -1
      else:
        s = o['s']
      self.cur_label = ['OpenDone', s]
      if s in self.open_pending:
        self.open_pending.remove(s)
        ar = self.sinks[s].open_ar
        if o.get('ok', True):
          ar.set(None)
        else:
          ar.set_exception(Exception('open failed'))
        self.settle()
      return
    if k == 'resp':
      lent = sorted(c for c, v in self.status.items() if v == 'lent')
      if 'i' in o:
        c = lent[o['i'] % len(lent)] if lent else -1
      else:
        c = o['c']
      self.cur_label = ['Resp', c]
      if c in lent:
        self.status[c] = 'done'
        self.run(self.stacks[c].AsyncProcessResponseMessage, S['Ret'](return_value=1))
      return
    if k == 'expire':
      q = sorted(c for c, v in self.status.items() if v == 'queued')
      if 'i' in o:
        c = q[o['i'] % len(q)] if q else -1
      else:
        c = o['c']
      self.cur_label = ['Expire', c]
      if c in q:
        self.status[c] = 'done'
        # ClientTimeoutSink._TimeoutHelper: sink_stack.AsyncProcessResponseMessage(MethodReturnMessage(error=TimeoutError()))
        self.run(self.stacks[c].AsyncProcessResponseMessage, S['Ret'](error=S['Timeout']()))
      return
    if k == 'pq':
      if 'i' in o:
        idx = o['i'] % len(self.pending) if self.pending else 0
      else:
        idx = o['k']
      self.cur_label = ['PQ', idx]
      if 0 <= idx < len(self.pending):
        fn, a, kw, _sid = self.pending.pop(idx)
        self.run(fn, *a, **kw)
      return
    if k == 'state':
      if 'i' in o:
        s = o['i'] % len(self.sinks) if self.sinks else -1
      else:
        s = o['s']
      self.cur_label = ['SinkState', s, o['v']]
      if 0 <= s < len(self.sinks):
        self.sinks[s]._st = o['v']
      else:
        self.prestate[s] = o['v']
      return
    if k == 'sabotage':          # environment only, no label: connection s raises from Close() (P4, out of scope)
      (self.open_raises if o.get('what') == 'open' else self.close_raises).add(o['s'])
      return
    if k == 'close':
      self.cur_label = ['ClosePool']
      self.run(self.pool.Close)
      return
    if k == 'open':
      self.cur_label = ['OpenPool']
      self.open_direct = self.wrapped
      try:
        if self.wrapped:
          self.pool_open()
        else:
          ar = self.pool.Open()
          ar.rawlink(lambda a: self.events.append(['openres', bool(a.successful())]))
      except BaseException as e:
        self.events.append(['crash', type(e).__name__])
      self.settle()
      self.open_direct = False
      return
    raise ValueError(k)

  def do(self, o, labels, seen):
    _CUR[0] = self
    self.events = []
    self.segs = []
    self.seg_start = 0
    self.cur_label = None
    self.imm = bool(o.get('imm')) and o['op'] in ('req', 'open')
    self.inline_next = o.get('inline') if o['op'] in ('req', 'opendone', 'pq') else None
    self.op(o)
    self.settle()
    self.imm = False
    self.inline_next = None
    self.cut(None)
    self.absorb()
    for lab, sn in self.segs:
      labels.append(lab)
      seen.append(sn)

  def drain(self, labels, seen):
    """Epilogue: traffic stops; run every hand-off, complete every Open(), release every lent call."""
    for _round in range(400):
      if self.pending:
        self.do({'op': 'pq', 'k': 0}, labels, seen)
      elif self.open_pending:
        self.do({'op': 'opendone', 's': self.open_pending[0]}, labels, seen)
      else:
        lent = sorted(c for c, v in self.status.items() if v == 'lent')
        if not lent:
          return True
        self.do({'op': 'resp', 'c': lent[0]}, labels, seen)
    return False

  def finish(self):
    self.finished = True
    _BY_POOL.pop(id(self.pool), None)
    for g in self.greenlets:
      if not g.dead:
        g.kill(block=False)
    self.settle()


def run_impl(case):
  setup()
  cfg = case['config']
  # two pool instances in one process, driven by the same operations in lock-step (A first, then B): class-level or
  # module-level state shared between instances shows up as A deviating from the model and from the specification,
  # and as B not behaving like A
  worlds = [_H(cfg, 'A')]
  if case.get('twin', True):
    worlds.append(_H(cfg, 'B'))
  out = [([], []) for _ in worlds]
  try:
    for o in case['ops']:
      for h, (labels, seen) in zip(worlds, out):
        h.do(o, labels, seen)
    nops = len(out[0][0])
    drained = True
    if case.get('drain', True):
      for h, (labels, seen) in zip(worlds, out):
        drained = h.drain(labels, seen) and drained
    else:
      drained = False
    h = worlds[0]
    diag = {}
    try:
      p = h.pool
      diag = {'size': p._current_size, 'cache': [s.sid for s in p._cache], 'waiters': len(p._waiters)}
    except Exception:
      pass
    res = {'labels': out[0][0], 'seen': out[0][1], 'nops': nops, 'drained': drained, 'diag': diag}
    if h.wrapped and drained and sorted(h.open_results) != sorted(h.ar_results):
      res['open_mismatch'] = {'_OpenImpl': h.open_results, 'Open().successful()': h.ar_results}
    if h.nomodel:
      res['nomodel'] = h.nomodel
    if h.suppressed:
      res['suppressed_reactions'] = h.suppressed
    if len(worlds) > 1:
      la, sa = out[0]
      lb, sb = out[1]
      if la == lb and sa == sb:
        res['twin'] = 'same'
      else:
        k = 0
        while k < min(len(la), len(lb)) and la[k] == lb[k] and sa[k] == sb[k]:
          k += 1
        res['twin'] = {'first_difference_at': k, 'a': [la[k:k + 1], sa[k:k + 1]], 'b': [lb[k:k + 1], sb[k:k + 1]]}
    return res
  finally:
    for h in worlds:
      h.finish()
    _CUR[0] = None


# ---------------------------------------------------------------------------------------------
# monitor: reference specification of the pool, evaluated on labels + events only
# ---------------------------------------------------------------------------------------------
def _monitor_reentrant(case, obs):
  """Cases in which a caller calls back into the pool from inside Close()'s loop over the waiters: the nested labels
  are not a sequence of pool operations, so only what the property says whatever the interleaving is checked:
  nothing escapes, nobody is answered or started twice, nobody is started after having been answered, no connection
  is lent twice, and every call that was waiting when the pool closed is failed with ServiceClosedError (once)."""
  V = []

  def flag(sig, msg):
    if not any(s == sig for s, _ in V):
      V.append((sig, msg))

  term = {}
  fwd = {}
  waiting = []
  must_fail = set()
  failed = {}
  busy = {}
  ncall = 0
  ps_before = 1
  for i, (lab, sn) in enumerate(zip(obs['labels'], obs['seen'])):
    at = 'op %d %s' % (i, lab)
    cur = None
    if lab[0] == 'Req':
      cur = ncall
      ncall += 1
    if lab[0] == 'Resp':
      for s_, c_ in list(busy.items()):
        if c_ == lab[1]:
          del busy[s_]
    if (ps_before != 4 and sn['ps'] == 4) or lab[0] == 'ClosePool':
      must_fail.update(waiting)
    for e in sn['ev']:
      if e[0] == 'crash':
        flag('greenlet-crash', '%s: exception %s escaped (caller never told / connection lost)' % (at, e[1]))
      elif e[0] == 'fwd':
        c, s_ = e[1], e[2]
        fwd[c] = fwd.get(c, 0) + 1
        if fwd[c] > 1:
          flag('call-forwarded-twice', '%s: call %d forwarded again' % (at, c))
        if term.get(c):
          flag('forward-after-completion', '%s: call %d was forwarded after its caller had been answered' % (at, c))
        if s_ in busy:
          flag('double-lend', '%s: connection %d lent to call %d while call %d is still on it' % (at, s_, c, busy[s_]))
        busy[s_] = c
        if c in waiting:
          waiting.remove(c)
      elif e[0] in ('err', 'done'):
        c = e[1]
        term[c] = term.get(c, 0) + 1
        if term[c] > 1:
          flag('completed-twice', '%s: caller of %d answered %d times' % (at, c, term[c]))
        if e[0] == 'err' and e[2] == 2:
          failed[c] = failed.get(c, 0) + 1
        if c in waiting:
          waiting.remove(c)
    if cur is not None:
      evs = sn['ev']
      if not any((x[0] in ('fwd', 'err') and x[1] == cur) or x[0] in ('create', 'crash') for x in evs):
        waiting.append(cur)
    ps_before = sn['ps']
  missing = sorted(c for c in must_fail if failed.get(c, 0) != 1 and not fwd.get(c) and term.get(c, 0) == 0)
  if missing:
    flag('waiter-not-failed-on-close', 'pool closed but waiting call(s) %s never got a ServiceClosedError' % missing)
  return V


DEFAULTS = [1, BIG, BIG]      # WatermarkPoolSink.Builder defaults: min_watermark, max_watermark, max_queue_len


def _config(case):
  return [d if v is None else v for v, d in zip(case['config'], DEFAULTS)]


def monitor(case, obs):
  mn, mx, mq = _config(case)
  V = []

  def flag(sig, msg):
    if not any(s == sig for s, _ in V):
      V.append((sig, msg))

  if obs.get('open_mismatch'):
    flag('open-result-mismatch', 'what pool.Open() reported differs from how _OpenImpl ended: %s' % (obs['open_mismatch'],))
  if obs.get('twin', 'same') != 'same':
    flag('instances-interfere', 'two pools of one process given the same operations behaved differently: %s' % (obs['twin'],))
  if obs.get('nomodel'):
    return V + _monitor_reentrant(case, obs)

  created = []            # sids in creation order
  closed_ever = set()     # Close() called by the pool
  dropped = set()         # returned to a closed pool / found dead on release
  busy = {}               # sid -> cid lent and not released
  opening = {}            # sid -> cid | 'open'
  handoff = []            # sids with a spawned, not yet run _ProcessQueue
  env = {}                # sid -> reported state
  pre = {}
  Q = []                  # [cid, alive] in arrival order (expired entries stay until a hand-off passes them)
  calls = {}              # cid -> {'fwd': n, 'term': n, 'where': ...}
  ever_closed = False
  ps_before = 1
  ncall = 0

  def held():
    # connections under the pool's control; one the pool already closed counts again while the pool
    # evidently uses it (a closed pool does not forget its flushed cache: a connection that reports a live
    # state again is lent again)
    return [s for s in created if s not in dropped and (s not in closed_ever or s in busy or s in handoff)]

  def alive_q():
    return [c for c, a in Q if a]

  def release_fate(s, pool_closed_before):
    if pool_closed_before or env.get(s, 1) == 4:
      dropped.add(s)

  for i, (lab, sn) in enumerate(zip(obs['labels'], obs['seen'])):
    ev = sn['ev']
    kind = lab[0]
    at = 'op %d %s' % (i, lab)
    closed_before = ps_before == 4
    closing = (not closed_before) and sn['ps'] == 4
    alive_before = alive_q()
    cur = None
    if kind == 'Req':
      cur = ncall
      ncall += 1
      calls[cur] = {'fwd': 0, 'term': 0}
    failed_now = []
    fwd_now = []
    spawned_now = []
    # what the label itself does to the environment
    rel = None              # connection released by this label
    if kind == 'SinkState':
      if lab[1] in created:
        env[lab[1]] = lab[2]
      else:
        pre[lab[1]] = lab[2]
    elif kind == 'Resp':
      for s, c in list(busy.items()):
        if c == lab[1]:
          rel = s
          del busy[s]
    elif kind == 'OpenDone':
      who = opening.pop(lab[1], None)
      if who == 'open':
        rel = lab[1]
    elif kind == 'PQ':
      if 0 <= lab[1] < len(handoff):
        rel = handoff.pop(lab[1])
    rel_dead = rel is not None and env.get(rel, 1) == 4

    for e in ev:
      t = e[0]
      if t == 'crash':
        flag('greenlet-crash', '%s: exception %s escaped (caller never told / connection lost)' % (at, e[1]))
      elif t == 'create':
        s = e[1]
        created.append(s)
        env[s] = pre.pop(s, 1)
        opening[s] = cur if kind == 'Req' else 'open'
        if len(held()) > max(mx, 0):
          flag('too-many-connections', '%s: %d connections in existence, max_watermark %d' % (at, len(held()), mx))
      elif t == 'close':
        s = e[1]
        closed_ever.add(s)
        env[s] = 4
      elif t == 'spawn':
        handoff.append(e[1])
        spawned_now.append(e[1])
      elif t == 'fwd':
        c, s = e[1], e[2]
        fwd_now.append((c, s))
        if s in busy:
          flag('double-lend', '%s: connection %d lent to call %d while call %d is still on it' % (at, s, c, busy[s]))
        busy[s] = c
        ci = calls.setdefault(c, {'fwd': 0, 'term': 0})
        ci['fwd'] += 1
        if ci['fwd'] > 1:
          flag('call-forwarded-twice', '%s: call %d forwarded again' % (at, c))
        if ci['term'] > 0:
          flag('forward-after-completion', '%s: call %d was forwarded after its caller had been answered' % (at, c))
        inq = [j for j, (qc, _a) in enumerate(Q) if qc == c]
        if inq:
          j = inq[0]
          earlier = [qc for qc, a in Q[:j] if a]
          if earlier:
            flag('fifo-order', '%s: queued call %d started before earlier live waiter(s) %s' % (at, c, earlier))
          del Q[:j + 1]
        elif kind == 'Req' and c == cur and alive_q() and not ever_closed and not closing and not closed_before:
          flag('barging', '%s: new call %d got a connection while %s were waiting' % (at, c, alive_q()))
      elif t == 'err':
        c, k = e[1], e[2]
        ci = calls.setdefault(c, {'fwd': 0, 'term': 0})
        ci['term'] += 1
        if ci['term'] > 1:
          flag('completed-twice', '%s: caller of %d answered %d times' % (at, c, ci['term']))
        if k == 1:
          if not (kind == 'Req' and c == cur):
            flag('unexpected-error', '%s: MaxWaitersError for call %d' % (at, c))
          elif len(held()) < mx or len(Q) < mq:
            flag('max-waiters-without-full-queue',
                 '%s: call %d failed with MaxWaitersError with %d connections (max %d) and %d queued (max_queue_len %d)'
                 % (at, c, len(held()), mx, len(Q), mq))
        elif k == 2:
          failed_now.append(c)
          if c not in alive_q():
            flag('service-closed-unexpected', '%s: ServiceClosedError for call %d which is not waiting' % (at, c))
          if sn['ps'] != 4:
            flag('service-closed-unexpected', '%s: ServiceClosedError although the pool is not closed' % at)
          for q in Q:
            if q[0] == c:
              q[1] = False
        elif k == 3:
          for q in Q:
            if q[0] == c:
              q[1] = False
        else:
          flag('unexpected-error', '%s: call %d failed with %s' % (at, c, k))
      elif t == 'done':
        c = e[1]
        ci = calls.setdefault(c, {'fwd': 0, 'term': 0})
        ci['term'] += 1
        if ci['term'] > 1:
          flag('completed-twice', '%s: caller of %d answered %d times' % (at, c, ci['term']))
      elif t == 'openres':
        if e[1] and (sn['ps'] == 4 or closed_before or (rel_dead and not any(s == rel for _c, s in fwd_now))):
          flag('open-succeeded-on-closed-pool', '%s: pool.Open() reported success although the pool is closed / '
               'its connection was found dead on release' % at)

    # -- label-level expectations
    if kind == 'Req':
      got = [x for x in ev if (x[0] == 'fwd' and x[1] == cur) or (x[0] == 'err' and x[1] == cur)]
      opened = [x for x in ev if x[0] == 'create']
      crashed = any(x[0] == 'crash' for x in ev)
      if not got and not opened and not crashed:
        # the call now waits
        if len(held()) < mx:
          flag('queued-below-capacity', '%s: call %d was queued although only %d of %d connections exist'
               % (at, cur, len(held()), mx))
        if not ever_closed and not closed_before:
          idle = [s for s in held() if s not in busy and s not in opening and s not in handoff and env.get(s, 1) <= 2]
          if idle:
            flag('queued-while-connection-idle', '%s: call %d was queued although connection(s) %s are idle' % (at, cur, idle))
        Q.append([cur, True])
        if len(alive_q()) > max(mq, 0):
          flag('queue-overflow', '%s: %d calls waiting, max_queue_len %d' % (at, len(alive_q()), mq))
    if closing or kind == 'ClosePool':
      # every live waiter is failed exactly once, in this very operation
      missing = [c for c in alive_before if c not in failed_now]
      if kind == 'Req':
        missing = [c for c in missing if c != cur]
      if missing:
        flag('waiter-not-failed-on-close', '%s: pool closed but waiting call(s) %s got no ServiceClosedError' % (at, missing))
      dup = [c for c in set(failed_now) if failed_now.count(c) > 1]
      if dup:
        flag('completed-twice', '%s: waiters %s failed more than once' % (at, dup))
    if rel is not None:
      if rel_dead and not closed_before and sn['ps'] != 4 and not any(s == rel for _c, s in fwd_now):
        flag('dead-release-did-not-close', '%s: connection %d was dead when released but the pool stayed %s' % (at, rel, sn['ps']))
      if kind in ('Resp', 'OpenDone') and not closed_before and not rel_dead and alive_before and not ever_closed:
        if rel not in spawned_now:
          flag('release-did-not-hand-off', '%s: connection %d released while %s wait, no hand-off started' % (at, rel, alive_before))
      if kind == 'PQ':
        mine = [c for c, s in fwd_now if s == rel]
        if not mine:
          if alive_before and not closed_before and not rel_dead and not ever_closed:
            flag('handoff-skipped', '%s: hand-off of connection %d ran but live waiter(s) %s were not started' % (at, rel, alive_before))
          while Q and not Q[0][1]:
            Q.pop(0)
      if not any(s == rel for _c, s in fwd_now) and rel not in spawned_now:
        release_fate(rel, closed_before)
    if sn['ps'] == 4:
      ever_closed = True
    ps_before = sn['ps']
    if len(held()) > max(mx, 0):
      flag('too-many-connections', '%s: %d connections in existence, max_watermark %d' % (at, len(held()), mx))

  # -- after traffic stopped
  if obs.get('drained'):
    if not ever_closed:
      stuck = sorted(c for c, ci in calls.items() if ci['term'] != 1)
      if stuck and mx >= 1:
        flag('call-never-completed', 'after all connections were released and every hand-off ran, call(s) %s still '
             'have no answer (%d connections exist, max %d)' % (stuck, len(held()), mx))
      if len(held()) > max(mn, 0):
        flag('retained-above-min', '%d connections retained at quiescence, min_watermark %d' % (len(held()), mn))
    left = [s for s in held() if s in busy or s in opening or s in handoff]
    if left:
      flag('not-quiescent', 'drain ended with connections %s still in use' % left)
  return V


# ---------------------------------------------------------------------------------------------
# generators
# ---------------------------------------------------------------------------------------------
# Behaviours of the unchanged code that need an environment outside the property's quantifier (reported to the lead;
# see ASSUMPTIONS).  Turning a switch on makes the generators produce them and the monitor judge them.
PENDING = {
    'reenter_req_in_close': False,   # a caller re-dispatches from inside a ServiceClosedError callback (Close() loop)
    'raising_callback_in_close': False,  # a caller's callback raises inside Close()'s loop over the waiters
    'raising_collaborator': False,   # connection.Close() raises
}
import os as _os
for _k in _os.environ.get('C07_PENDING', '').split(','):
  if _k.strip() in PENDING:       # eg C07_PENDING=reenter_req_in_close,raising_callback_in_close ./check C07
    PENDING[_k.strip()] = True
PENDING_CASES = [
    {'kind': 'pending', 'config': [0, 1, 5], 'note': 'P2: deque mutated during iteration out of Close()',
     'ops': [{'op': 'req'}, {'op': 'opendone', 'i': 0}, {'op': 'req', 'then': 'req'}, {'op': 'req'}, {'op': 'close'}]},
    {'kind': 'pending', 'config': [0, 1, 5], 'note': 'P3: a raising callback aborts Close(), the next waiter is never failed',
     'ops': [{'op': 'req'}, {'op': 'opendone', 'i': 0}, {'op': 'req', 'then': 'raise'}, {'op': 'req'}, {'op': 'close'}]},
    {'kind': 'pending', 'config': [0, 1, 5], 'note': 'P4: connection.Close() raises in _Release, the releasing caller is never told',
     'ops': [{'op': 'req'}, {'op': 'opendone', 'i': 0}, {'op': 'sabotage', 's': 0}, {'op': 'resp', 'c': 0}]},
    {'kind': 'pending', 'config': [0, 1, 5], 'note': 'P5: Open() raising synchronously leaks the slot: the next request waits for ever',
     'ops': [{'op': 'sabotage', 's': 0, 'what': 'open'}, {'op': 'req'}, {'op': 'req'}]},
]


def _cfg(r):
  mn = r.choice([0, 0, 1, 1, 2, 3, None, -1, BIG])
  mx = r.choice([1, 1, 2, 2, 3, 4, 0, 1, 2, 3, None, BIG])
  mq = r.choice([0, 1, 2, 3, BIG, BIG, 0, 1, None, -1])
  return [mn, mx, mq]


def _then(r, fam):
  """What the caller of a request does from inside the callback that answers it."""
  acts = ['req', 'open', 'raise', 'raise_timeout', 'spawn_req', 'spawn_req', 'spawn_open']
  if fam != 'healthy':
    # the pool may close with this call waiting: its callback then runs inside Close()'s loop, so only a reaction
    # from a fresh greenlet (after Close() returned) is a pool operation of its own
    acts = ['spawn_req', 'spawn_req', 'spawn_open', 'open']
    if fam == 'closing':
      acts += ['close', 'spawn_close']
    if PENDING['reenter_req_in_close']:
      acts.append('req')
    if PENDING['raising_callback_in_close']:
      acts += ['raise', 'raise_timeout']
  return r.choice(acts)


def _rand_ops(r, fam, n):
  ops = []
  w = {'req': 30, 'opendone': 16, 'resp': 18, 'expire': 6, 'pq': 13, 'state': 0, 'close': 0, 'open': 2, 'odd': 2}
  if fam == 'faults':
    w.update(state=9, open=4)
  elif fam == 'closing':
    w.update(state=5, close=3, open=4)
  keys = list(w)
  ws = [w[k] for k in keys]
  for _ in range(n):
    k = r.choices(keys, ws)[0]
    if k == 'req':
      o = {'op': 'req'}
      if r.random() < 0.12:
        o['imm'] = True
      if r.random() < 0.10:
        o['inline'] = r.choice(['ok', 'fail'])
      if r.random() < 0.10:
        o['then'] = _then(r, fam)
      ops.append(o)
    elif k == 'opendone':
      o = {'op': 'opendone', 'i': r.randrange(4), 'ok': r.random() < 0.8}
      if r.random() < 0.12:
        o['inline'] = r.choice(['ok', 'fail'])
      ops.append(o)
    elif k in ('resp', 'expire', 'pq'):
      o = {'op': k, 'i': 0 if r.random() < 0.6 else r.randrange(5)}
      if k == 'pq' and r.random() < 0.15:
        o['inline'] = r.choice(['ok', 'fail'])
      ops.append(o)
    elif k == 'state':
      ops.append({'op': 'state', 'i': r.randrange(6), 'v': r.choice([4, 4, 4, 3, 2, 1])})
    elif k == 'close':
      ops.append({'op': 'close'})
    elif k == 'open':
      ops.append({'op': 'open', 'imm': True} if r.random() < 0.3 else {'op': 'open'})
    else:
      ops.append(r.choice([{'op': 'resp', 'c': r.randrange(-1, 12)}, {'op': 'expire', 'c': r.randrange(-1, 12)},
                           {'op': 'opendone', 's': r.randrange(-1, 8)}, {'op': 'pq', 'k': r.randrange(0, 4)},
                           {'op': 'state', 's': r.randrange(0, 8), 'v': r.choice([1, 2, 3] if fam == 'healthy' else [1, 2, 3, 4])}]))
  return ops


def _burst(r):
  """max+maxq+extra requests, every subset of the waiters expires, then everything is released in some order."""
  mn = r.choice([0, 1, 2])
  mx = r.choice([1, 2, 3])
  mq = r.choice([1, 2, 3, 4])
  ops = []
  for _ in range(mx):
    ops += [{'op': 'req'}, {'op': 'opendone', 'i': 0}]
  nq = mq + r.choice([0, 1, 2])
  ops += [{'op': 'req'}] * nq
  mask = r.randrange(1 << mq)
  for b in range(mq):
    if mask >> b & 1:
      ops.append({'op': 'expire', 'c': mx + b})
  tail = []
  for _ in range(mx + mq + 2):
    tail.append({'op': 'resp', 'i': r.randrange(3)})
    if r.random() < 0.7:
      tail.append({'op': 'pq', 'i': r.randrange(2), 'inline': r.choice(['ok', 'fail'])} if r.random() < 0.2 else
                  {'op': 'pq', 'i': r.randrange(2)})
    if r.random() < 0.15:
      tail.append({'op': 'req'})
    if r.random() < 0.1:
      tail.append({'op': 'state', 'i': r.randrange(3), 'v': 4})
  return {'kind': 'burst', 'config': [mn, mx, mq], 'ops': ops + tail}


ALPHA = [{'op': 'req'}, {'op': 'opendone', 'i': 0}, {'op': 'resp', 'i': 0}, {'op': 'expire', 'i': 0}, {'op': 'pq', 'i': 0},
         {'op': 'state', 'i': 0, 'v': 4}, {'op': 'close'}, {'op': 'open'}, {'op': 'resp', 'i': 1}]


def _exhaustive(depth, cfg):
  out = []
  n = len(ALPHA)
  for x in range(n ** depth):
    ops = []
    y = x
    for _ in range(depth):
      ops.append(ALPHA[y % n])
      y //= n
    out.append({'kind': 'exhaustive', 'config': cfg, 'ops': [{'op': 'req'}, {'op': 'opendone', 'i': 0}, {'op': 'req'}] + ops})
  return out


def gen_cases(tier, seed):
  quick = tier == 'quick'
  out = []
  out += _exhaustive(3 if quick else 5, [1, 1, 2])
  n = 1300 if quick else 24000
  for i in range(n):
    r = C.case_rng(seed, PID, i)
    k = r.random()
    if k < 0.12:
      out.append(_burst(r))
      continue
    fam = 'healthy' if k < 0.45 else ('faults' if k < 0.75 else 'closing')
    ln = r.choice([3, 6, 10, 16, 24, 32, 45])
    if i % 97 == 5:
      ln = r.choice([150, 250])          # one long-lived pool re-used across many operations
    out.append({'kind': fam, 'config': _cfg(r), 'ops': _rand_ops(r, fam, ln)})
  if any(PENDING.values()):
    out += [dict(c) for c in PENDING_CASES]
  return out


def search_cases(tier, seed, diverging):
  out = []
  for i in range(3000):
    r = C.case_rng(seed + 104729, PID, i)
    fam = r.choice(['healthy', 'faults', 'closing'])
    out.append({'kind': fam, 'config': [r.choice([0, 1]), r.choice([1, 2]), r.choice([0, 1, 2, BIG])],
                'ops': _rand_ops(r, fam, r.choice([8, 14, 20]))})
  for i in range(600):
    out.append(_burst(C.case_rng(seed + 15485863, PID, i)))
  return out


# ---------------------------------------------------------------------------------------------
# translation to Coq terms
# ---------------------------------------------------------------------------------------------
def _z(n):
  n = int(n)
  return str(n) if n >= 0 else '(%d)' % n


def _label(l):
  k = l[0]
  if k in ('Req', 'ClosePool', 'OpenPool'):
    return k
  if k == 'PQ':
    kk = l[1]
    if kk < 0 or kk > 4000:
      kk = 4000           # not enabled either way
    return 'PQ %d' % kk
  return '%s %s' % (k, ' '.join(_z(x) for x in l[1:]))


def _ev(e):
  t = e[0]
  if t == 'create':
    return 'OCreate %s' % _z(e[1])
  if t == 'close':
    return 'OClose %s' % _z(e[1])
  if t == 'fwd':
    return 'OForward %s %s' % (_z(e[1]), _z(e[2]))
  if t == 'err':
    return 'OError %s %s' % (_z(e[1]), _z(e[2]) if isinstance(e[2], int) else '99')
  if t == 'done':
    return 'ODone %s' % _z(e[1])
  if t == 'spawn':
    return 'OSpawn %s' % _z(e[1])
  if t == 'openres':
    return 'OOpenResult %s' % C.blit(e[1])
  return 'OError (-1) (-1)'       # a crash has no counterpart in the model


def to_coq(case, obs):
  if obs.get('nomodel'):
    return None
  mn, mx, mq = _config(case)
  labs = C.lst([_label(l) for l in obs['labels']])
  seen = C.lst(['Sn %s %s %s %s' % (C.lst([_ev(e) for e in s['ev']]), _z(s['ps']), _z(s['gs']), _z(s['gq']))
                for s in obs['seen']])
  return 'Case %s %s %s %s %s' % (_z(mn), _z(mx), _z(mq), labs, seen)


def nontrivial(case, obs):
  if 'seen' not in obs:
    return False
  for s in obs['seen']:
    for e in s['ev']:
      if e[0] == 'spawn' or e[0] == 'err':
        return True
  return False


def describe(case, obs):
  o = {k: obs.get(k) for k in ('labels', 'nops', 'drained', 'diag')}
  if 'seen' in obs:
    o['events'] = [s['ev'] for s in obs['seen']][:60]
  return {'case': case, 'obs': o}


def _branch(lab, sn, prev):
  """Names the model branch taken by one operation from what was observed."""
  evk = ','.join(e[0] if e[0] != 'err' else 'err%s' % e[2] for e in sn['ev'])
  d = sn['gs'] - prev['gs']
  tag = '%s[%s]' % (lab[0], evk)
  if d:
    tag += ' size%+d' % d
  if sn['ps'] != prev['ps']:
    tag += ' pstate%d->%d' % (prev['ps'], sn['ps'])
  elif sn['ps'] == 4:
    tag += ' closed'
  return tag


def stats(cases, obs):
  br = {}
  closed = 0
  drained = 0
  nlabels = 0
  for c, o in zip(cases, obs):
    if not isinstance(o, dict) or 'seen' not in o:
      continue
    prev = {'gs': 0, 'ps': 1}
    for l, s in zip(o['labels'], o['seen']):
      t = _branch(l, s, prev)
      br[t] = br.get(t, 0) + 1
      prev = s
      nlabels += 1
    if o['seen'] and o['seen'][-1]['ps'] == 4:
      closed += 1
    if o.get('drained'):
      drained += 1
  dims = {'inline_answers': 0, 'reactions_inline': 0, 'reactions_fresh_greenlet': 0, 'raising_callbacks': 0,
          'default_or_extreme_config': 0, 'long_histories': 0, 'twin_pools_identical': 0, 'monitor_only_reentrant': 0,
          'immediate_opens': 0, 'out_of_scope_reactions_suppressed': 0}
  for c, o in zip(cases, obs):
    if not isinstance(o, dict) or 'seen' not in o:
      continue
    ops = c.get('ops', [])
    dims['inline_answers'] += sum(1 for x in ops if x.get('inline'))
    dims['immediate_opens'] += sum(1 for x in ops if x.get('imm'))
    th = [x.get('then') for x in ops if x.get('then')]
    dims['reactions_fresh_greenlet'] += sum(1 for t in th if t.startswith('spawn_'))
    dims['raising_callbacks'] += sum(1 for t in th if t.startswith('raise'))
    dims['reactions_inline'] += sum(1 for t in th if not t.startswith('spawn_') and not t.startswith('raise'))
    if any(v is None or v < 0 or v == BIG for v in c['config'][:2]) or c['config'][2] is None or c['config'][2] < 0:
      dims['default_or_extreme_config'] += 1
    if len(ops) >= 100:
      dims['long_histories'] += 1
    if o.get('twin') == 'same':
      dims['twin_pools_identical'] += 1
    if o.get('nomodel'):
      dims['monitor_only_reentrant'] += 1
    dims['out_of_scope_reactions_suppressed'] += o.get('suppressed_reactions', 0)
  top = dict(sorted(br.items(), key=lambda kv: -kv[1])[:80])
  return {'audit_dimensions': dims, 'labels_executed': nlabels, 'distinct_operation_signatures': len(br), 'operation_signature_counts': top,
          'cases_ending_closed': closed, 'cases_drained_to_quiescence': drained}
