"""C07 - Watermark pool bounds concurrency, queues FIFO and never leaks capacity.

Implementation under test (imported from $SCALES_REPO as it is now):
  scales.pool.watermark.WatermarkPoolSink (+ QueuingMessageSink), scales.pool.base.PoolSink,
  scales.sink.ClientMessageSinkStack / FailingMessageSink, scales.observable.Observable
driven over mock connections made by a mock provider.  Calls are carried by real ClientMessageSinkStack objects
with a terminator frame at the bottom that records what reaches the caller.

Model: coq/Model/Watermark.v (step function, lock-step per operation).  Monitor: reference pool specification
(connections in existence <= max, exclusive lending, FIFO among live waiters, bounded queue, hand-off on release,
no leak / retention <= min at quiescence, dead-on-release fails every live waiter exactly once).

Scheduling is deterministic and recorded: gevent.spawn inside scales.pool.watermark is captured (the greenlet is
started when the case says `pq`), requests run in their own greenlets (they may block in _Get on Open().wait()),
and after every operation the hub is run until nothing is runnable.
"""
import sys

from .. import common as C

PID = 'C07'
PROPS_FILE = 'Props/C07.v'
COQ_HEADER = 'From Scales Require Import Model.Watermark.\nLocal Open Scope Z_scope.'
COQ_CASE_TYPE = 'Watermark.case'
COQ_CHECK = 'Watermark.check_case'
COQ_EXPLAIN = 'Watermark.explain_case'
SHARD = 400
WORKERS = 8
RULE = ('configurations min 0..3, max 0..4, max_queue_len 0..3 or 2^31-1 (min > max included); operation sequences of '
        'length 3..45 over {request, complete an Open(), release a lent call, expire a queued call, run a spawned '
        '_ProcessQueue (any pending one), change a connection state (1..4), pool Close, pool Open; Open() results completing '
        'later (ok or failed) or before Open() returns} from seeded '
        'generators in four families (healthy, faults, closing, bursts above max+maxq with every-subset expiry), an '
        'exhaustive enumeration of all sequences of a 9-letter alphabet for (1,1,2) (depth 3 quick / 5 thorough), '
        'plus not-enabled labels; every case is followed by a recorded drain epilogue (run hand-offs, complete opens, '
        'release all lent calls until quiescent); non-trivial = at least one request was queued, failed or handed '
        'off; distinct by canonical JSON of (case, observation)')
TRUSTED = ['mock provider/connection/terminator and the captured gevent.spawn in harness/props/c07.py',
           'reference pool specification (monitor) in harness/props/c07.py']
ASSUMPTIONS = ['provider.CreateSink and connection.Open() do not raise synchronously (Open() returns an AsyncResult); '
               'a connection reports state Closed after the pool called Close() on it',
               'gevent runs spawned greenlets in spawn order; the model allows any pending _ProcessQueue to run (superset)',
               'a time-out of a call that already holds a connection is the same stack unwinding as a reply (label Resp); '
               'a time-out while blocked in Open().wait() does not involve the pool',
               'liveness clauses (hand-off, nobody waits below capacity, every call completes, retention <= min) are checked on '
               'pools that were never closed; safety clauses (<= max connections, exclusive lending, queue bound, answered at '
               'most once) are checked always. Observation, not a finding (lead decision): _Get never looks at the pool state, '
               'so a request that reaches an already closed and saturated pool is queued and then neither served nor failed '
               '(min=0,max=1: Req0, OpenDone s0, pool.Close(), Req1 queued, Resp0 only counts the size down; call 1 waits for '
               'its own time-out; watermark.py:137-138); a closed pool only counts returned connections down and does not '
               'close them (DESIGN C07_size note)']

MANIFEST = {
    'text': ('Theorems C07_size, C07_exclusive, C07_queue, C07_fifo, C07_no_leak, C07_handoff, C07_retention, '
             'C07_dead_on_release, C07_closed_pool_open_inert (and C07_once) hold for every configuration and every label sequence of the Gallina '
             'transcription of the watermark pool; the transcription is compared in lock-step with the real '
             'WatermarkPoolSink on ~2k (quick) / ~83k (thorough, incl. all 9^5 sequences over a 9-letter alphabet for (1,1,2)) '
             'operation sequences per run, each followed by a drain to quiescence.'),
    'note': ('Trusted: Coq kernel; the correspondence harness (harness/props/c07.py: mock connections, captured spawn) and '
             'its sampling; gevent FIFO scheduling. Liveness clauses are stated for pools that were never closed.'),
    'technique': 'Coq proof (inductive invariants over all label sequences) + lock-step differential execution model vs code + reference-spec monitor',
    'design_ref': 'DESIGN.md section 5, C07',
}

BIG = 2147483647
_S = {}
_CUR = [None]


# ---------------------------------------------------------------------------------------------
# world
# ---------------------------------------------------------------------------------------------
class _Dummy(object):
  def kill(self, *a, **k):
    pass

  def join(self, *a, **k):
    pass


class _GeventProxy(object):
  """Stands for the name `gevent` inside scales.pool.watermark: spawn() is captured, the rest is gevent."""

  def __init__(self, real):
    self._real = real

  def spawn(self, fn, *a, **kw):
    h = _CUR[0]
    if h is None:
      return self._real.spawn(fn, *a, **kw)
    sid = getattr(a[0], 'sid', -1) if a else -1
    h.events.append(['spawn', sid])
    h.pending.append((fn, a, kw, sid))
    return _Dummy()

  def __getattr__(self, n):
    return getattr(self._real, n)


def setup():
  if _S:
    return
  if C.REPO not in sys.path:
    sys.path.insert(0, C.REPO)
  import gevent
  import scales
  assert scales.__file__.startswith(C.REPO), scales.__file__
  import scales.pool.watermark as wm
  from scales.pool.watermark import WatermarkPoolSink
  from scales.sink import ClientMessageSink, ClientMessageSinkStack, SinkProviderBase
  from scales.asynchronous import AsyncResult
  from scales.constants import ChannelState, SinkProperties
  from scales.message import MethodCallMessage, MethodReturnMessage, TimeoutError
  from scales.varz import VarzReceiver, Source
  import collections
  wm.gevent = _GeventProxy(gevent)
  hub = gevent.get_hub()

  def handle_error(context, etype, value, tb):
    h = _CUR[0]
    if h is not None and not h.finished:
      h.events.append(['crash', getattr(etype, '__name__', str(etype))])
  hub.handle_error = handle_error

  class MockSink(ClientMessageSink):
    def __init__(self, h, sid, state):
      super(MockSink, self).__init__()
      self.h = h
      self.sid = sid
      self._st = state
      self.open_ar = None
      self.endpoint = None

    @property
    def state(self):
      return self._st

    def Open(self):
      self.open_ar = AsyncResult()
      h = self.h
      if h.imm:
        # Open() completes before it returns (eg an already open shared connection): wait() does not yield.
        # In the model this is `Req; OpenDone s` back to back; what was seen so far belongs to the first label.
        h.imm = False
        gs, gq = h.gauges()
        h.split = (self.sid, {'ev': list(h.events), 'ps': h.pool.state, 'gs': gs, 'gq': gq}, len(h.events))
        self.open_ar.set(None)
      else:
        h.open_pending.append(self.sid)
      return self.open_ar

    def Close(self):
      self.h.events.append(['close', self.sid])
      self._st = ChannelState.Closed

    def AsyncProcessRequest(self, sink_stack, msg, stream, headers):
      self.h.events.append(['fwd', msg.cid, self.sid])

    def AsyncProcessResponse(self, sink_stack, context, stream, msg):
      raise NotImplementedError()

  class Provider(SinkProviderBase):
    def __init__(self, h):
      super(Provider, self).__init__()
      self.h = h

    def CreateSink(self, properties):
      h = self.h
      sid = len(h.sinks)
      s = MockSink(h, sid, h.prestate.pop(sid, ChannelState.Idle))
      h.sinks.append(s)
      h.events.append(['create', sid])
      return s

    @property
    def sink_class(self):
      return MockSink

  class Terminator(ClientMessageSink):
    """Bottom frame of every call's stack: what the caller is told."""

    def __init__(self, h):
      super(Terminator, self).__init__()
      self.h = h

    def AsyncProcessRequest(self, sink_stack, msg, stream, headers):
      raise NotImplementedError()

    def AsyncProcessResponse(self, sink_stack, context, stream, msg):
      err = getattr(msg, 'error', None)
      if err is None:
        self.h.events.append(['done', context])
      else:
        self.h.events.append(['err', context, _ERR.get(type(err).__name__, type(err).__name__)])

  class CallMsg(MethodCallMessage):
    __slots__ = ('cid',)

  _S.update(gevent=gevent, wm=wm, Pool=WatermarkPoolSink, Stack=ClientMessageSinkStack, MockSink=MockSink,
            Provider=Provider, Terminator=Terminator, CallMsg=CallMsg, Ret=MethodReturnMessage,
            Timeout=TimeoutError, CS=ChannelState, SP=SinkProperties, VR=VarzReceiver, Source=Source,
            EP=collections.namedtuple('EP', 'host port'))


_ERR = {'MaxWaitersError': 1, 'ServiceClosedError': 2, 'TimeoutError': 3}
_G_SIZE = 'scales.pool.WatermarkPool.size'
_G_QUEUE = 'scales.pool.WatermarkPool.queue_size'


class _H(object):
  """One pool instance and its world."""

  def __init__(self, cfg):
    S = _S
    self.events = []
    self.sinks = []
    self.prestate = {}
    self.pending = []          # captured spawns
    self.open_pending = []     # sids whose Open() result is not completed yet
    self.finished = False
    self.imm = False
    self.split = None
    self.ncall = 0
    self.stacks = {}
    self.status = {}           # cid -> opening | queued | lent | done
    self.greenlets = []
    self.source = S['Source'](service='c07', endpoint='h:1')
    for m in (_G_SIZE, _G_QUEUE):
      S['VR'].VARZ_DATA[m].pop(self.source, None)
    self.prov = S['Provider'](self)
    self.term = S['Terminator'](self)
    sp = S['Pool'].Builder(min_watermark=cfg[0], max_watermark=cfg[1], max_queue_len=cfg[2]).sink_properties
    self.pool = S['Pool'](self.prov, sp, {S['SP'].Label: 'c07', S['SP'].Endpoint: S['EP']('h', 1)})

  # -- plumbing
  def guard(self, fn, *a, **kw):
    try:
      fn(*a, **kw)
    except BaseException as e:
      if not self.finished:
        self.events.append(['crash', type(e).__name__])

  def settle(self):
    sl = _S['gevent'].sleep
    for _ in range(4):
      sl(0)

  def gauges(self):
    d = _S['VR'].VARZ_DATA
    return d[_G_SIZE].get(self.source, 0), d[_G_QUEUE].get(self.source, 0)

  def absorb(self):
    """Updates the call bookkeeping from the events of the operation just executed."""
    for e in self.events:
      if e[0] == 'fwd':
        self.status[e[1]] = 'lent'
      elif e[0] in ('err', 'done'):
        self.status[e[1]] = 'done'

  # -- operations; each returns the concrete label
  def op(self, o):
    k = o['op']
    S = _S
    if k == 'req':
      cid = self.ncall
      self.ncall += 1
      st = S['Stack']()
      st.Push(self.term, cid)
      msg = S['CallMsg'](None, 'm', (), {})
      msg.cid = cid
      self.stacks[cid] = st
      g = S['gevent'].spawn(self.guard, self.pool.AsyncProcessRequest, st, msg, None, {})
      self.greenlets.append(g)
      self.settle()
      self.status[cid] = 'queued' if g.dead else 'opening'
      if any(e[0] == 'crash' for e in self.events):
        self.status[cid] = 'done'
      return ['Req']
    if k == 'opendone':
      if 'i' in o:
        s = self.open_pending[o['i'] % len(self.open_pending)] if self.open_pending else -1
      else:
        s = o['s']
      if s in self.open_pending:
        self.open_pending.remove(s)
        ar = self.sinks[s].open_ar
        if o.get('ok', True):
          ar.set(None)
        else:
          ar.set_exception(Exception('open failed'))
        self.settle()
      return ['OpenDone', s]
    if k == 'resp':
      lent = sorted(c for c, v in self.status.items() if v == 'lent')
      if 'i' in o:
        c = lent[o['i'] % len(lent)] if lent else -1
      else:
        c = o['c']
      if c in lent:
        self.status[c] = 'done'
        self.guard(self.stacks[c].AsyncProcessResponseMessage, S['Ret'](return_value=1))
        self.settle()
      return ['Resp', c]
    if k == 'expire':
      q = sorted(c for c, v in self.status.items() if v == 'queued')
      if 'i' in o:
        c = q[o['i'] % len(q)] if q else -1
      else:
        c = o['c']
      if c in q:
        self.status[c] = 'done'
        # ClientTimeoutSink._TimeoutHelper: sink_stack.AsyncProcessResponseMessage(MethodReturnMessage(error=TimeoutError()))
        self.guard(self.stacks[c].AsyncProcessResponseMessage, S['Ret'](error=S['Timeout']()))
        self.settle()
      return ['Expire', c]
    if k == 'pq':
      if 'i' in o:
        idx = o['i'] % len(self.pending) if self.pending else 0
      else:
        idx = o['k']
      if 0 <= idx < len(self.pending):
        fn, a, kw, _sid = self.pending.pop(idx)
        g = S['gevent'].spawn(self.guard, fn, *a, **kw)
        self.greenlets.append(g)
        self.settle()
      return ['PQ', idx]
    if k == 'state':
      if 'i' in o:
        s = o['i'] % len(self.sinks) if self.sinks else -1
      else:
        s = o['s']
      if 0 <= s < len(self.sinks):
        self.sinks[s]._st = o['v']
      else:
        self.prestate[s] = o['v']
      return ['SinkState', s, o['v']]
    if k == 'close':
      self.guard(self.pool.Close)
      self.settle()
      return ['ClosePool']
    if k == 'open':
      ar = None
      try:
        ar = self.pool.Open()
      except BaseException as e:
        self.events.append(['crash', type(e).__name__])
      if ar is not None:
        ar.rawlink(lambda a: self.events.append(['openres', bool(a.successful())]))
      self.settle()
      return ['OpenPool']
    raise ValueError(k)

  def seen(self):
    gs, gq = self.gauges()
    try:
      ps = self.pool.state
    except Exception as e:
      ps = -1
    return {'ev': self.events, 'ps': ps, 'gs': gs, 'gq': gq}


def run_impl(case):
  setup()
  cfg = case['config']
  h = _H(cfg)
  _CUR[0] = h
  labels = []
  seen = []
  try:
    def do(o):
      h.events = []
      h.split = None
      h.imm = bool(o.get('imm')) and o['op'] in ('req', 'open')
      lab = h.op(o)
      h.settle()
      h.imm = False
      h.absorb()
      labels.append(lab)
      if h.split is not None:
        sid, first, n = h.split
        seen.append(first)
        labels.append(['OpenDone', sid])
        rest = h.seen()
        rest['ev'] = rest['ev'][n:]
        seen.append(rest)
      else:
        seen.append(h.seen())
    for o in case['ops']:
      do(o)
    nops = len(labels)
    drained = False
    if case.get('drain', True):
      # epilogue: traffic stops; run every hand-off, complete every Open(), release every lent call
      for _round in range(400):
        if h.pending:
          do({'op': 'pq', 'k': 0})
        elif h.open_pending:
          do({'op': 'opendone', 's': h.open_pending[0]})
        else:
          lent = sorted(c for c, v in h.status.items() if v == 'lent')
          if not lent:
            drained = True
            break
          do({'op': 'resp', 'c': lent[0]})
    diag = {}
    try:
      p = h.pool
      diag = {'size': p._current_size, 'cache': [s.sid for s in p._cache], 'waiters': len(p._waiters)}
    except Exception:
      pass
    return {'labels': labels, 'seen': seen, 'nops': nops, 'drained': drained, 'diag': diag}
  finally:
    h.finished = True
    for g in h.greenlets:
      if not g.dead:
        g.kill(block=False)
    h.settle()
    _CUR[0] = None


# ---------------------------------------------------------------------------------------------
# monitor: reference specification of the pool, evaluated on labels + events only
# ---------------------------------------------------------------------------------------------
def monitor(case, obs):
  mn, mx, mq = case['config']
  V = []

  def flag(sig, msg):
    if not any(s == sig for s, _ in V):
      V.append((sig, msg))

  created = []            # sids in creation order
  closed_ever = set()     # Close() called by the pool
  dropped = set()         # returned to a closed pool / found dead on release
  busy = {}               # sid -> cid lent and not released
  opening = {}            # sid -> cid | 'open'
  handoff = []            # sids with a spawned, not yet run _ProcessQueue
  env = {}                # sid -> reported state
  pre = {}
  Q = []                  # [cid, alive] in arrival order (expired entries stay until a hand-off passes them)
  calls = {}              # cid -> {'fwd': n, 'term': n, 'where': ...}
  ever_closed = False
  ps_before = 1
  ncall = 0

  def held():
    # connections under the pool's control; one the pool already closed counts again while the pool
    # evidently uses it (a closed pool does not forget its flushed cache: a connection that reports a live
    # state again is lent again)
    return [s for s in created if s not in dropped and (s not in closed_ever or s in busy or s in handoff)]

  def alive_q():
    return [c for c, a in Q if a]

  def release_fate(s, pool_closed_before):
    if pool_closed_before or env.get(s, 1) == 4:
      dropped.add(s)

  for i, (lab, sn) in enumerate(zip(obs['labels'], obs['seen'])):
    ev = sn['ev']
    kind = lab[0]
    at = 'op %d %s' % (i, lab)
    closed_before = ps_before == 4
    closing = (not closed_before) and sn['ps'] == 4
    alive_before = alive_q()
    cur = None
    if kind == 'Req':
      cur = ncall
      ncall += 1
      calls[cur] = {'fwd': 0, 'term': 0}
    failed_now = []
    fwd_now = []
    spawned_now = []
    # what the label itself does to the environment
    rel = None              # connection released by this label
    if kind == 'SinkState':
      if lab[1] in created:
        env[lab[1]] = lab[2]
      else:
        pre[lab[1]] = lab[2]
    elif kind == 'Resp':
      for s, c in list(busy.items()):
        if c == lab[1]:
          rel = s
          del busy[s]
    elif kind == 'OpenDone':
      who = opening.pop(lab[1], None)
      if who == 'open':
        rel = lab[1]
    elif kind == 'PQ':
      if 0 <= lab[1] < len(handoff):
        rel = handoff.pop(lab[1])
    rel_dead = rel is not None and env.get(rel, 1) == 4

    for e in ev:
      t = e[0]
      if t == 'crash':
        flag('greenlet-crash', '%s: exception %s escaped (caller never told / connection lost)' % (at, e[1]))
      elif t == 'create':
        s = e[1]
        created.append(s)
        env[s] = pre.pop(s, 1)
        opening[s] = cur if kind == 'Req' else 'open'
        if len(held()) > max(mx, 0):
          flag('too-many-connections', '%s: %d connections in existence, max_watermark %d' % (at, len(held()), mx))
      elif t == 'close':
        s = e[1]
        closed_ever.add(s)
        env[s] = 4
      elif t == 'spawn':
        handoff.append(e[1])
        spawned_now.append(e[1])
      elif t == 'fwd':
        c, s = e[1], e[2]
        fwd_now.append((c, s))
        if s in busy:
          flag('double-lend', '%s: connection %d lent to call %d while call %d is still on it' % (at, s, c, busy[s]))
        busy[s] = c
        ci = calls.setdefault(c, {'fwd': 0, 'term': 0})
        ci['fwd'] += 1
        if ci['fwd'] > 1:
          flag('call-forwarded-twice', '%s: call %d forwarded again' % (at, c))
        if ci['term'] > 0:
          flag('forward-after-completion', '%s: call %d was forwarded after its caller had been answered' % (at, c))
        inq = [j for j, (qc, _a) in enumerate(Q) if qc == c]
        if inq:
          j = inq[0]
          earlier = [qc for qc, a in Q[:j] if a]
          if earlier:
            flag('fifo-order', '%s: queued call %d started before earlier live waiter(s) %s' % (at, c, earlier))
          del Q[:j + 1]
        elif kind == 'Req' and c == cur and alive_q() and not ever_closed and not closing and not closed_before:
          flag('barging', '%s: new call %d got a connection while %s were waiting' % (at, c, alive_q()))
      elif t == 'err':
        c, k = e[1], e[2]
        ci = calls.setdefault(c, {'fwd': 0, 'term': 0})
        ci['term'] += 1
        if ci['term'] > 1:
          flag('completed-twice', '%s: caller of %d answered %d times' % (at, c, ci['term']))
        if k == 1:
          if not (kind == 'Req' and c == cur):
            flag('unexpected-error', '%s: MaxWaitersError for call %d' % (at, c))
          elif len(held()) < mx or len(Q) < mq:
            flag('max-waiters-without-full-queue',
                 '%s: call %d failed with MaxWaitersError with %d connections (max %d) and %d queued (max_queue_len %d)'
                 % (at, c, len(held()), mx, len(Q), mq))
        elif k == 2:
          failed_now.append(c)
          if c not in alive_q():
            flag('service-closed-unexpected', '%s: ServiceClosedError for call %d which is not waiting' % (at, c))
          if sn['ps'] != 4:
            flag('service-closed-unexpected', '%s: ServiceClosedError although the pool is not closed' % at)
          for q in Q:
            if q[0] == c:
              q[1] = False
        elif k == 3:
          for q in Q:
            if q[0] == c:
              q[1] = False
        else:
          flag('unexpected-error', '%s: call %d failed with %s' % (at, c, k))
      elif t == 'done':
        c = e[1]
        ci = calls.setdefault(c, {'fwd': 0, 'term': 0})
        ci['term'] += 1
        if ci['term'] > 1:
          flag('completed-twice', '%s: caller of %d answered %d times' % (at, c, ci['term']))
      elif t == 'openres':
        if e[1] and (sn['ps'] == 4 or closed_before or (rel_dead and not any(s == rel for _c, s in fwd_now))):
          flag('open-succeeded-on-closed-pool', '%s: pool.Open() reported success although the pool is closed / '
               'its connection was found dead on release' % at)

    # -- label-level expectations
    if kind == 'Req':
      got = [x for x in ev if (x[0] == 'fwd' and x[1] == cur) or (x[0] == 'err' and x[1] == cur)]
      opened = [x for x in ev if x[0] == 'create']
      crashed = any(x[0] == 'crash' for x in ev)
      if not got and not opened and not crashed:
        # the call now waits
        if len(held()) < mx:
          flag('queued-below-capacity', '%s: call %d was queued although only %d of %d connections exist'
               % (at, cur, len(held()), mx))
        if not ever_closed and not closed_before:
          idle = [s for s in held() if s not in busy and s not in opening and s not in handoff and env.get(s, 1) <= 2]
          if idle:
            flag('queued-while-connection-idle', '%s: call %d was queued although connection(s) %s are idle' % (at, cur, idle))
        Q.append([cur, True])
        if len(alive_q()) > max(mq, 0):
          flag('queue-overflow', '%s: %d calls waiting, max_queue_len %d' % (at, len(alive_q()), mq))
    if closing or kind == 'ClosePool':
      # every live waiter is failed exactly once, in this very operation
      missing = [c for c in alive_before if c not in failed_now]
      if kind == 'Req':
        missing = [c for c in missing if c != cur]
      if missing:
        flag('waiter-not-failed-on-close', '%s: pool closed but waiting call(s) %s got no ServiceClosedError' % (at, missing))
      dup = [c for c in set(failed_now) if failed_now.count(c) > 1]
      if dup:
        flag('completed-twice', '%s: waiters %s failed more than once' % (at, dup))
    if rel is not None:
      if rel_dead and not closed_before and sn['ps'] != 4 and not any(s == rel for _c, s in fwd_now):
        flag('dead-release-did-not-close', '%s: connection %d was dead when released but the pool stayed %s' % (at, rel, sn['ps']))
      if kind in ('Resp', 'OpenDone') and not closed_before and not rel_dead and alive_before and not ever_closed:
        if rel not in spawned_now:
          flag('release-did-not-hand-off', '%s: connection %d released while %s wait, no hand-off started' % (at, rel, alive_before))
      if kind == 'PQ':
        mine = [c for c, s in fwd_now if s == rel]
        if not mine:
          if alive_before and not closed_before and not rel_dead and not ever_closed:
            flag('handoff-skipped', '%s: hand-off of connection %d ran but live waiter(s) %s were not started' % (at, rel, alive_before))
          while Q and not Q[0][1]:
            Q.pop(0)
      if not any(s == rel for _c, s in fwd_now) and rel not in spawned_now:
        release_fate(rel, closed_before)
    if sn['ps'] == 4:
      ever_closed = True
    ps_before = sn['ps']
    if len(held()) > max(mx, 0):
      flag('too-many-connections', '%s: %d connections in existence, max_watermark %d' % (at, len(held()), mx))

  # -- after traffic stopped
  if obs.get('drained'):
    if not ever_closed:
      stuck = sorted(c for c, ci in calls.items() if ci['term'] != 1)
      if stuck and mx >= 1:
        flag('call-never-completed', 'after all connections were released and every hand-off ran, call(s) %s still '
             'have no answer (%d connections exist, max %d)' % (stuck, len(held()), mx))
      if len(held()) > max(mn, 0):
        flag('retained-above-min', '%d connections retained at quiescence, min_watermark %d' % (len(held()), mn))
    left = [s for s in held() if s in busy or s in opening or s in handoff]
    if left:
      flag('not-quiescent', 'drain ended with connections %s still in use' % left)
  return V


# ---------------------------------------------------------------------------------------------
# generators
# ---------------------------------------------------------------------------------------------
def _cfg(r):
  mn = r.choice([0, 0, 1, 1, 2, 3])
  mx = r.choice([1, 1, 2, 2, 3, 4, 0])
  mq = r.choice([0, 1, 2, 3, BIG, BIG])
  return [mn, mx, mq]


def _rand_ops(r, fam, n):
  ops = []
  w = {'req': 30, 'opendone': 16, 'resp': 18, 'expire': 6, 'pq': 13, 'state': 0, 'close': 0, 'open': 2, 'odd': 2}
  if fam == 'faults':
    w.update(state=9, open=4)
  elif fam == 'closing':
    w.update(state=5, close=3, open=4)
  keys = list(w)
  ws = [w[k] for k in keys]
  for _ in range(n):
    k = r.choices(keys, ws)[0]
    if k == 'req':
      ops.append({'op': 'req', 'imm': True} if r.random() < 0.12 else {'op': 'req'})
    elif k == 'opendone':
      ops.append({'op': 'opendone', 'i': r.randrange(4), 'ok': r.random() < 0.8})
    elif k in ('resp', 'expire', 'pq'):
      ops.append({'op': k, 'i': 0 if r.random() < 0.6 else r.randrange(5)})
    elif k == 'state':
      ops.append({'op': 'state', 'i': r.randrange(6), 'v': r.choice([4, 4, 4, 3, 2, 1])})
    elif k == 'close':
      ops.append({'op': 'close'})
    elif k == 'open':
      ops.append({'op': 'open', 'imm': True} if r.random() < 0.3 else {'op': 'open'})
    else:
      ops.append(r.choice([{'op': 'resp', 'c': r.randrange(-1, 12)}, {'op': 'expire', 'c': r.randrange(-1, 12)},
                           {'op': 'opendone', 's': r.randrange(-1, 8)}, {'op': 'pq', 'k': r.randrange(0, 4)},
                           {'op': 'state', 's': r.randrange(0, 8), 'v': r.choice([1, 2, 3, 4])}]))
  return ops


def _burst(r):
  """max+maxq+extra requests, every subset of the waiters expires, then everything is released in some order."""
  mn = r.choice([0, 1, 2])
  mx = r.choice([1, 2, 3])
  mq = r.choice([1, 2, 3, 4])
  ops = []
  for _ in range(mx):
    ops += [{'op': 'req'}, {'op': 'opendone', 'i': 0}]
  nq = mq + r.choice([0, 1, 2])
  ops += [{'op': 'req'}] * nq
  mask = r.randrange(1 << mq)
  for b in range(mq):
    if mask >> b & 1:
      ops.append({'op': 'expire', 'c': mx + b})
  tail = []
  for _ in range(mx + mq + 2):
    tail.append({'op': 'resp', 'i': r.randrange(3)})
    if r.random() < 0.7:
      tail.append({'op': 'pq', 'i': r.randrange(2)})
    if r.random() < 0.15:
      tail.append({'op': 'req'})
    if r.random() < 0.1:
      tail.append({'op': 'state', 'i': r.randrange(3), 'v': 4})
  return {'kind': 'burst', 'config': [mn, mx, mq], 'ops': ops + tail}


ALPHA = [{'op': 'req'}, {'op': 'opendone', 'i': 0}, {'op': 'resp', 'i': 0}, {'op': 'expire', 'i': 0}, {'op': 'pq', 'i': 0},
         {'op': 'state', 'i': 0, 'v': 4}, {'op': 'close'}, {'op': 'open'}, {'op': 'resp', 'i': 1}]


def _exhaustive(depth, cfg):
  out = []
  n = len(ALPHA)
  for x in range(n ** depth):
    ops = []
    y = x
    for _ in range(depth):
      ops.append(ALPHA[y % n])
      y //= n
    out.append({'kind': 'exhaustive', 'config': cfg, 'ops': [{'op': 'req'}, {'op': 'opendone', 'i': 0}, {'op': 'req'}] + ops})
  return out


def gen_cases(tier, seed):
  quick = tier == 'quick'
  out = []
  out += _exhaustive(3 if quick else 5, [1, 1, 2])
  n = 1300 if quick else 24000
  for i in range(n):
    r = C.case_rng(seed, PID, i)
    k = r.random()
    if k < 0.12:
      out.append(_burst(r))
      continue
    fam = 'healthy' if k < 0.45 else ('faults' if k < 0.75 else 'closing')
    ln = r.choice([3, 6, 10, 16, 24, 32, 45])
    out.append({'kind': fam, 'config': _cfg(r), 'ops': _rand_ops(r, fam, ln)})
  return out


def search_cases(tier, seed, diverging):
  out = []
  for i in range(3000):
    r = C.case_rng(seed + 104729, PID, i)
    fam = r.choice(['healthy', 'faults', 'closing'])
    out.append({'kind': fam, 'config': [r.choice([0, 1]), r.choice([1, 2]), r.choice([0, 1, 2, BIG])],
                'ops': _rand_ops(r, fam, r.choice([8, 14, 20]))})
  for i in range(600):
    out.append(_burst(C.case_rng(seed + 15485863, PID, i)))
  return out


# ---------------------------------------------------------------------------------------------
# translation to Coq terms
# ---------------------------------------------------------------------------------------------
def _z(n):
  n = int(n)
  return str(n) if n >= 0 else '(%d)' % n


def _label(l):
  k = l[0]
  if k in ('Req', 'ClosePool', 'OpenPool'):
    return k
  if k == 'PQ':
    kk = l[1]
    if kk < 0 or kk > 4000:
      kk = 4000           # not enabled either way
    return 'PQ %d' % kk
  return '%s %s' % (k, ' '.join(_z(x) for x in l[1:]))


def _ev(e):
  t = e[0]
  if t == 'create':
    return 'OCreate %s' % _z(e[1])
  if t == 'close':
    return 'OClose %s' % _z(e[1])
  if t == 'fwd':
    return 'OForward %s %s' % (_z(e[1]), _z(e[2]))
  if t == 'err':
    return 'OError %s %s' % (_z(e[1]), _z(e[2]) if isinstance(e[2], int) else '99')
  if t == 'done':
    return 'ODone %s' % _z(e[1])
  if t == 'spawn':
    return 'OSpawn %s' % _z(e[1])
  if t == 'openres':
    return 'OOpenResult %s' % C.blit(e[1])
  return 'OError (-1) (-1)'       # a crash has no counterpart in the model


def to_coq(case, obs):
  mn, mx, mq = case['config']
  labs = C.lst([_label(l) for l in obs['labels']])
  seen = C.lst(['Sn %s %s %s %s' % (C.lst([_ev(e) for e in s['ev']]), _z(s['ps']), _z(s['gs']), _z(s['gq']))
                for s in obs['seen']])
  return 'Case %s %s %s %s %s' % (_z(mn), _z(mx), _z(mq), labs, seen)


def nontrivial(case, obs):
  if 'seen' not in obs:
    return False
  for s in obs['seen']:
    for e in s['ev']:
      if e[0] == 'spawn' or e[0] == 'err':
        return True
  return False


def describe(case, obs):
  o = {k: obs.get(k) for k in ('labels', 'nops', 'drained', 'diag')}
  if 'seen' in obs:
    o['events'] = [s['ev'] for s in obs['seen']][:60]
  return {'case': case, 'obs': o}


def _branch(lab, sn, prev):
  """Names the model branch taken by one operation from what was observed."""
  evk = ','.join(e[0] if e[0] != 'err' else 'err%s' % e[2] for e in sn['ev'])
  d = sn['gs'] - prev['gs']
  tag = '%s[%s]' % (lab[0], evk)
  if d:
    tag += ' size%+d' % d
  if sn['ps'] != prev['ps']:
    tag += ' pstate%d->%d' % (prev['ps'], sn['ps'])
  elif sn['ps'] == 4:
    tag += ' closed'
  return tag


def stats(cases, obs):
  br = {}
  closed = 0
  drained = 0
  nlabels = 0
  for c, o in zip(cases, obs):
    if not isinstance(o, dict) or 'seen' not in o:
      continue
    prev = {'gs': 0, 'ps': 1}
    for l, s in zip(o['labels'], o['seen']):
      t = _branch(l, s, prev)
      br[t] = br.get(t, 0) + 1
      prev = s
      nlabels += 1
    if o['seen'] and o['seen'][-1]['ps'] == 4:
      closed += 1
    if o.get('drained'):
      drained += 1
  top = dict(sorted(br.items(), key=lambda kv: -kv[1])[:80])
  return {'labels_executed': nlabels, 'distinct_operation_signatures': len(br), 'operation_signature_counts': top,
          'cases_ending_closed': closed, 'cases_drained_to_quiescence': drained}
