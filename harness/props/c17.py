"""C17 - Async combinators resolve correctly for every completion order.

Implementation under test (imported from $SCALES_REPO as it is now): scales.asynchronous.AsyncResult
  WhenAll, WhenAny, Unwrap/_UnwrapHelper, ContinueWith (on the hub and spawned), Map, FromValue, Run/RunInline (SafeLink),
driven on real gevent AsyncResults in lock-step with the model coq/Model/Async.v: a case pre-completes a
subset of the inputs, calls the combinator, then completes the other inputs in some order, letting the hub
run (gevent.idle()) at chosen points; after the call and after every step the combined result's
ready()/successful()/value/exception are read.
Monitor: the property statement recomputed from the case by a few lines of Python (no knowledge of the model).
"""
import itertools
import sys

from .. import common as C

PID = 'C17'
PROPS_FILE = 'Props/C17.v'
COQ_HEADER = 'From Scales Require Import Model.Async.'
COQ_CASE_TYPE = 'Async.case'
COQ_CHECK = 'Async.check_case'
COQ_EXPLAIN = 'Async.explain_case'
SHARD = 400
WORKERS = 1
RULE = ('WhenAll and WhenAny: every n <= 4 (quick) / n <= 5 (thorough) x every success/failure assignment x every subset '
        'already complete at call time (completed in reverse list order) x every permutation of the remaining completions, '
        'the hub running after each completion; plus seeded random cases with n <= 8 (quick) / n <= 12 (thorough), random '
        'points where the hub runs (several completions per hub run, completions never delivered), random pre-completion '
        'order, inputs built with FromValue, and ill-formed histories (an input completed twice) that only the model '
        'comparison uses. Input lists in which the same result object occupies several positions: every list of 2..4 '
        'positions over fewer results x every assignment x pre-completed subset x order, hub running after each '
        'completion or once at the end, plus random lists (also with results that are not listed); oracle: the value '
        'list equals the inputs\' values position by position. Unwrap: every chain depth <= 3 (quick) / <= 4 (thorough) x plain value or failure at the end x '
        'every pre-completed subset of levels x every completion order, plus random depth <= 10. ContinueWith: every '
        'continuation behaviour (returns/raises on success/failure) x on_hub x every history of <= 4 events. Map: '
        'fn returns a value / raises / returns a chain of depth <= 2 (3 thorough), every order of input and chain completions. '
        'Run/RunInline (SafeLink): fn returns or raises, 0..2 hub runs. Whatever a continuation, mapped function or linked '
        'function raises is raised once as each of: an Exception subclass, a BaseException-only subclass, a gevent.Timeout '
        'subclass, a GreenletExit subclass. Audit dimensions (each on the exhaustive n <= 3 histories and sprinkled over the '
        'random ones): None as a successful value (also through FromValue(None), the shared module-level singleton); a second '
        'WhenAll/WhenAny instance on the same inputs created before or after (both observed and model-compared); the used inputs '
        'handed to a second call after the history; completions made from inside a hub callback (a consumer link on input i '
        'completes input j, chains of two); a Map function that completes levels of the chain it returns inline; a continuation '
        'that starts another ContinueWith on its own antecedent from inside the callback. '
        'non-trivial = at least one completion is delivered to the combinator; distinct by canonical JSON of (case, observation)')
TRUSTED = ['gevent 26.x AsyncResult/rawlink/hub callback order as summarised at the top of coq/Model/Async.v (re-checked on every '
           'run by the lock-step comparison with real gevent objects)',
           'independent Python oracle of the property statement in harness/props/c17.py (monitor)']
ASSUMPTIONS = ['a gevent hub exists (otherwise gevent delivers links synchronously inside set()/rawlink())',
               'every input is a distinct result that is completed at most once, by set() or set_exception(), with a '
               'truthy exception object (the theorems\' well-formedness hypothesis; histories outside it are only compared with the model)',
               'observation points are after gevent.idle() returned, i.e. the hub callback queue is drained',
               'lists with the same result at several positions: WhenAll is proved (C17_all_aliased) and compared; WhenAny is '
               'compared with the model only (gevent calls a callable registered k times on one result in k notification '
               'rounds, so when every input fails the reported failure need not be the last one to complete; the monitor then '
               'accepts the failure of any listed input) - C17_any and C17_any_sticky are for distinct inputs',
               'values are ints (None as a value is not distinguished from "no value" by AsyncResult.value)',
               'raised exceptions: Exception, BaseException-only, gevent.Timeout and GreenletExit subclasses are exercised and must '
               'all be captured (the code uses a bare except); KeyboardInterrupt/SystemExit are not generated (if they escaped, '
               'gevent would rethrow them into the harness greenlet)']

MANIFEST = {
    'text': ('Theorems C17_schedule, C17_all, C17_all_sticky, C17_all_aliased, C17_any, C17_any_sticky, C17_unwrap, C17_continue, C17_map, '
             'C17_map_chain_live, C17_safelink hold for every number of '
             'inputs, every success/failure assignment, every completion order, every point at which the hub runs, every '
             'subset already complete at call time and every nesting depth of the Gallina transcription of WhenAll/WhenAny/'
             '_UnwrapHelper/ContinueWith/Map over a model of gevent AsyncResult links; the transcription is compared in '
             'lock-step with the real code on real gevent results for all histories with n <= 4 (quick) / 5 (thorough) and random larger ones.'),
    'note': ('Trusted: Coq kernel; the correspondence harness (harness/props/c17.py); the gevent link/notifier semantics as '
             'modelled (checked by the same lock-step runs). Hypothesis of every theorem: each input completes at most once. '
             'All theorems closed under the global context.'),
    'technique': 'Coq proof (schedule-indexed invariants over all event lists) + lock-step differential execution model vs code + independent monitor',
    'design_ref': 'DESIGN.md section 5, C17',
}

_S = {}


class Tagged(Exception):
  def __init__(self, tag):
    Exception.__init__(self, 'tagged %d' % tag)
    self.tag = tag


def setup():
  if _S:
    return
  if C.REPO not in sys.path:
    sys.path.insert(0, C.REPO)
  import gevent
  import scales
  assert scales.__file__.startswith(C.REPO), scales.__file__
  from scales.asynchronous import AsyncResult
  hub = gevent.get_hub()    # without a hub gevent runs links synchronously
  gevent.sleep(0)

  # what a continuation / mapped function / linked function may raise: an ordinary Exception, an exception derived
  # from BaseException only, a gevent.Timeout (what waiting with a deadline raises; BaseException-derived) and a
  # GreenletExit.  KeyboardInterrupt/SystemExit are not used: if they escaped, the hub would rethrow them into the
  # harness' own greenlet.
  class TaggedBase(BaseException):
    def __init__(self, tag):
      BaseException.__init__(self, 'tagged-base %d' % tag)
      self.tag = tag

  class TaggedTimeout(gevent.Timeout):
    def __init__(self, tag):
      gevent.Timeout.__init__(self)        # never started
      self.tag = tag

  class TaggedExit(gevent.GreenletExit):
    def __init__(self, tag):
      gevent.GreenletExit.__init__(self, 'tagged-exit %d' % tag)
      self.tag = tag

  # anything that escapes a hub callback or a greenlet is reported here by gevent: counted per case, not printed
  def quiet_print_exception(context, type_, value, tb):
    _S['hub_errors'].append(getattr(type_, '__name__', str(type_)))
  hub.print_exception = quiet_print_exception
  _S.update(gevent=gevent, AR=AsyncResult, hub_errors=[],
            XCLS={'exc': Tagged, 'base': TaggedBase, 'timeout': TaggedTimeout, 'exit': TaggedExit})


# ---------------------------------------------------------------------------------------------
# generators
# ---------------------------------------------------------------------------------------------
def val(i):
  return (i * 4) % 7 if i < 7 else i        # distinct small ints, input 0 has value 0


def tag(i):
  return 100 + i


def _comp(i, ok):
  return ['c', i, 'ok', val(i)] if ok else ['c', i, 'err', tag(i)]


def _exhaustive_multi(kind, n):
  out = []
  for assign in itertools.product([True, False], repeat=n):
    for k in range(n + 1):
      for pre in itertools.combinations(range(n), k):
        rest = [i for i in range(n) if i not in pre]
        for perm in itertools.permutations(rest):
          ops = []
          for i in perm:
            ops.append(_comp(i, assign[i]))
            ops.append(['run'])
          if not perm:
            ops.append(['run'])
          out.append({'kind': kind, 'n': n, 'pre': [_comp(i, assign[i])[1:] for i in reversed(pre)], 'ops': ops})
  return out


def _rgs(m):
  """Restricted growth strings of length m: every way of placing results at m positions, up to renaming."""
  def go(prefix, mx):
    if len(prefix) == m:
      yield list(prefix)
      return
    for x in range(mx + 2):
      for y in go(prefix + [x], max(mx, x)):
        yield y
  return go([], -1)


def _exhaustive_aliased(kind, m):
  """Input lists of m positions over fewer than m distinct results: every assignment x pre-completed subset x order,
  the hub running after each completion or only once at the end."""
  out = []
  for ars in _rgs(m):
    p = max(ars) + 1
    if p == m:
      continue                       # all distinct: covered by _exhaustive_multi
    for assign in itertools.product([True, False], repeat=p):
      for k in range(p + 1):
        for pre in itertools.combinations(range(p), k):
          rest = [i for i in range(p) if i not in pre]
          for perm in itertools.permutations(rest):
            for batched in ((False, True) if len(perm) > 1 else (False,)):
              ops = []
              for i in perm:
                ops.append(_comp(i, assign[i]))
                if not batched:
                  ops.append(['run'])
              if batched or not perm:
                ops.append(['run'])
              out.append({'kind': kind, 'n': p, 'ars': ars, 'pre': [_comp(i, assign[i])[1:] for i in reversed(pre)], 'ops': ops})
  return out


def _random_multi(r, kind, nmax):
  n = r.choice([0, 1, 2, 3, 4, 5, 6, nmax, r.randint(0, nmax)])
  pfail = r.choice([0.0, 0.15, 0.5, 0.85, 1.0])
  assign = [r.random() >= pfail for _ in range(n)]
  pre = [i for i in range(n) if r.random() < r.choice([0.0, 0.3, 0.7])]
  r.shuffle(pre)
  rest = [i for i in range(n) if i not in pre]
  r.shuffle(rest)
  if r.random() < 0.3:
    rest = rest[:r.randint(0, len(rest))]       # some inputs never complete
  prun = r.choice([0.0, 0.3, 0.6, 1.0])
  ops = []
  if r.random() < 0.3:
    ops.append(['run'])
  for i in rest:
    ops.append(_comp(i, assign[i]))
    if r.random() < prun:
      ops.append(['run'])
  if r.random() < 0.8:
    ops.append(['run'])
  case = {'kind': kind, 'n': n, 'pre': [_comp(i, assign[i])[1:] for i in pre], 'ops': ops}
  if r.random() < 0.25:
    case['mk'] = 'fromvalue'
  if n > 0 and r.random() < 0.3:               # the same result at several positions (and some results not listed)
    case['ars'] = [r.randrange(n) for _ in range(r.choice([1, 2, 3, n, n + 2, r.randint(1, n + 3)]))]
  if r.random() < 0.15:                        # None as a successful value
    case = _nonefy(case, only=[i for i in range(n) if r.random() < 0.5])
  if 'ars' not in case and r.random() < 0.12:
    case['twin'] = {'kind': r.choice(['all', 'any']), 'when': r.choice(['before', 'after'])}
  if r.random() < 0.15:
    case['ops'] = case['ops'] + ([] if case['ops'] and case['ops'][-1][0] == 'run' else [['run']])
    case['again'] = True
  if n > 0 and r.random() < 0.12:              # ill-formed: some input completed twice (model comparison only)
    i = r.randrange(n)
    extra = ['c', i, r.choice(['ok', 'err']), r.choice([val(i), tag(i), 55])]
    pos = r.randint(0, len(ops))
    case['ops'] = ops[:pos] + [extra] + ops[pos:] + [['run']]
    case.pop('mk', None)                       # never complete the shared FromValue(None) singleton a second time
    case.pop('twin', None)
    case.pop('again', None)
    if r.random() < 0.3:
      case['pre'] = case['pre'] + [[i, r.choice(['ok', 'err']), 66]]
  return case


def _perms_with_runs(items):
  for perm in itertools.permutations(items):
    ops = []
    for x in perm:
      ops.append(x)
      ops.append(['run'])
    if not perm:
      ops.append(['run'])
    yield ops


def _exhaustive_unwrap(kmax):
  out = []
  for k in range(kmax + 1):
    for term in (['ok', 9], ['err', 109]):
      levels = list(range(k + 1))
      for m in range(k + 2):
        for pre in itertools.combinations(levels, m):
          rest = [['c', j] for j in levels if j not in pre]
          for ops in _perms_with_runs(rest):
            out.append({'kind': 'unwrap', 'depth': k, 'term': term, 'pre': list(reversed(pre)), 'ops': ops})
  return out


def _random_unwrap(r, kmax):
  k = r.choice([0, 1, 2, 3, kmax, r.randint(0, kmax)])
  levels = list(range(k + 1))
  pre = [j for j in levels if r.random() < r.choice([0.0, 0.4, 0.8])]
  r.shuffle(pre)
  rest = [j for j in levels if j not in pre]
  r.shuffle(rest)
  if r.random() < 0.25:
    rest = rest[:r.randint(0, len(rest))]
  prun = r.choice([0.0, 0.4, 1.0])
  ops = []
  for j in rest:
    ops.append(['c', j])
    if r.random() < prun:
      ops.append(['run'])
  if r.random() < 0.8:
    ops.append(['run'])
  return {'kind': 'unwrap', 'depth': k, 'term': r.choice([['ok', r.randint(0, 9)], ['err', 100 + r.randint(0, 9)]]),
          'pre': pre, 'ops': ops}


KACTS = [['ret', 1], ['raise', 200]]
XCLASSES = ['exc', 'base', 'timeout', 'exit']


def _with_xcls(case, raises):
  """The same case once per class of the raised exception (only when something can be raised)."""
  if not raises:
    return [case]
  return [dict(case, xcls=x) for x in XCLASSES]


def _exhaustive_runfn():
  out = []
  for inline in (True, False):
    for runs in (0, 1, 2):
      ops = [['run']] * runs
      out.append({'kind': 'runfn', 'inline': inline, 'res': ['ret', 0], 'ops': ops})
      out.append({'kind': 'runfn', 'inline': inline, 'res': ['ret', 7], 'ops': ops})
      out += _with_xcls({'kind': 'runfn', 'inline': inline, 'res': ['raise', 207], 'ops': ops}, True)
  return out


def _exhaustive_cont():
  out = []
  hist = []
  for o in (['c', 'ok', 5], ['c', 'err', 105]):
    hist += [[o], [o, ['run']], [['run'], o, ['run']], [o, ['run'], ['run']], [['run'], o], [o, ['run'], ['run'], ['run']]]
  for kok in KACTS:
    for kerr in KACTS:
      for on_hub in (True, False):
        for pre in (None, ['ok', 0], ['ok', 6], ['err', 106]):
          if pre is None:
            hs = hist + [[['run'], ['run']]]
          else:
            hs = [[], [['run']], [['run'], ['run']]]
          for h in hs:
            out += _with_xcls({'kind': 'cont', 'k': {'ok': kok, 'err': kerr}, 'on_hub': on_hub, 'pre': pre, 'ops': h},
                              kok[0] == 'raise' or kerr[0] == 'raise')
  # ill-formed: the input completed twice (model comparison only)
  for on_hub in (True, False):
    out.append({'kind': 'cont', 'k': {'ok': KACTS[0], 'err': KACTS[0]}, 'on_hub': on_hub, 'pre': None,
                'ops': [['c', 'ok', 5], ['c', 'err', 105], ['run'], ['c', 'ok', 6], ['run']]})
    out.append({'kind': 'cont', 'k': {'ok': KACTS[0], 'err': KACTS[1]}, 'on_hub': on_hub, 'pre': ['ok', 4],
                'ops': [['c', 'err', 105], ['run'], ['c', 'err', 107], ['run']]})
  return out


def _exhaustive_map(kmax):
  out = []
  for f in (['ret', 3], ['raise', 300], ['chain']):
    depths = range(kmax + 1) if f[0] == 'chain' else [0]
    for k in depths:
      terms = (['ok', 9], ['err', 109]) if f[0] == 'chain' else (['ok', 9],)
      for term in terms:
        levels = list(range(k + 1)) if f[0] == 'chain' else []
        for inp in (['ok', 0], ['ok', 8], ['err', 108]):
          for pre_in in (False, True):
            for m in range(len(levels) + 1):
              for pre in itertools.combinations(levels, m):
                rest = [['lvl', j] for j in levels if j not in pre]
                if not pre_in:
                  rest = rest + [['in'] + inp]
                for ops in _perms_with_runs(rest):
                  out += _with_xcls({'kind': 'map', 'f': f, 'depth': k, 'term': term, 'pre_in': inp if pre_in else None,
                                     'pre_levels': list(reversed(pre)), 'ops': ops}, f[0] == 'raise')
  return out


def _random_map(r, kmax):
  f = r.choice([['ret', r.randint(0, 5)], ['raise', 300 + r.randint(0, 5)], ['chain'], ['chain']])
  k = r.randint(0, kmax)
  levels = list(range(k + 1))
  inp = r.choice([['ok', r.randint(0, 9)], ['err', 100 + r.randint(0, 9)]])
  pre_in = r.random() < 0.4
  pre = [j for j in levels if r.random() < 0.4]
  r.shuffle(pre)
  rest = [['lvl', j] for j in levels if j not in pre]
  if not pre_in:
    rest.append(['in'] + inp)
  r.shuffle(rest)
  if r.random() < 0.2:
    rest = rest[:r.randint(0, len(rest))]
  prun = r.choice([0.0, 0.5, 1.0])
  ops = []
  for x in rest:
    ops.append(x)
    if r.random() < prun:
      ops.append(['run'])
  if r.random() < 0.8:
    ops.append(['run'])
  case = {'kind': 'map', 'f': f, 'depth': k, 'term': r.choice([['ok', r.randint(0, 9)], ['err', 100 + r.randint(0, 9)]]),
          'pre_in': inp if pre_in else None, 'pre_levels': pre, 'ops': ops}
  if f[0] == 'raise':
    case['xcls'] = r.choice(XCLASSES)
  return case


# ---- audit dimensions: None values, second instance, second call, re-entrant completions, inline completion --------
def _nonefy(case, only=None):
  """The same case with the successful values (of the inputs in `only`, default all) replaced by None."""
  def fix(entry, at):
    entry = list(entry)
    if entry[at] == 'ok' and (only is None or entry[at - 1] in only):
      entry[at + 1] = None
    return entry
  c = dict(case)
  k = c['kind']
  if k in ('all', 'any'):
    c['pre'] = [fix(p, 1) for p in c['pre']]
    c['ops'] = [fix(op, 2) if op[0] == 'c' else op for op in c['ops']]
  elif k == 'unwrap':
    c['term'] = ['ok', None] if c['term'][0] == 'ok' else c['term']
  elif k == 'cont':
    c['pre'] = ['ok', None] if c['pre'] and c['pre'][0] == 'ok' else c['pre']
    c['ops'] = [['c', 'ok', None] if op[0] == 'c' and op[1] == 'ok' else op for op in c['ops']]
  elif k == 'map':
    c['term'] = ['ok', None] if c['term'][0] == 'ok' else c['term']
    c['pre_in'] = ['ok', None] if c['pre_in'] and c['pre_in'][0] == 'ok' else c['pre_in']
    c['ops'] = [['in', 'ok', None] if op[0] == 'in' and op[1] == 'ok' else op for op in c['ops']]
  return c


def _n_completions(case):
  return sum(1 for op in case['ops'] if op[0] == 'c')


def _reactive(case, depth):
  """The 2nd (.. depth+1-th) completion is made by a consumer link from inside the notification of the previous one."""
  comps = [op for op in case['ops'] if op[0] == 'c']
  moved = comps[1:1 + depth]
  react = [[comps[t][1]] + moved[t][1:] for t in range(len(moved))]
  ops = [op for op in case['ops'] if op not in moved]
  return dict(case, ops=ops, react=react)


def _audit_cases(thorough):
  out = []
  base = []
  for kind in ('all', 'any'):
    for n in range(0, 4):
      base += _exhaustive_multi(kind, n)
  for i, c in enumerate(base):
    # None as a value (also through FromValue(None), the shared already-complete singleton)
    if c['n'] and i % 2 == 0:
      out.append(_nonefy(c, only=[0]))
      out.append(dict(_nonefy(c), mk='fromvalue'))
    # a second combinator instance over the same inputs, created before or after
    for tk in ('all', 'any'):
      for when in (('before', 'after') if i % 2 == 0 else ('after',)):
        out.append(dict(c, twin={'kind': tk, 'when': when}))
    # the used inputs handed to a second call
    out.append(dict(c, again=True))
    # completions made from inside a hub callback
    if _n_completions(c) >= 2:
      out.append(_reactive(c, 1))
      if _n_completions(c) >= 3:
        out.append(dict(_reactive(c, 2), again=True))
  for kind in ('all', 'any'):
    for i, c in enumerate(_exhaustive_multi(kind, 4)):
      if _n_completions(c) >= 2 and i % (2 if thorough else 6) == 0:
        out.append(_reactive(c, 1 + i % 3))
    for m in (2, 3):
      for c in _exhaustive_aliased(kind, m):
        if c['ops'][-1][0] == 'run':
          out.append(dict(c, again=True))
  for i, c in enumerate(_exhaustive_unwrap(2)):
    if c['term'][0] == 'ok':
      out.append(_nonefy(c))
  for i, c in enumerate(_exhaustive_cont()):
    if well_formed(c):
      if c.get('xcls', 'exc') in ('exc', 'timeout'):
        out.append(dict(c, nested=True))            # the continuation starts a ContinueWith on its antecedent
      if c.get('xcls', 'exc') == 'exc':
        out.append(_nonefy(c))
  for i, c in enumerate(_exhaustive_map(2)):
    if 'xcls' not in c or c['xcls'] == 'base':
      if i % 2 == 0:
        out.append(_nonefy(c))
    lv = [op for op in c['ops'] if op[0] == 'lvl']
    if c['f'][0] == 'chain' and lv:
      # fn completes levels of the chain it returns, inline
      out.append(dict(c, ops=[op for op in c['ops'] if op[0] != 'lvl'], fn_fills=[op[1] for op in lv]))
      if len(lv) > 1:
        out.append(dict(c, ops=[op for op in c['ops'] if op != lv[-1]], fn_fills=[lv[-1][1]]))
  return out


def gen_cases(tier, seed):
  thorough = tier != 'quick'
  out = []
  nmax = 5 if thorough else 4
  for kind in ('all', 'any'):
    for n in range(nmax + 1):
      out += _exhaustive_multi(kind, n)
    for m in range(2, 5):
      out += _exhaustive_aliased(kind, m)
  out += _exhaustive_unwrap(4 if thorough else 3)
  out += _exhaustive_cont()
  out += _exhaustive_runfn()
  out += _audit_cases(thorough)
  out += _exhaustive_map(3 if thorough else 2)
  nrand = 6000 if thorough else 900
  for i in range(nrand):
    r = C.case_rng(seed, PID, i)
    x = r.random()
    if x < 0.35:
      out.append(_random_multi(r, 'all', 12 if thorough else 8))
    elif x < 0.7:
      out.append(_random_multi(r, 'any', 12 if thorough else 8))
    elif x < 0.85:
      out.append(_random_unwrap(r, 10))
    else:
      out.append(_random_map(r, 6))
  return out


def search_cases(tier, seed, diverging):
  out = []
  for kind in ('all', 'any'):
    out += _exhaustive_multi(kind, 5)
  for i in range(3000):
    r = C.case_rng(seed + 104729, PID, i)
    out.append(_random_multi(r, r.choice(['all', 'any']), 12))
  return out


# ---------------------------------------------------------------------------------------------
# implementation driver
# ---------------------------------------------------------------------------------------------
def _exc_tag(e):
  if e is None:
    return None
  if type(e) in tuple(_S['XCLS'].values()):
    return e.tag
  return {'other': type(e).__name__}


def _plain(v):
  if v is None or isinstance(v, (int, str)):
    return v
  if isinstance(v, (list, tuple)):
    return [_plain(x) for x in v]
  return {'object': type(v).__name__}


def _snap(ar):
  return [bool(ar.ready()), bool(ar.successful()), _plain(ar.value), _exc_tag(ar.exception)]


def _settle():
  _S['gevent'].idle()


NONEV = -1000        # how the Python value None is written for the model (values are otherwise small non-negative ints)


def _num(v):
  return NONEV if v is None else v


def _do_complete(ar, how, x):
  if how == 'ok':
    ar.set(x)
  else:
    ar.set_exception(Tagged(x))


def run_impl(case):
  setup()
  del _S['hub_errors'][:]
  obs = _run_impl(case)
  _settle()
  obs['hub_errors'] = list(_S['hub_errors'])
  return obs


def _run_impl(case):
  AR = _S['AR']
  k = case['kind']
  obs = []
  if k in ('all', 'any'):
    n = case['n']
    ins = [None] * n
    built = set()
    if case.get('mk') == 'fromvalue':          # already-complete inputs made by AsyncResult.FromValue
      for i, how, x in case['pre']:
        if how == 'ok' and ins[i] is None:
          ins[i] = AR.FromValue(x)
          built.add(i)
    for i in range(n):
      if ins[i] is None:
        ins[i] = AR()
    for i, how, x in case['pre']:
      if i not in built:
        _do_complete(ins[i], how, x)
    inputs = [ins[r] for r in _ars(case)]       # the same result object may be listed at several positions

    def make(kind):
      return AR.WhenAll(inputs) if kind == 'all' else AR.WhenAny(inputs)
    twin = case.get('twin')                     # a second combinator instance on the same inputs
    tret = None
    tobs = []
    if twin and twin['when'] == 'before':
      tret = make(twin['kind'])
    ret = make(k)
    if twin and twin['when'] != 'before':
      tret = make(twin['kind'])
    # re-entrancy: when input i is notified, a consumer link completes input j from inside the hub callback
    for i, j, how, x in case.get('react', []):
      ins[i].rawlink(lambda _ar, j=j, how=how, x=x: _do_complete(ins[j], how, x))
    obs.append(_snap(ret))
    if tret is not None:
      tobs.append(_snap(tret))
    for op in case['ops']:
      if op[0] == 'run':
        _settle()
      else:
        _do_complete(ins[op[1]], op[2], op[3])
      obs.append(_snap(ret))
      if tret is not None:
        tobs.append(_snap(tret))
    out = {'steps': obs}
    if tret is not None:
      out['twin_steps'] = tobs
    if case.get('again'):                       # the same (now used) inputs handed to a second call
      ret2 = make(k)
      first = _snap(ret2)
      _settle()
      out['again_steps'] = [first, _snap(ret2)]
    return out
  if k == 'unwrap':
    d = case['depth']
    L = [AR() for _ in range(d + 1)]

    def fill(j):
      if j < d:
        L[j].set(L[j + 1])
      else:
        _do_complete(L[j], case['term'][0], case['term'][1])
    for j in case['pre']:
      fill(j)
    ret = L[0].Unwrap()
    obs.append(_snap(ret))
    for op in case['ops']:
      if op[0] == 'run':
        _settle()
      else:
        fill(op[1])
      obs.append(_snap(ret))
    return {'steps': obs}
  if k == 'cont':
    spec = case['k']
    calls = []
    src = AR()

    inner = {}
    inner_calls = []

    def behave(ar):
      if ar.exception is not None:
        act, base = spec['err'], ar.exception.tag
      else:
        act, base = spec['ok'], _num(ar.value)
      if act[0] == 'ret':
        return base + act[1]
      raise _S['XCLS'][case.get('xcls', 'exc')](base + act[1])

    def fn_inner(ar):
      inner_calls.append(_snap(ar))
      return behave(ar)

    def fn(ar):
      calls.append(_snap(ar))
      if case.get('nested') and not inner:
        # re-entrancy: the continuation starts another ContinueWith on its own antecedent
        inner['ar'] = ar.ContinueWith(fn_inner) if case['on_hub'] else ar.ContinueWith(fn_inner, on_hub=False)
        inner['first'] = [_snap(inner['ar']), list(inner_calls)]
      return behave(ar)
    if case['pre'] is not None:
      _do_complete(src, case['pre'][0], case['pre'][1])
    ret = src.ContinueWith(fn) if case['on_hub'] else src.ContinueWith(fn, on_hub=False)
    obs.append([_snap(ret), list(calls)])
    for op in case['ops']:
      if op[0] == 'run':
        _settle()
      else:
        _do_complete(src, op[1], op[2])
      obs.append([_snap(ret), list(calls)])
    out = {'steps': obs}
    if inner:
      out['inner'] = [inner['first'], [_snap(inner['ar']), list(inner_calls)]]
    return out
  if k == 'map':
    d = case['depth']
    f = case['f']
    L = [AR() for _ in range(d + 1)]
    calls = []
    src = AR()

    def fill(j):
      if j < d:
        L[j].set(L[j + 1])
      else:
        _do_complete(L[j], case['term'][0], case['term'][1])

    def fn(v):
      calls.append(_plain(v))
      if f[0] == 'ret':
        return _num(v) + f[1]
      if f[0] == 'raise':
        raise _S['XCLS'][case.get('xcls', 'exc')](_num(v) + f[1])
      for j in case.get('fn_fills', []):       # fn itself completes levels of the chain it returns, inline
        fill(j)
      return L[0]
    for j in case['pre_levels']:
      fill(j)
    if case['pre_in'] is not None:
      _do_complete(src, case['pre_in'][0], case['pre_in'][1])
    ret = src.Map(fn)
    obs.append([_snap(ret), list(calls)])
    for op in case['ops']:
      if op[0] == 'run':
        _settle()
      elif op[0] == 'in':
        _do_complete(src, op[1], op[2])
      else:
        fill(op[1])
      obs.append([_snap(ret), list(calls)])
    return {'steps': obs}
  if k == 'runfn':
    res = case['res']
    calls = []

    def fn0():
      calls.append(1)
      if res[0] == 'ret':
        return res[1]
      raise _S['XCLS'][case.get('xcls', 'exc')](res[1])
    try:
      ret = AR.RunInline(fn0) if case['inline'] else AR.Run(fn0)
    except BaseException as e:       # RunInline let fn's exception through
      return {'steps': [[[False, False, None, None], len(calls)]] * (1 + len(case['ops'])), 'escaped': type(e).__name__}
    obs.append([_snap(ret), len(calls)])
    for _op in case['ops']:
      _settle()
      obs.append([_snap(ret), len(calls)])
    return {'steps': obs}
  raise ValueError(k)


# ---------------------------------------------------------------------------------------------
# monitor: the property statement, recomputed from the case
# ---------------------------------------------------------------------------------------------
def well_formed(case):
  """Every input/level completes at most once (what the property quantifies over)."""
  k = case['kind']
  if k in ('all', 'any'):
    ids = [p[0] for p in case['pre']] + [op[1] for op in case['ops'] if op[0] == 'c']
    return (len(ids) == len(set(ids)) and all(0 <= i < case['n'] for i in ids) and
            all(0 <= r < case['n'] for r in _ars(case)))
  if k == 'unwrap':
    ids = list(case['pre']) + [op[1] for op in case['ops'] if op[0] == 'c']
    return len(ids) == len(set(ids)) and all(0 <= j <= case['depth'] for j in ids)
  if k == 'cont':
    return (case['pre'] is not None) + sum(1 for op in case['ops'] if op[0] == 'c') <= 1
  if k == 'runfn':
    return True
  if k == 'map':
    ids = list(case['pre_levels']) + [op[1] for op in case['ops'] if op[0] == 'lvl']
    nin = (case['pre_in'] is not None) + sum(1 for op in case['ops'] if op[0] == 'in')
    return len(ids) == len(set(ids)) and all(0 <= j <= case['depth'] for j in ids) and nin <= 1
  return False


def _want(term):
  """Observation of a result that completed with `term` and nothing else."""
  return [True, True, term[1], None] if term[0] == 'ok' else [True, False, None, term[1]]


_UNSET = object()


def _ars(case):
  """The input list as indices into the pool of results (default: n distinct results)."""
  return case.get('ars', list(range(case['n'])))


def _mon_all(case, steps, v):
  ars = _ars(case)
  ref = set(ars)
  n = len(ref)                                            # distinct results in the input list
  known = [(i, how, x) for i, how, x in case['pre'] if i in ref]      # completions so far
  flushed = 0                                             # how many of them the hub has certainly delivered
  failed_before = False
  for t, (ready, succ, value, exc) in enumerate(steps):
    if t > 0:
      op = case['ops'][t - 1]
      if op[0] == 'run':
        flushed = len(known)
      elif op[1] in ref:
        known.append((op[1], op[2], op[3]))
    where = 'step %d (%s)' % (t, 'call' if t == 0 else case['ops'][t - 1])
    fails = [x for (_i, how, x) in known if how == 'err']
    sure_fails = [x for (_i, how, x) in known[:flushed] if how == 'err']
    everything_ok = len(known) == n and not fails
    vals = dict((i, x) for (i, how, x) in known if how == 'ok')
    if n == 0:
      if [ready, succ, value, exc] != [True, True, [], None]:
        v.append(('all-empty-not-complete', 'WhenAll([]) is %s at %s, expected successful with []' % (steps[t], where)))
      continue
    if succ:
      if not everything_ok:
        v.append(('all-success-too-early', 'successful at %s although not all inputs have succeeded' % where))
      elif value != [vals[r] for r in ars]:
        v.append(('all-wrong-values', 'value %s != the inputs\' values position by position %s at %s' % (value, [vals[r] for r in ars], where)))
      if exc is not None:
        v.append(('all-success-and-exception', 'value and exception both set at %s' % where))
      if failed_before:
        v.append(('all-success-after-failure', 'successful at %s after having failed' % where))
    if exc is not None and exc not in fails:
      v.append(('all-unknown-exception', 'exception %s at %s is not the failure of any input' % (exc, where)))
    if sure_fails and (exc is None or succ or not ready):
      v.append(('all-failure-not-reported', 'an input failed and the hub ran, but the result is %s at %s' % (steps[t], where)))
    if ready and not succ and exc is None:
      v.append(('all-ready-without-outcome', 'ready without value or exception at %s' % where))
    if flushed == len(known):
      if everything_ok and not succ:
        v.append(('all-not-complete', 'all inputs succeeded and the hub ran, result is %s at %s' % (steps[t], where)))
      if not fails and len(known) < n and ready:
        v.append(('all-ready-too-early', 'ready at %s with %d of %d inputs complete' % (where, len(known), n)))
    failed_before = failed_before or exc is not None


def _mon_any(case, steps, v):
  ars = _ars(case)
  ref = set(ars)
  n = len(ref)
  aliased = len(ars) != n
  pre_ok = [x for (i, how, x) in case['pre'] if how == 'ok' and i in ref]
  pre_err = [x for (i, how, x) in case['pre'] if how == 'err' and i in ref]
  npre = len(pre_ok) + len(pre_err)
  later = []           # completions after the call, in order
  flushed = True       # nothing undelivered except the pre-completed inputs' callbacks
  ran = False
  first_value = _UNSET
  for t, (ready, succ, value, exc) in enumerate(steps):
    if t > 0:
      op = case['ops'][t - 1]
      if op[0] == 'run':
        flushed = True
        ran = True
      elif op[1] in ref:
        later.append((op[2], op[3]))
        flushed = False
    where = 'step %d (%s)' % (t, 'call' if t == 0 else case['ops'][t - 1])
    if n == 0:
      if succ or exc is not None:
        v.append(('any-empty-has-outcome', 'WhenAny([]) is %s at %s' % (steps[t], where)))
      continue
    later_ok = [x for (how, x) in later if how == 'ok']
    ncomplete = npre + len(later)
    if pre_ok:
      # some input had already succeeded at call time: the result is one of those, at once and for ever
      if not (ready and succ and value in pre_ok and exc is None):
        v.append(('any-precompleted-success-ignored', 'inputs %s had succeeded at call time, result is %s at %s' % (pre_ok, steps[t], where)))
      continue
    if succ:
      if not later_ok:
        v.append(('any-success-from-nowhere', 'successful at %s although no input has succeeded' % where))
      elif value != later_ok[0]:
        v.append(('any-not-first-success', 'value %s at %s, the first input to succeed had %s' % (value, where, later_ok[0])))
      if exc is not None:
        v.append(('any-success-and-exception', 'successful result carries exception %s at %s' % (exc, where)))
      if first_value is not _UNSET and value != first_value:
        v.append(('any-value-changed', 'value changed from %s to %s at %s' % (first_value, value, where)))
      first_value = value if first_value is _UNSET else first_value
    elif first_value is not _UNSET:
      v.append(('any-success-lost', 'no longer successful at %s' % where))
    if exc is not None:
      if later_ok or ncomplete < n:
        v.append(('any-failed-too-early', 'failed with %s at %s although not every input has failed' % (exc, where)))
      else:
        last = [later[-1][1]] if later else pre_err
        if aliased:
          # a result listed twice is notified in two rounds: which failure comes last is not fixed by completion order
          last = pre_err + [x for (_how, x) in later]
        if exc not in last:
          v.append(('any-not-last-failure', 'failed with %s at %s, the last failure was %s' % (exc, where, last)))
    if ready and not succ and exc is None:
      v.append(('any-ready-without-outcome', 'ready without value or exception at %s' % where))
    if flushed and ran:
      if later_ok and not succ:
        v.append(('any-success-not-reported', 'an input succeeded and the hub ran, result is %s at %s' % (steps[t], where)))
      if not later_ok and ncomplete == n and exc is None:
        v.append(('any-failure-not-reported', 'every input failed and the hub ran, result is %s at %s' % (steps[t], where)))
      if not later_ok and ncomplete < n and ready:
        v.append(('any-ready-too-early', 'ready at %s with no success and %d of %d complete' % (where, ncomplete, n)))


def _chain_monitor(prefix, depth, term, done0, ops, is_level, steps, v, gate=None):
  """Unwrap of a chain: never anything but the innermost outcome, and that once every level is complete and the hub ran."""
  done = set(done0)
  flushed = False
  for t, snap in enumerate(steps):
    if t > 0:
      op = ops[t - 1]
      if op[0] == 'run':
        flushed = True
      else:
        flushed = False
        j = is_level(op)
        if j is not None:
          done.add(j)
    where = 'step %d (%s)' % (t, 'call' if t == 0 else ops[t - 1])
    complete = len(done) == depth + 1 and (gate is None or gate(t))
    if snap[0] or snap[1] or snap[2] is not None or snap[3] is not None:
      if not complete:
        v.append((prefix + '-ready-too-early', 'result %s at %s before every level is complete' % (snap, where)))
      elif snap != _want(term):
        v.append((prefix + '-wrong-outcome', 'result %s at %s, innermost outcome is %s' % (snap, where, term)))
    elif complete and flushed:
      v.append((prefix + '-not-complete', 'every level is complete and the hub ran, result %s at %s' % (snap, where)))


def _mon_cont(case, steps, v):
  spec = case['k']
  outcome = case['pre']
  flushed = False
  for t, (snap, calls) in enumerate(steps):
    if t > 0:
      op = case['ops'][t - 1]
      if op[0] == 'run':
        flushed = True
      else:
        outcome = [op[1], op[2]]
        flushed = False
    where = 'step %d (%s)' % (t, 'call' if t == 0 else case['ops'][t - 1])
    if len(calls) > 1:
      v.append(('continue-called-twice', 'continuation called %d times at %s' % (len(calls), where)))
      continue
    if calls:
      if outcome is None or calls[0] != _want(outcome):
        v.append(('continue-called-before-completion', 'continuation saw %s at %s, the input is %s' % (calls[0], where, outcome)))
        continue
      act = spec['ok'] if outcome[0] == 'ok' else spec['err']
      res = ['ok', _num(outcome[1]) + act[1]] if act[0] == 'ret' else ['err', _num(outcome[1]) + act[1]]
      if snap != _want(res):
        v.append(('continue-result-not-captured', 'returned result %s at %s, continuation gave %s' % (snap, where, res)))
    else:
      if snap != [False, False, None, None]:
        v.append(('continue-result-without-call', 'returned result %s at %s but the continuation has not run' % (snap, where)))
      if outcome is not None and flushed:
        v.append(('continue-not-called', 'input complete and the hub ran but the continuation has not run at %s' % where))


def _mon_map(case, steps, v):
  f = case['f']
  inp = case['pre_in']
  flushed = False
  in_at = 0 if inp is not None else None
  for t, (snap, calls) in enumerate(steps):
    if t > 0:
      op = case['ops'][t - 1]
      if op[0] == 'run':
        flushed = True
      else:
        flushed = False
        if op[0] == 'in':
          inp = [op[1], op[2]]
          in_at = t
    where = 'step %d (%s)' % (t, 'call' if t == 0 else case['ops'][t - 1])
    allowed = [inp[1]] if inp is not None and inp[0] == 'ok' else []
    if calls and calls != allowed:
      v.append(('map-fn-misapplied', 'fn called with %s at %s, input is %s' % (calls, where, inp)))
    if inp is not None and inp[0] == 'ok' and flushed and not calls:
      v.append(('map-fn-not-applied', 'input succeeded and the hub ran but fn has not been called at %s' % where))
  # the mapped result
  if inp is None:
    for t, (snap, _calls) in enumerate(steps):
      if snap != [False, False, None, None]:
        v.append(('map-ready-too-early', 'result %s at step %d although the input never completed' % (snap, t)))
    return
  if inp[0] == 'err':
    depth, term, done0, lv = 0, inp, [], lambda op: None
  elif f[0] == 'ret':
    depth, term, done0, lv = 0, ['ok', _num(inp[1]) + f[1]], [], lambda op: None
  elif f[0] == 'raise':
    depth, term, done0, lv = 0, ['err', _num(inp[1]) + f[1]], [], lambda op: None
  else:
    depth, term, done0 = case['depth'] + 1, case['term'], [j + 1 for j in case['pre_levels']]
    lv = lambda op: op[1] + 1 if op[0] == 'lvl' else None
  # level 0 of the chain is the result of fn, available once the input is complete
  _chain_monitor('map', depth, term, done0 + [0], case['ops'], lv, [s for s, _c in steps], v, gate=lambda t: t >= in_at)


def _mon_runfn(case, obs, v):
  res = ['ok', case['res'][1]] if case['res'][0] == 'ret' else ['err', case['res'][1]]
  if 'escaped' in obs:
    v.append(('runfn-exception-escaped', 'RunInline let %s raised by fn escape instead of capturing it' % obs['escaped']))
    return
  for t, (snap, ncalls) in enumerate(obs['steps']):
    where = 'step %d (%s)' % (t, 'call' if t == 0 else 'hub run')
    if ncalls > 1:
      v.append(('runfn-called-twice', 'fn called %d times at %s' % (ncalls, where)))
    if snap != [False, False, None, None]:
      if ncalls < 1:
        v.append(('runfn-result-without-call', 'result %s at %s but fn has not run' % (snap, where)))
      elif snap != _want(res):
        v.append(('runfn-result-not-captured', 'result %s at %s, fn gave %s' % (snap, where, res)))
    elif case['inline'] or t > 0:
      v.append(('runfn-not-complete', 'fn %s but the result is %s at %s' % ('ran' if ncalls else 'should have run', snap, where)))


def _expanded(case, obs):
  """The history as the combinator saw it: completions made from inside hub callbacks (a reacting consumer link,
  a Map function that completes levels of the chain it returns) written as ordinary completions just before the hub
  run in which they happen; the observation before that run stands for the unobservable intermediate states."""
  steps = obs['steps']
  k = case['kind']
  if k in ('all', 'any') and case.get('react'):
    react = dict((i, [j, how, x]) for i, j, how, x in case['react'])
    ops2, steps2, q = [], [steps[0]], []
    for t, op in enumerate(case['ops']):
      if op[0] == 'run':
        idx = 0
        while idx < len(q):
          i = q[idx]
          idx += 1
          if i in react:
            j, how, x = react.pop(i)
            ops2.append(['c', j, how, x])
            steps2.append(steps[t])
            q.append(j)
        q = []
      else:
        q.append(op[1])
      ops2.append(op)
      steps2.append(steps[t + 1])
    return dict(case, ops=ops2), steps2
  if k == 'map' and case.get('fn_fills') and case['f'][0] == 'chain':
    inp = case['pre_in']
    ops2, steps2, fired = [], [steps[0]], False
    for t, op in enumerate(case['ops']):
      if op[0] == 'in':
        inp = [op[1], op[2]]
      if op[0] == 'run' and not fired and inp is not None:
        fired = True
        if inp[0] == 'ok':
          for j in case['fn_fills']:
            ops2.append(['lvl', j])
            steps2.append(steps[t])
      ops2.append(op)
      steps2.append(steps[t + 1])
    return dict(case, ops=ops2), steps2
  return case, steps


def _monitor_one(case, steps, obs, v):
  k = case['kind']
  if k == 'all':
    _mon_all(case, steps, v)
  elif k == 'any':
    _mon_any(case, steps, v)
  elif k == 'unwrap':
    _chain_monitor('unwrap', case['depth'], case['term'], case['pre'], case['ops'],
                   lambda op: op[1] if op[0] == 'c' else None, steps, v)
  elif k == 'cont':
    _mon_cont(case, steps, v)
  elif k == 'map':
    _mon_map(case, steps, v)
  elif k == 'runfn':
    _mon_runfn(case, obs, v)


def _extra_parts(case, obs):
  """Further combinators observed in the same run, each as a (case, steps) of its own: a twin instance on the same
  inputs, a second call on the used inputs, a ContinueWith started from inside the continuation."""
  parts = []
  k = case['kind']
  if k in ('all', 'any'):
    aliased = len(set(_ars(case))) != len(_ars(case))
    if case.get('twin') and 'twin_steps' in obs and not aliased and not case.get('react'):
      tc = dict((kk, vv) for kk, vv in case.items() if kk not in ('twin', 'again'))
      tc['kind'] = case['twin']['kind']
      parts.append((tc, obs['twin_steps']))
    if case.get('again') and 'again_steps' in obs and case['ops'] and case['ops'][-1][0] == 'run':
      c2, _s2 = _expanded(case, obs)
      done = [list(p) for p in case['pre']] + [op[1:] for op in c2['ops'] if op[0] == 'c']
      ac = {'kind': k, 'n': case['n'], 'pre': done, 'ops': [['run']]}
      if 'ars' in case:
        ac['ars'] = case['ars']
      parts.append((ac, obs['again_steps']))
  if k == 'cont' and 'inner' in obs:
    outcome = case['pre']
    for op in case['ops']:
      if op[0] == 'c':
        outcome = [op[1], op[2]]
    ic = {'kind': 'cont', 'k': case['k'], 'on_hub': case['on_hub'], 'pre': outcome, 'ops': [['run']], 'xcls': case.get('xcls', 'exc')}
    parts.append((ic, obs['inner']))
  return parts


def monitor(case, obs):
  v = []
  if not well_formed(case):
    return v
  case2, steps2 = _expanded(case, obs)
  if not well_formed(case2):
    return v
  if obs.get('hub_errors'):
    v.append(('exception-escaped-to-hub', 'gevent reported %s escaping a callback/greenlet; whatever a continuation or '
              'function raises must be captured in the returned result' % sorted(set(obs['hub_errors']))))
  _monitor_one(case2, steps2, obs, v)
  for pc, psteps in _extra_parts(case, obs):
    if well_formed(pc):
      _monitor_one(pc, psteps, {'steps': psteps}, v)
  if case.get('nested') and case['kind'] == 'cont' and 'inner' not in obs:
    if any(calls for _s, calls in obs['steps']):
      v.append(('continue-nested-missing', 'the continuation ran but the ContinueWith it started was not recorded'))
  seen = set()
  out = []
  for s, m in v:
    if s not in seen:
      seen.add(s)
      out.append((s, m))
  return out


# ---------------------------------------------------------------------------------------------
# translation to Coq terms
# ---------------------------------------------------------------------------------------------
BADZ = -777


def _z(x):
  return C.zlit(x) if isinstance(x, int) and not isinstance(x, bool) else C.zlit(BADZ)


def _oz(x):
  return 'None' if x is None else '(Some %s)' % _z(x)


def _zv(x):
  """A value: the Python value None is written NONEV."""
  return _z(NONEV) if x is None else _z(x)


def _outcome(how, x):
  return '(Ok %s)' % _zv(x) if how == 'ok' else '(Err %s)' % _z(x)


def _obs_z(s):
  # value None of a successful result is the Python value None; of an unsuccessful one "no value"
  val_ = '(Some %s)' % _zv(s[2]) if (s[1] or s[2] is not None) else 'None'
  return '(%s, %s, %s, %s)' % (C.blit(s[0]), C.blit(s[1]), val_, _oz(s[3]))


def _obs_list(s):
  if s[2] is None:
    val_ = 'None'
  elif isinstance(s[2], list):
    val_ = '(Some %s)' % C.lst(['(Some %s)' % _zv(x) for x in s[2]])
  else:
    val_ = '(Some [Some %s])' % C.zlit(BADZ)
  return '(%s, %s, %s, %s)' % (C.blit(s[0]), C.blit(s[1]), val_, _oz(s[3]))


def _ev(op):
  if op[0] == 'run':
    return 'Run'
  return '(Complete %s %s)' % (C.natlit(op[1]), _outcome(op[2], op[3]))


def _chain(depth, term):
  return '(mkChain %s %s)' % (C.natlit(depth), _outcome(term[0], term[1]))


def _kact(a):
  return '(KRet %s)' % _z(a[1]) if a[0] == 'ret' else '(KRaise %s)' % _z(a[1])


def to_coq(case, obs):
  case2, steps2 = _expanded(case, obs)
  term = _term(case2, steps2, obs)
  for pc, psteps in _extra_parts(case, obs):
    term = 'CPair (%s) (%s)' % (term, _term(pc, psteps, {'steps': psteps}))
  return term


def _term(case, steps, obs):
  k = case['kind']
  if k in ('all', 'any'):
    pre = C.lst(['(%s, %s)' % (C.natlit(i), _outcome(how, x)) for i, how, x in case['pre']])
    evs = C.lst([_ev(op) for op in case['ops']])
    if k == 'all':
      return 'CAll %s %s %s %s' % (C.natlist(_ars(case)), pre, evs, C.lst([_obs_list(s) for s in steps]))
    return 'CAny %s %s %s %s' % (C.natlist(_ars(case)), pre, evs, C.lst([_obs_z(s) for s in steps]))
  if k == 'unwrap':
    evs = C.lst(['URun' if op[0] == 'run' else '(UComplete %s)' % C.natlit(op[1]) for op in case['ops']])
    return 'CUnwrap %s %s %s %s' % (_chain(case['depth'], case['term']), C.natlist(case['pre']), evs,
                                    C.lst([_obs_z(s) for s in steps]))
  if k == 'cont':
    spec = '(mkK %s %s)' % (_kact(case['k']['ok']), _kact(case['k']['err']))
    pre = 'None' if case['pre'] is None else '(Some %s)' % _outcome(*case['pre'])
    evs = C.lst(['CRun' if op[0] == 'run' else '(CComplete %s)' % _outcome(op[1], op[2]) for op in case['ops']])
    exp = C.lst(['(%s, %s)' % (_obs_z(s), C.lst([_obs_z(c) for c in calls])) for s, calls in steps])
    return 'CCont %s %s %s %s %s' % (spec, C.blit(case['on_hub']), pre, evs, exp)
  if k == 'map':
    f = case['f']
    fa = 'MChain' if f[0] == 'chain' else ('(MRet %s)' % _z(f[1]) if f[0] == 'ret' else '(MRaise %s)' % _z(f[1]))
    pre = 'None' if case['pre_in'] is None else '(Some %s)' % _outcome(*case['pre_in'])

    def mev(op):
      if op[0] == 'run':
        return 'MRun'
      if op[0] == 'in':
        return '(MIn %s)' % _outcome(op[1], op[2])
      return '(MLevel %s)' % C.natlit(op[1])
    exp = C.lst(['(%s, %s)' % (_obs_z(s), C.lst([_zv(c) for c in calls])) for s, calls in steps])
    return 'CMap %s %s %s %s %s %s' % (fa, _chain(case['depth'], case['term']), pre, C.natlist(case['pre_levels']),
                                       C.lst([mev(op) for op in case['ops']]), exp)
  if k == 'runfn':
    res = _outcome('ok' if case['res'][0] == 'ret' else 'err', case['res'][1])
    bad = BADZ if 'escaped' in obs else None
    exp = C.lst(['(%s, %s)' % (_obs_z(s), _z(n if bad is None else bad)) for s, n in steps])
    return 'CRunFn %s %s %s %s' % (C.blit(case['inline']), res, C.natlit(len(case['ops'])), exp)
  raise ValueError(k)


# ---------------------------------------------------------------------------------------------
# evidence helpers
# ---------------------------------------------------------------------------------------------
def _final(obs):
  s = obs['steps'][-1]
  return s if isinstance(s[0], bool) else s[0]


def nontrivial(case, obs):
  steps = obs.get('steps') or []
  if len(steps) < 2:
    return False
  first = steps[0] if isinstance(steps[0][0], bool) else steps[0][0]
  return _final(obs) != first or any(op[0] != 'run' for op in case['ops'])


def _branch(case, obs):
  k = case['kind']
  fin = _final(obs)
  if not well_formed(case):
    return k + ':ill-formed-history'
  if k == 'any' and any(how == 'ok' for _i, how, _x in case['pre']):
    return 'any:shortcut-precompleted-success'
  if k == 'any' and case['pre'] and fin[3] is not None:
    return 'any:all-failed-some-precompleted'
  if k == 'all' and case['n'] == 0:
    return 'all:empty'
  if k == 'map':
    k = 'map-' + case['f'][0]
  if k == 'cont':
    k = 'cont-on-hub' if case['on_hub'] else 'cont-spawned'
  if fin[1] and fin[3] is not None:
    return k + ':value-and-exception'
  if fin[1]:
    return k + ':successful'
  if fin[3] is not None:
    return k + ':failed'
  return k + ':pending'


def describe(case, obs):
  return {'case': case, 'obs': obs}


def _deliveries(case):
  """Completions that reached the combinator's callback (well-formed all/any cases), in delivery order."""
  q = sorted([list(p) for p in case['pre']], key=lambda p: p[0])
  out = []
  for op in case['ops']:
    if op[0] == 'run':
      out += q
      q = []
    else:
      q.append(op[1:])
  return out


def _callback_branches(case, br):
  k = case['kind']
  n = case['n']
  if k == 'any' and any(how == 'ok' for _i, how, _x in case['pre']):
    br['any:shortcut'] = br.get('any:shortcut', 0) + 1
    return
  failed = succeeded = False
  count = 0
  for _i, how, _x in _deliveries(case):
    count += 1
    if k == 'all':
      if how == 'err':
        b = 'all_cb:failure-overwrites-failure' if failed else 'all_cb:first-failure'
        failed = True
      elif failed:
        b = 'all_cb:success-ignored-after-failure'
      else:
        b = 'all_cb:countdown-reaches-zero' if count == n else 'all_cb:countdown'
    else:
      if succeeded or failed:
        b = 'any_cb:ignored-already-ready'
      elif how == 'ok':
        b = 'any_cb:first-success'
        succeeded = True
      elif count == n:
        b = 'any_cb:last-failure-fails'
        failed = True
      else:
        b = 'any_cb:failure-not-last'
    br[b] = br.get(b, 0) + 1


def stats(cases, obs):
  br = {}
  cb = {}
  nmax = {}
  undelivered = 0
  batched = 0
  relinks = 0
  for c, o in zip(cases, obs):
    if not isinstance(o, dict) or 'steps' not in o:
      continue
    b = _branch(c, o)
    br[b] = br.get(b, 0) + 1
    size = c.get('n', c.get('depth', 0))
    key = c['kind']
    nmax[key] = max(nmax.get(key, 0), size)
    ops = c['ops']
    if ops and ops[-1][0] != 'run':
      undelivered += 1
    if any(a[0] != 'run' and b2[0] != 'run' for a, b2 in zip(ops, ops[1:])):
      batched += 1
    if key in ('all', 'any') and well_formed(c):
      _callback_branches(c, cb)
    if key in ('unwrap', 'map') and sum(1 for op in ops if op[0] == 'run') >= 3:
      relinks += 1
  raised = {}
  aliased = {}
  dims = {}
  for c in cases:
    for key, name in (('twin', 'second_instance_on_same_inputs'), ('again', 'second_call_on_used_inputs'),
                      ('react', 'completion_from_inside_a_hub_callback'), ('nested', 'continuewith_started_inside_continuation'),
                      ('fn_fills', 'map_function_completes_chain_levels_inline')):
      if c.get(key):
        dims[name] = dims.get(name, 0) + 1
    if '"ok", null' in C.canon([c.get('pre'), c.get('ops'), c.get('term'), c.get('pre_in')]):
      dims['none_as_a_value'] = dims.get('none_as_a_value', 0) + 1
    if c.get('mk') == 'fromvalue':
      dims['inputs_built_with_FromValue'] = dims.get('inputs_built_with_FromValue', 0) + 1
    if 'ars' in c and len(set(c['ars'])) < len(c['ars']):
      aliased[c['kind']] = aliased.get(c['kind'], 0) + 1
    if 'xcls' in c:
      raised[c['xcls']] = raised.get(c['xcls'], 0) + 1
  return {'final_state_distribution': br, 'callback_branches_delivered': cb, 'largest_n_or_depth': nmax,
          'audit_dimensions': dims, 'cases_by_class_of_raised_exception': raised, 'cases_with_a_result_at_several_positions': aliased,
          'histories_ending_with_undelivered_completions': undelivered,
          'histories_with_several_completions_per_hub_run': batched,
          'chain_histories_with_three_or_more_hub_runs': relinks}
