"""C08 - Transports fail in-flight requests once and report dead connections.

Implementation under test (imported from $SCALES_REPO as it is now): the serial transport
scales.thrift.sink.SocketTransportSink and the ThriftMux transport scales.thriftmux.sink.SocketTransportSink (on
scales.mux.sink.MuxSocketTransportSink), each created through its provider, so the real VarzSocketWrapper and
ScalesSocket are underneath, on the fake network of the simulation world (harness/vworld.py) and driven DIRECTLY
(harness/c08_drv.py): Open(), AsyncProcessRequest with real ClientMessageSinkStacks whose bottom frame is a
recording terminator, on_faulted subscription, `state`, Close(), deadline events, a scripted peer, virtual time.

Fault-position sweep: a case is a short usage script plus injected faults (n-th connect / sendall / recv_into x
exception | EOF | refusal | silence | slow failure) and peer behaviours (delay, chunked replies, drop, close,
reset, garbage, duplicate / bogus-tag replies, silent to pings).

Model: coq/Model/Transport.v (Serial, Mux).  Correspondence: the collaborator calls the transport made (socket
wrapper calls and outcomes, greenlet starts, send-queue traffic, ping draws, time-out deliveries) are mapped to
model labels, slice by slice; the model is run on them inside Coq and must produce the same reported state, the
same messages per call, the same number of fault notifications and the same frames on the wire after every slice.
Monitor: the property statement, evaluated on the event log only (never on the model, never on private fields).
"""
import collections

from .. import common as C

PID = 'C08'
PROPS_FILE = 'Props/C08.v'
COQ_HEADER = 'From Scales Require Import Model.Transport.\nImport Transport.'
COQ_CASE_TYPE = 'Transport.case'
COQ_CHECK = 'Transport.check_case'
COQ_EXPLAIN = 'Transport.explain_case'
SHARD = 60
WORKERS = 6
RULE = ('fault-position sweep over usage scripts of the two real transports: serial - Open, 1-4 sequential requests (no deadline / '
        'deadline in 4-12 ticks / already expired), a second request while the first is in flight (before and after its greenlet '
        'started), peer replying after 0-3 ticks whole or in 1-3 byte chunks, dropping, closing, resetting, sending garbage, '
        'Close() in flight, re-Open after a failure, a final probe request; mux - Open (peer answering / ignoring the first Tping), '
        'bursts of 0-4 tagged calls issued with or without yielding (queued vs written), deadline events firing while queued / after '
        'writing, replies / duplicates / bogus tags / Rerr / junk frames, peer close / reset, Close(), requests on a closed '
        'transport, 30-45 s of virtual time for the ping loop with scripted random draws; injected faults on the n-th connect / '
        'sendall / recv_into (exception, EOF, refusal, hang, write stalled after half a frame, slow connect that fails or succeeds); '
        'peers that accept writes slowly (half of the buffer at once, the rest 1-14 ticks later) so that deadlines expire inside a '
        'partially written frame; serial second incarnations (Close() or a failure, re-Open, then failures there); failure '
        'callbacks that retry on the same transport or Close() it; mux requests handed over between the start of Open() and its '
        'completion (also after Close(): a doomed second life), for every way the open can end (slow refused / successful connect, EOF / error before, inside and after the '
        'first Rping, failing ping write, silent peer, peer hanging up or resetting, owner Close()); quick: seeded sample, thorough: '
        'seeded sample + exhaustive grid (every I/O operation index of the base scripts x every fault kind x in-flight set). '
        'non-trivial = a connection failure or time-out happened; distinct by canonical JSON of (case, observation)')
TRUSTED = ['simulation world harness/vworld.py (virtual clock, fake gsocket) and harness/c08_drv.py (fake socket with hang / slow '
           'connect, pass-through logging wrappers around VarzSocketWrapper.open/close/write/readAll, gevent.spawn / Queue / '
           'AsyncResult.wait(timeout) proxies, recording terminator sink)',
           'scripted peers harness/peers.py',
           'mapping of collaborator calls to model labels in to_coq() of harness/props/c08.py']
ASSUMPTIONS = ['gevent greenlets only switch at blocking calls; a greenlet made runnable by AsyncResult.set / Event.set runs before '
               'the next I/O event or timer is processed (gevent drains its callback queue before polling)',
               'owner contract (watermark pool / resurrector): serial requests are issued only after Open() completed (mux requests '
               'may be handed over while Open() is in progress: the caller blocks on the open result - modelled and swept), a serial sink is '
               'not re-opened while it carries a request, Close() is not called while a connect is in progress, a mux sink is '
               'opened once (a closed MuxSocketTransportSink cannot be re-opened), call ids / sink stacks are not reused',
               'a closed or faulted serial sink may be opened again (incarnations): the monitor demands the fault signal for every '
               'failure of the first incarnation and of a re-opened one once its own connect succeeded; on /repo a REFUSED re-Open '
               'of a closed serial sink reports the failure through the Open() result only (its _state is still Closed, so _Fault '
               'returns early) - C08_serial_open_fail states exactly that',
               'self-audit dimensions: callbacks that retry / Close() / Open() / raise (Exception, gevent.Timeout) from inside a failure '
               'callback, pipeline the next request from inside a reply callback, act from inside the fault notification; payloads of '
               '255 B .. 70 KB; peer bytes arriving in 1-7 byte pieces; degenerate frames (zero / negative length, short, coalesced); '
               'events exactly at / one tick around deadlines and the 5 s ping time-out in both same-instant orders; long-lived '
               'transports (25-60 operations); two instances in one process (monitor only). Not generated because the unchanged code '
               'fails them (reported as finding candidates): a raising failure callback inside the mux _Shutdown loop (set '
               'C08_MUX_RAISING_CALLBACKS=1 to generate), a socket whose close() raises. Not modelled: Open() from inside the mux fault '
               'notification while a ping helper of the first life is still pending',
               'callers may re-enter the transport from inside a failure callback (retry on the same sink, Close()); such requests '
               'are not subject to the open-and-idle oracle (the transport has just closed its socket), all other oracles apply',
               'a connect that meets silence ends with the kernel time-out (slow failure); a connect blocked for ever is treated '
               'as still in progress (the transport then reports Open with the request still in flight: not idle)',
               'timers fire at their virtual due time (Mux.step MTick cannot skip an armed timer)',
               '"reports open and idle" is evaluated when no Open() and no request is in progress',
               'fixed finding F26 (monitor signature mux/open-after-shutdown-during-initial-ping): a ThriftMux transport whose '
               'connection fails between reading the first Rping and processing it was shut down and then reported Open again; '
               '_OpenImpl now raises when the transport was shut down meanwhile (model: MOResume on a Closed transport)']
MANIFEST = {
    'text': ('Theorems over every label sequence (every fault position, fault kind, schedule) of the Gallina transcription of the '
             'serial and the ThriftMux transport. Serial: a failing write / header read / body read / reconnect fails the in-flight '
             'call exactly once, clears _processing, reports Closed and raises on_faulted iff it did not already report Closed; a '
             'failed connect of Open() reports Closed and raises on_faulted; globally at most one message per call, exactly one once '
             'it is no longer in flight (unless Close() killed it); on_faulted at most once per connection; reported-open-and-idle '
             'implies a connected socket and an enabled, wire-reaching next request. Mux: _Shutdown posts exactly one ClientError to '
             'every tagged call (written or queued), empties map and queue, is idempotent, later requests get "Sink not open"; '
             'globally exactly one message per tagged call once the transport is closed; an unanswered ping shuts the transport down '
             'exactly 5 s after it was queued and the ping loop pings every 30-40 s while open; a mux transport that reports Open '
             'has both loops alive and carries the next request, and raises on_faulted at most once (full strength since the '
             'open-after-shutdown defect F26 was repaired). The transcription is compared slice by slice with the real transports on a fault-position '
             'sweep; an independent monitor checks the property statement on the event log.'),
    'note': ('Trusted: Coq kernel; simulation world, scripted peers, logging proxies; greenlet atomicity between blocking calls. '
             'Owner contract (requests only after Open() completed, no Open() on a serial sink that carries a request - re-opening a '
             'closed serial sink is allowed and covered -, mux sinks opened once, no Close() during a connect) is a hypothesis '
             'of the serial theorems (Serial.run enforces usage_ok). All theorems closed under the global context.'),
    'technique': 'Coq proof (inductive invariants over all label sequences of two transition systems) + trace-driven differential execution model vs code',
    'design_ref': 'DESIGN.md section 5, C08; section 6, F7, F21 (F8)',
}

_S = {}
TPS = 64
PING_TO = 5 * TPS


def setup():
  if _S:
    return
  from harness import c08_drv
  c08_drv.setup(C.REPO)
  _S['drv'] = c08_drv


def run_impl(case):
  setup()
  if case['kind'] == 'twin':
    return _S['drv'].run_twin(case)
  return _S['drv'].run_case(case)


# ---------------------------------------------------------------------------------------------
# generators
# ---------------------------------------------------------------------------------------------
SER_PLANS = [{'act': 'reply', 'delay': 0}, {'act': 'reply', 'delay': 1}, {'act': 'reply', 'delay': 3},
             {'act': 'reply', 'delay': 2, 'chunks': [1, 2, 1, 3, 2]}, {'act': 'reply', 'delay': 0, 'chunks': [2, 2, 5]},
             {'act': 'drop'}, {'act': 'close', 'delay': 1}, {'act': 'close', 'delay': 0}, {'act': 'reset', 'delay': 1},
             {'act': 'garbage', 'delay': 1}, {'act': 'exc', 'delay': 0}]
MUX_PLANS = [{'act': 'reply', 'delay': 0}, {'act': 'reply', 'delay': 2}, {'act': 'reply', 'delay': 5}, {'act': 'drop'},
             {'act': 'close', 'delay': 1}, {'act': 'reset', 'delay': 2}, {'act': 'garbage', 'delay': 1}, {'act': 'dup', 'delay': 1},
             {'act': 'bogus', 'delay': 1, 'bogus_tag': 1}, {'act': 'bogus', 'delay': 1, 'bogus_tag': 77}, {'act': 'rerr', 'delay': 1},
             {'act': 'exc', 'delay': 0}]
CONNECT_FAULTS = ['refuse', 'exc', 'timedout', ['slow', 6, 0], ['slow', 3, 1], 'hang']
SEND_FAULTS = ['exc', 'pipe', 'hang', 'parthang']
RECV_FAULTS = ['exc', 'eof', 'hang']
# what a call's owner does from inside its failure callback: nothing / retry on the same transport / Close() it
ONFAIL = [None, None, None, None, None, 'retry', 'retry', 'close']
PADS = [255, 256, 4096, 65535, 65536, 70000]          # payload sizes around 2^8, 2^16 and above 64 KiB
RX_CHUNKS = [1, 1, 2, 3, 7]                            # the peer's bytes arrive in pieces of this size
ON_FAULT = [None, None, None, None, 'close', 'req', 'open']
# a callback that raises aborts MuxSocketTransportSink._Shutdown's loop over _tag_map on the unchanged code (reported to the
# coordinator as a finding candidate); those cases are only generated on request
MUX_RAISE = bool(__import__('os').environ.get('C08_MUX_RAISING_CALLBACKS'))


def _req(r, c, dl, settle, ev, mux):
  """a request op with what its owner does inside the callbacks, and its payload size"""
  x = r.random()
  if x < 0.62:
    onfail = None
  elif x < 0.76:
    onfail = 'retry'
  elif x < 0.84:
    onfail = 'close'
  elif x < 0.9:
    onfail = 'open'
  elif mux and not MUX_RAISE:
    onfail = None
  else:
    onfail = r.choice(['raise', 'raise-timeout'])
  pad = r.choice(PADS) if r.random() < 0.08 else 0
  onreply = 'next' if r.random() < 0.12 else None
  return ['req', c, dl, settle, ev, onfail, pad, onreply]




def _gen_serial(r, idx):
  sv = {'default': r.choice(SER_PLANS), 'plan': {}}
  if r.random() < 0.15:
    sv['connect_delay'] = r.choice([1, 3])
  if r.random() < 0.08:
    sv['reachable'] = False
  if r.random() < 0.2:
    sv['send_delay'] = r.choice([1, 3, 8, 14])      # slow, partially accepted writes
  if r.random() < 0.15:
    sv['rx_chunk'] = r.choice(RX_CHUNKS)            # short reads: every reply split into small pieces
  ops = [['open']]
  if sv.get('connect_delay'):
    ops.append(['adv', 4])
  nreq = r.choice([1, 1, 2, 3, 4])
  c = 0
  for _ in range(nreq):
    c += 1
    dl = r.choice([None, None, 4, 6, 12, 0])
    if r.random() < 0.4:
      sv['plan'][str(c)] = r.choice(SER_PLANS)
    first_settle = 0 if r.random() < 0.2 else 1
    ops.append(_req(r, c, dl, first_settle, 0, False))
    if r.random() < 0.35:
      c += 1
      ops.append(_req(r, c, r.choice([None, 5]), 1, 0, False))
    x = r.random()
    if x < 0.12:
      ops.append(['peer', r.choice(['close', 'reset'])])
    elif x < 0.22:
      ops.append(['close'])
      if r.random() < 0.6:
        ops.append(['open'])
    elif x < 0.28:
      # malformed / degenerate frames: zero length, negative length, a lone half header
      ops.append(['peer', 'raw', r.choice(['00000000', 'ffffffff', '80000000', '0000', '00000001'])])
    ops.append(['adv', r.choice([1, 2, 4, 8, 16])])
    if r.random() < 0.25:
      ops.append(['open'])
      ops.append(['adv', 8])
  if r.random() < 0.3:
    # a second life: end the first one (owner's Close() or a connection failure), open again, time out / fail there
    ops.append(r.choice([['close'], ['peer', 'close'], ['peer', 'reset'], ['close']]))
    ops.append(['req', 60, None, 1])
    ops.append(['adv', 4])
    ops.append(['open'])
    ops.append(['adv', 6])
    for cc in (61, 62):
      sv['plan'][str(cc)] = r.choice([{'act': 'drop'}, {'act': 'drop'}, {'act': 'reply', 'delay': 1}, {'act': 'close', 'delay': 1}])
      ops.append(_req(r, cc, r.choice([4, 6, None]), 1, 0, False))
      ops.append(['adv', r.choice([4, 8, 12])])
  faults = []
  for _ in range(r.choice([0, 1, 1, 1, 2])):
    op = r.choice(['connect', 'send', 'recv', 'recv'])
    if op == 'connect':
      faults.append({'op': op, 'nth': r.choice([1, 2, 2, 3, 3, 4]), 'what': r.choice(CONNECT_FAULTS)})
    elif op == 'send':
      faults.append({'op': op, 'nth': r.choice([1, 2, 3]), 'what': r.choice(SEND_FAULTS)})
    else:
      faults.append({'op': op, 'nth': r.choice([1, 2, 3, 4, 5, 6, 8]), 'what': r.choice(RECV_FAULTS)})
  if any(o[0] == 'req' and len(o) > 6 and o[6] for o in ops):
    sv.pop('rx_chunk', None)          # (a 64 KiB echo in 1-byte pieces only costs time)
  ops.append(['adv', 20])
  ops.append(['req', 90, None, 1])
  ops.append(['adv', 8])
  return {'kind': 'serial', 'tie': r.choice(['fifo', 'lifo']), 'server': sv, 'faults': faults, 'ops': ops, 'seed': idx,
          'on_fault': r.choice(ON_FAULT)}


def _gen_mux(r, idx):
  sv = {'default': r.choice(MUX_PLANS), 'plan': {}, 'ping': r.choice([True, True, True, 1, 2, False])}
  if r.random() < 0.1:
    sv['connect_delay'] = 2
  if r.random() < 0.06:
    sv['reachable'] = False
  if r.random() < 0.15:
    sv['send_delay'] = r.choice([1, 3, 8])
  if r.random() < 0.15:
    sv['rx_chunk'] = r.choice(RX_CHUNKS)
  ops = []
  if r.random() < 0.05:
    ops.append(['req', 80, None, 1])
  ops.append(['open'])
  c = 0
  early = r.random() < 0.3
  if early:
    # requests handed over while Open() is still in progress (slow connect, opening ping unanswered / cut short)
    how = r.choice(['delay', 'delay', 'slowfail', 'slowok', 'silent', 'hangup'])
    if how == 'delay':
      sv['connect_delay'] = r.choice([2, 4])
    elif how in ('silent', 'hangup'):
      sv['ping'] = False
      sv['connect_delay'] = r.choice([0, 2])
    for _ in range(r.choice([1, 1, 2, 3])):
      c += 1
      ops.append(_req(r, c, None, 1, 1 if r.random() < 0.3 else 0, True))
      if r.random() < 0.3:
        ops.append(['adv', 1])
    if how == 'hangup':
      ops.append(['adv', r.choice([1, 3])])
      ops.append(['peer', r.choice(['close', 'reset'])])
    elif r.random() < 0.1:
      ops.append(['close'])
    ops.append(['adv', r.choice([2, 6, 6 * TPS])])
  else:
    how = None
  ops.append(['adv', r.choice([0, 4, 4])])
  for _ in range(r.choice([1, 1, 2, 3])):
    burst = r.choice([0, 1, 2, 3, 4])
    issued = []
    for b in range(burst):
      c += 1
      if r.random() < 0.3:
        sv['plan'][str(c)] = r.choice(MUX_PLANS)
      ev = 1 if r.random() < 0.4 else 0
      settle = 1 if (b == burst - 1 or r.random() < 0.4) else 0
      ops.append(_req(r, c, None, settle, ev, True))
      if ev:
        issued.append(c)
      if ev and r.random() < 0.3:
        ops.append(['expire', c])        # may fire while still queued (when the burst did not yield)
    for e in issued:
      if r.random() < 0.4:
        ops.append(['expire', e])
    x = r.random()
    if x < 0.12:
      ops.append(['peer', r.choice(['close', 'reset'])])
    elif x < 0.2:
      ops.append(['peer', 'junk', r.choice([0, 1, 2, 9])])
    elif x < 0.26:
      ops.append(['peer', 'rping'])
    elif x < 0.34:
      ops.append(['close'])
    elif x < 0.42:
      # degenerate frames, and two replies (for the tags 2 and 3) in one segment
      ops.append(['peer', 'raw', r.choice(['00000000', '00000002fe00', '00000004fe000000', 'ffffffff',
                                           '00000007fe000002000000' + '00000007fe000003000000',
                                           '00000007fe000003000000' + '00000004bf000001' + '00000007fe000002000000'])])
    if r.random() < 0.12:
      ops.append(['open'])               # a second Open(): the same result while open, a doomed second life once closed
      ops.append(['adv', r.choice([1, 6 * TPS])])
    ops.append(['adv', r.choice([1, 3, 8, 30])])
    if r.random() < 0.35:
      ops.append(['adv', r.choice([30 * TPS, 41 * TPS, 46 * TPS, 90 * TPS])])
  faults = []
  for _ in range(r.choice([0, 0, 1, 1, 1, 2])):
    op = r.choice(['connect', 'send', 'send', 'send', 'recv', 'recv', 'recv'])
    if op == 'connect':
      faults.append({'op': op, 'nth': 1, 'what': r.choice(CONNECT_FAULTS[:5])})
    elif op == 'send':
      faults.append({'op': op, 'nth': r.choice([1, 2, 3, 4, 5, 6, 8]), 'what': r.choice(SEND_FAULTS)})
    elif early and r.random() < 0.5:
      faults.append({'op': op, 'nth': r.choice([1, 2, 3]), 'what': r.choice(RECV_FAULTS)})
    else:
      faults.append({'op': op, 'nth': r.choice([1, 2, 3, 4, 5, 6, 7, 8, 9, 10, 12, 14]), 'what': r.choice(RECV_FAULTS)})
  if how == 'slowfail':
    faults = [f for f in faults if f['op'] != 'connect'] + [{'op': 'connect', 'nth': 1, 'what': ['slow', r.choice([2, 5]), 0]}]
  elif how == 'slowok':
    faults = [f for f in faults if f['op'] != 'connect'] + [{'op': 'connect', 'nth': 1, 'what': ['slow', r.choice([2, 5]), 1]}]
  if any(o[0] == 'req' and len(o) > 6 and o[6] for o in ops):
    sv.pop('rx_chunk', None)
  ops.append(['adv', 8])
  ops.append(['req', 90, None, 1])
  ops.append(['adv', 8])
  return {'kind': 'mux', 'tie': r.choice(['fifo', 'lifo']), 'server': sv, 'faults': faults, 'ops': ops, 'seed': idx,
          'draws': [r.randint(30, 40) for _ in range(6)],
          # (a second Open() from inside the fault notification would race the old ping helper's wake-up: not modelled)
          'on_fault': r.choice(ON_FAULT[:-1])}


def _grid_serial():
  """Exhaustive grid: base scripts x every I/O operation index x every fault kind x in-flight set."""
  out = []
  bases = []
  for inflight in (0, 1, 2, 3):          # 0: no request; 1: one; 2: second issued after the first yielded; 3: before
    for dl in (None, 6):
      for plan in ({'act': 'reply', 'delay': 1, 'chunks': [2, 2, 3]}, {'act': 'drop'}):
        ops = [['open']]
        if inflight >= 1:
          ops.append(['req', 1, dl, 0 if inflight == 3 else 1])
        if inflight >= 2:
          ops.append(['req', 2, None, 1])
        ops += [['adv', 10], ['req', 3, 6, 1], ['adv', 10], ['req', 90, None, 1], ['adv', 6]]
        bases.append((ops, plan))
  # a deadline that expires inside a slow / stalled write, then further requests on the same sink
  for inflight in (1, 2, 3):
    for dl, sd in ((6, 8), (4, 14), (6, 3), (None, 8)):
      for plan in ({'act': 'reply', 'delay': 1}, {'act': 'reply', 'delay': 0, 'chunks': [2, 2, 5]}, {'act': 'drop'}):
        ops = [['open'], ['req', 1, dl, 0 if inflight == 3 else 1]]
        if inflight >= 2:
          ops.append(['req', 2, None, 1])
        ops += [['adv', 16], ['req', 3, 5, 1], ['adv', 16], ['req', 4, None, 1], ['adv', 20], ['req', 90, None, 1], ['adv', 20]]
        out.append({'kind': 'serial', 'tie': 'fifo', 'server': {'default': plan, 'send_delay': sd}, 'faults': [],
                    'ops': [list(o) for o in ops], 'seed': 0, 'grid': True})
        for nth in (1, 2, 3):
          out.append({'kind': 'serial', 'tie': 'fifo', 'server': {'default': plan}, 'faults': [{'op': 'send', 'nth': nth, 'what': 'parthang'}],
                      'ops': [list(o) for o in ops], 'seed': 0, 'grid': True})
  # second incarnation: the first life ends with Close() / a connection failure, the sink is opened again, and then the
  # re-open itself, a write / read, or the re-connect after a deadline time-out fails; re-entrant failure callbacks
  for end in (['close'], ['peer', 'close']):
    for plan in ({'act': 'drop'}, {'act': 'reply', 'delay': 1}):
      for onfail in (None, 'retry', 'close'):
        ops = [['open'], ['req', 1, None, 1], ['adv', 3], list(end), ['req', 2, None, 1], ['adv', 3], ['open'], ['adv', 3],
               ['req', 3, 6, 1, 0, onfail], ['req', 4, None, 1], ['adv', 10], ['req', 5, 5, 1, 0, onfail], ['adv', 10],
               ['req', 90, None, 1], ['adv', 6]]
        for f in ([], [{'op': 'connect', 'nth': 2, 'what': 'refuse'}], [{'op': 'connect', 'nth': 3, 'what': 'refuse'}],
                  [{'op': 'connect', 'nth': 3, 'what': ['slow', 6, 0]}], [{'op': 'connect', 'nth': 4, 'what': 'refuse'}],
                  [{'op': 'recv', 'nth': 3, 'what': 'eof'}], [{'op': 'send', 'nth': 2, 'what': 'exc'}],
                  [{'op': 'send', 'nth': 3, 'what': 'exc'}], [{'op': 'recv', 'nth': 5, 'what': 'exc'}]):
          out.append({'kind': 'serial', 'tie': 'fifo', 'server': {'default': plan, 'plan': {'1': {'act': 'reply', 'delay': 1}}},
                      'faults': f, 'ops': [list(o) for o in ops], 'seed': 0, 'grid': True})
  for ops, plan in bases:
    for op, nths, kinds in (('connect', (1, 2, 3), CONNECT_FAULTS), ('send', (1, 2, 3), SEND_FAULTS),
                            ('recv', (1, 2, 3, 4, 5, 6, 7), RECV_FAULTS)):
      for nth in nths:
        for what in kinds:
          out.append({'kind': 'serial', 'tie': 'fifo', 'server': {'default': plan}, 'faults': [{'op': op, 'nth': nth, 'what': what}],
                      'ops': [list(o) for o in ops], 'seed': 0, 'grid': True})
  return out


def _grid_mux():
  out = []
  bases = []
  for n in (0, 1, 2, 4):
    for mode in ('written', 'queued', 'expired'):
      ops = [['open']]
      for c in range(1, n + 1):
        last = c == n
        if mode == 'written':
          ops.append(['req', c, None, 1, 1 if c == 1 else 0])
        else:
          ops.append(['req', c, None, 1 if last else 0, 1 if c <= 2 else 0])
          if mode == 'expired' and c == 1:
            ops.append(['expire', 1])
      if mode == 'expired' and n >= 2:
        ops.append(['expire', 2])
      ops += [['adv', 6], ['req', 50, None, 1], ['adv', 46 * TPS], ['req', 90, None, 1], ['adv', 4]]
      bases.append(ops)
      if n >= 1 and mode != 'expired':
        for onfail in ('retry', 'close'):
          o2 = [list(o) for o in ops]
          for o in o2:
            if o[0] == 'req' and o[1] in (1, 2):
              while len(o) < 5:
                o.append(1 if len(o) == 3 else 0)
              o.append(onfail)
          bases.append(o2)
  # requests handed over between the start of Open() and its completion, for every way the open can end
  kinds = [('refused-slow', {'ping': True}, [{'op': 'connect', 'nth': 1, 'what': ['slow', 3, 0]}], []),
           ('ok-slow', {'ping': True}, [{'op': 'connect', 'nth': 1, 'what': ['slow', 3, 1]}], []),
           ('ok-delay', {'ping': True, 'connect_delay': 3}, [], []),
           ('eof-before-rping', {'ping': True, 'connect_delay': 2}, [{'op': 'recv', 'nth': 1, 'what': 'eof'}], []),
           ('exc-in-rping', {'ping': True, 'connect_delay': 2}, [{'op': 'recv', 'nth': 2, 'what': 'exc'}], []),
           ('eof-after-rping', {'ping': True, 'connect_delay': 2}, [{'op': 'recv', 'nth': 3, 'what': 'eof'}], []),
           ('ping-write-fails', {'ping': True, 'connect_delay': 2}, [{'op': 'send', 'nth': 1, 'what': 'exc'}], []),
           ('silent-peer', {'ping': False}, [], []),
           ('peer-hangs-up', {'ping': False}, [], [['adv', 2], ['peer', 'close']]),
           ('peer-resets', {'ping': False, 'connect_delay': 1}, [], [['adv', 3], ['peer', 'reset']]),
           ('owner-closes', {'ping': False}, [], [['adv', 2], ['close']])]
  for name, sv, faults, extra in kinds:
    for n in (1, 2, 3):
      for onfail in (None, 'retry', 'close'):
        for gap in (0, 1):
          ops = [['open']]
          for c in range(1, n + 1):
            ops.append(['req', c, None, 1, 1 if c == 2 else 0, onfail if c == 1 else None])
            if gap:
              ops.append(['adv', 1])
          ops += [list(o) for o in extra]
          ops += [['adv', 6 * TPS], ['req', 50, None, 1], ['adv', 4], ['req', 90, None, 1], ['adv', 4]]
          d = dict(sv)
          d['default'] = {'act': 'reply', 'delay': 1}
          out.append({'kind': 'mux', 'tie': 'fifo', 'server': d, 'faults': [dict(f) for f in faults], 'ops': ops, 'seed': 0,
                      'draws': [30, 40], 'grid': True, 'open_ends': name})
  for ops in bases:
    for plan in ({'act': 'reply', 'delay': 2}, {'act': 'drop'}):
      for ping in (True, 1):
        for op, nths, kinds in (('connect', (1,), CONNECT_FAULTS[:5]), ('send', (1, 2, 3, 4), SEND_FAULTS),
                                ('recv', (1, 2, 3, 4, 5, 6), RECV_FAULTS)):
          for nth in nths:
            for what in kinds:
              out.append({'kind': 'mux', 'tie': 'fifo', 'server': {'default': plan, 'ping': ping},
                          'faults': [{'op': op, 'nth': nth, 'what': what}], 'ops': [list(o) for o in ops], 'seed': 0,
                          'draws': [30, 40, 35], 'grid': True})
  return out


def _gen_long(r, idx, mux):
  """one long-lived transport re-used for many operations (state that is not reset on some path shows up late)"""
  ops = [['open'], ['adv', 2]]
  sv = {'default': {'act': 'reply', 'delay': 1}, 'plan': {}}
  c = 0
  if mux:
    sv['ping'] = True
    for _ in range(r.choice([8, 12])):
      for b in range(r.choice([1, 2, 4])):
        c += 1
        if r.random() < 0.15:
          sv['plan'][str(c)] = r.choice([{'act': 'drop'}, {'act': 'dup', 'delay': 1}, {'act': 'rerr', 'delay': 1}, {'act': 'reply', 'delay': 3}])
        ev = 1 if r.random() < 0.25 else 0
        ops.append(['req', c, None, 1 if b else 0, ev, None, 0, 'next' if r.random() < 0.1 else None])
        if ev and r.random() < 0.5:
          ops.append(['expire', c])
      ops.append(['adv', r.choice([2, 6, 20 * TPS, 35 * TPS])])
    if r.random() < 0.5:
      ops.append(['peer', r.choice(['close', 'reset'])])
      ops.append(['adv', 4])
  else:
    for _ in range(r.choice([25, 40])):
      c += 1
      x = r.random()
      if x < 0.15:
        sv['plan'][str(c)] = {'act': 'drop'}
        ops.append(['req', c, r.choice([3, 5]), 1])           # times out: the connection is replaced
        ops.append(['adv', 8])
      elif x < 0.2:
        ops.append(['req', c, 0, 1])                          # already expired
        ops.append(['adv', 2])
      else:
        ops.append(['req', c, r.choice([None, 8, 8]), 1, 0, None, 0, 'next' if r.random() < 0.1 else None])
        if r.random() < 0.1:
          c += 1
          ops.append(['req', c, None, 1])                     # while the previous one is in flight
        ops.append(['adv', r.choice([2, 3])])
    if r.random() < 0.5:
      ops.append(['peer', r.choice(['close', 'reset'])])
      c += 1
      ops.append(['req', c, None, 1])
      ops.append(['adv', 4])
  ops += [['req', 90, None, 1], ['adv', 8]]
  d = {'kind': 'mux' if mux else 'serial', 'tie': r.choice(['fifo', 'lifo']), 'server': sv, 'faults': [], 'ops': ops, 'seed': idx,
       'long': True}
  if mux:
    d['draws'] = [r.randint(30, 40) for _ in range(12)]
  return d


def _grid_edges():
  """events exactly AT a threshold, in both same-instant orders; degenerate frames; a doomed second life"""
  out = []
  for tie in ('fifo', 'lifo'):
    # serial: the reply arrives one tick before / exactly at / one tick after the deadline
    for dl in (4, 6):
      for delay in (dl - 1, dl, dl + 1):
        for chunks in (None, [2, 2, 3]):
          plan = {'act': 'reply', 'delay': delay}
          if chunks:
            plan['chunks'] = chunks
          out.append({'kind': 'serial', 'tie': tie, 'server': {'default': plan}, 'faults': [],
                      'ops': [['open'], ['req', 1, dl, 1], ['req', 2, None, 1], ['adv', dl + 4], ['req', 3, dl, 1, 0, 'retry'],
                              ['adv', dl + 4], ['req', 90, None, 1], ['adv', dl + 4]], 'seed': 0, 'grid': True})
    # mux: the Rping arrives one tick before / exactly at / one tick after the 5 s ping time-out (opening ping and loop ping)
    for off in (-1, 0, 1):
      out.append({'kind': 'mux', 'tie': tie, 'server': {'default': {'act': 'reply', 'delay': 1}, 'ping': False}, 'faults': [],
                  'ops': [['open'], ['peer_at', PING_TO + off, 'rping'], ['req', 1, None, 1], ['adv', PING_TO + 8],
                          ['req', 2, None, 1], ['adv', 8]], 'seed': 0, 'draws': [30, 30], 'grid': True})
      out.append({'kind': 'mux', 'tie': tie, 'server': {'default': {'act': 'drop'}, 'ping': 1}, 'faults': [],
                  'ops': [['open'], ['req', 1, None, 1], ['adv', 30 * TPS - 2], ['peer_at', 2 + PING_TO + off, 'rping'],
                          ['adv', PING_TO + 12], ['req', 2, None, 1], ['adv', 8]], 'seed': 0, 'draws': [30, 30], 'grid': True})
    # a request issued at the very instant the ping loop wakes up / the time-out fires
    out.append({'kind': 'mux', 'tie': tie, 'server': {'default': {'act': 'reply', 'delay': 1}, 'ping': 1}, 'faults': [],
                'ops': [['open'], ['adv', 30 * TPS], ['req', 1, None, 1], ['adv', PING_TO], ['req', 2, None, 1], ['adv', 8]],
                'seed': 0, 'draws': [30, 30], 'grid': True})
  # degenerate frames from the peer
  for raw in ('00000000', 'ffffffff', '80000000', '0000', '00000001'):
    for when in ('idle', 'inflight'):
      ops = [['open']]
      if when == 'inflight':
        ops.append(['req', 1, 12, 1])
      ops += [['peer', 'raw', raw], ['adv', 16], ['req', 2, None, 1], ['adv', 8]]
      out.append({'kind': 'serial', 'tie': 'fifo', 'server': {'default': {'act': 'drop'}, 'plan': {'2': {'act': 'reply', 'delay': 1}}},
                  'faults': [], 'ops': ops, 'seed': 0, 'grid': True})
  for raw in ('00000000', '00000002fe00', '00000004fe000000', 'ffffffff', '00000004fe000002',
              '00000007fe000002000000' + '00000007fe000003000000', '00000007fe000003000000' + '00000004bf000001' + '00000007fe000002000000'):
    for chunk in (None, 1):
      sv = {'default': {'act': 'drop'}, 'ping': True}
      if chunk:
        sv['rx_chunk'] = chunk
      out.append({'kind': 'mux', 'tie': 'fifo', 'server': sv, 'faults': [],
                  'ops': [['open'], ['req', 1, None, 1], ['req', 2, None, 1], ['peer', 'raw', raw], ['adv', 4], ['req', 3, None, 1],
                          ['adv', 4]], 'seed': 0, 'draws': [30], 'grid': True})
  # mux: Open() again - while open (same result), after Close(), after a failure (a doomed second life), with requests meanwhile
  for end in (None, ['close'], ['peer', 'close'], ['peer', 'reset']):
    for during in (0, 1):
      ops = [['open'], ['req', 1, None, 1]]
      if end:
        ops += [list(end), ['adv', 2]]
      ops.append(['open'])
      if during:
        ops += [['adv', 2], ['req', 2, None, 1, 0, 'retry']]
      ops += [['adv', 6 * TPS], ['req', 3, None, 1], ['adv', 4], ['open'], ['adv', 6 * TPS], ['req', 90, None, 1], ['adv', 4]]
      out.append({'kind': 'mux', 'tie': 'fifo', 'server': {'default': {'act': 'drop'}, 'ping': True}, 'faults': [], 'ops': ops, 'seed': 0,
                  'draws': [30, 30], 'grid': True})
  # large payloads, slow writes
  for pad in PADS:
    for sd in (0, 3):
      out.append({'kind': 'serial', 'tie': 'fifo', 'server': {'default': {'act': 'reply', 'delay': 1}, 'send_delay': sd}, 'faults': [],
                  'ops': [['open'], ['req', 1, None, 1, 0, None, pad], ['adv', 8], ['req', 2, 2, 1, 0, None, pad], ['adv', 8],
                          ['req', 90, None, 1], ['adv', 8]], 'seed': 0, 'grid': True})
      out.append({'kind': 'mux', 'tie': 'fifo', 'server': {'default': {'act': 'reply', 'delay': 1}, 'ping': True, 'send_delay': sd}, 'faults': [],
                  'ops': [['open'], ['adv', 8], ['req', 1, None, 0, 0, None, pad], ['req', 2, None, 1], ['adv', 8], ['req', 90, None, 1], ['adv', 8]],
                  'seed': 0, 'draws': [30], 'grid': True})
  return out


def _gen_twin(r, idx):
  """two transport instances of the same class in one process (class / module level state must not leak between them)"""
  proto = r.choice(['mux', 'serial'])
  ops = [['open', 0], ['open', 1], ['adv', 2]]
  c = [0, 500]
  disturbed = r.choice([0, 0, 1])
  for _ in range(r.choice([2, 3, 5])):
    i = r.choice([0, 1])
    c[i] += 1
    ops.append(['req', i, c[i]])
    if proto == 'mux' and r.random() < 0.5:
      c[i] += 1
      ops.append(['req', i, c[i]])
    ops.append(['adv', r.choice([1, 3])])
  ops.append(r.choice([['peer', disturbed, 'close'], ['peer', disturbed, 'reset'], ['close', disturbed]]))
  ops.append(['adv', 3])
  for i in (0, 1):
    c[i] += 1
    ops.append(['req', i, c[i]])
    ops.append(['adv', 3])
  if proto == 'mux' and r.random() < 0.5:
    ops.append(['adv', 46 * TPS])
    c[1 - disturbed] += 1
    ops.append(['req', 1 - disturbed, c[1 - disturbed]])
    ops.append(['adv', 3])
  return {'kind': 'twin', 'proto': proto, 'disturbed': disturbed, 'ops': ops, 'seed': idx}


def gen_cases(tier, seed):
  quick = tier == 'quick'
  out = []
  for i in range(450 if quick else 8000):
    out.append(_gen_serial(C.case_rng(seed, PID + 'ser', i), i))
  for i in range(450 if quick else 8000):
    out.append(_gen_mux(C.case_rng(seed, PID + 'mux', i), i))
  for i in range(6 if quick else 60):
    out.append(_gen_long(C.case_rng(seed, PID + 'long', i), i, i % 2 == 0))
  for i in range(30 if quick else 300):
    out.append(_gen_twin(C.case_rng(seed, PID + 'twin', i), i))
  gs, gm, ge = _grid_serial(), _grid_mux(), _grid_edges()
  if quick:
    r = C.case_rng(seed, PID + 'grid', 0)
    out += r.sample(gs, 150) + r.sample(gm, 150) + r.sample(ge, 60)
  else:
    out += gs + gm + ge
  return out


def search_cases(tier, seed, diverging):
  out = []
  for i in range(600):
    out.append(_gen_serial(C.case_rng(seed + 15485863, PID + 'ser', i), i))
    out.append(_gen_mux(C.case_rng(seed + 15485863, PID + 'mux', i), i))
  return out


# ---------------------------------------------------------------------------------------------
# monitor: the property statement on the event log
# ---------------------------------------------------------------------------------------------
ERR_KINDS = ('err', 'timeout', 'clienterr')
IO_FAIL = {('connect', 'refused'), ('connect', 'exc'), ('connect', 'timedout'),
           ('send', 'exc'), ('send', 'reset'),
           ('recv', 'exc'), ('recv', 'reset'), ('recv', 'eof'), ('recv', 'eof-injected')}


def _flatten(obs):
  """[(slice index, event)] in log order."""
  out = []
  for k, s in enumerate(obs['slices']):
    for e in s['ev']:
      out.append((k, e))
  return out


def monitor_twin(case, obs):
  """two instances: what happens to one must not be visible on the other; every call gets exactly one message"""
  v = []
  d = case['disturbed']
  posts = collections.defaultdict(list)
  for e in obs['ev']:
    if e[0] == 'post':
      posts[e[1]].append(e[2])
  for c, inst in obs['calls']:
    got = posts.get(c, [])
    if len(got) > 1:
      v.append(('delivered-twice', 'call %s (instance %d) got %d messages: %s' % (c, inst, len(got), got)))
    if inst != d and got != ['reply']:
      v.append(('twin-instance-disturbed', 'instance %d was never touched, yet its call %s got %s (instance %d was closed / lost '
                'its connection)' % (inst, c, got or 'nothing', d)))
    if inst == d and not got and not any(o[0] == 'close' for o in case['ops']):
      v.append(('in-flight-request-not-failed', 'call %s on instance %d never got a message' % (c, inst)))
  if obs['faults'][1 - d]:
    v.append(('twin-instance-disturbed', 'the untouched instance %d raised its fault signal' % (1 - d)))
  if obs['states'][1 - d] != 'Open':
    v.append(('twin-instance-disturbed', 'the untouched instance %d reports %s' % (1 - d, obs['states'][1 - d])))
  if obs['states'][d] != 'Closed':
    v.append(('reports-open-after-failure', 'instance %d lost its connection / was closed but reports %s' % (d, obs['states'][d])))
  if obs['faults'][d] > 1:
    v.append(('fault-signal-twice', 'instance %d raised its fault signal %d times' % (d, obs['faults'][d])))
  return v


def monitor(case, obs):
  if case['kind'] == 'twin':
    return monitor_twin(case, obs)
  v = []
  mux = case['kind'] == 'mux'
  sl = obs['slices']
  flat = _flatten(obs)
  # ---- bookkeeping: calls, posts, acceptance
  req_pos = {}
  req_dl = {}
  blocked = set()
  posts = collections.defaultdict(list)       # c -> [(pos, slice, kind)]
  rejected = set()
  expired_at = {}
  cur = None
  for p, (k, e) in enumerate(flat):
    if e[0] == 'api' and e[1] == 'req':
      cur = e[2]
      req_pos[cur] = (p, k)
      req_dl[cur] = e[3] if len(e) > 3 else None
      if len(e) > 4 and e[4] == 'blocked':
        blocked.add(cur)           # handed over while Open() was in progress: in flight from now on
    elif e[0] == 'api' and e[1] == 'req-ret':
      cur = None
    elif e[0] == 'api' and e[1] == 'expire':
      expired_at[e[2]] = p
    elif e[0] == 'post':
      posts[e[1]].append((p, k, e[2]))
      if e[2] in ('conc', 'notopen') and e[1] not in blocked:
        rejected.add(e[1])
      if e[2] == 'value':
        v.append(('unexpected-message', 'call %s got a non-error message object from the transport' % e[1]))
    elif e[0] == 'raise':
      v.append(('request-raised', 'AsyncProcessRequest raised %s for call %s' % (e[2], e[1])))
      rejected.add(e[1])
  # ---- exactly-once, part 1: never more than one message per call
  for c, ps in posts.items():
    if len(ps) > 1:
      v.append(('delivered-twice', 'call %s got %d messages from the transport: %s' % (c, len(ps), [x[2] for x in ps])))
  closes = [p for p, (k, e) in enumerate(flat) if e[0] == 'api' and e[1] == 'close']

  def inflight_at(p):
    out = []
    for c, (rp, _k) in req_pos.items():
      if rp >= p or c in rejected:
        continue
      if any(pp < p for (pp, _kk, _kind) in posts.get(c, [])):
        continue
      if any(rp < cp < p for cp in closes):
        continue                   # the owner closed the transport with the call in flight: not a connection failure
      out.append(c)
    return out

  # ---- connection failures: ground truth from the fake network
  failures = []        # (pos, slice, text)
  for p, (k, e) in enumerate(flat):
    if e[0] == 'io' and len(e) > 2 and (e[1], e[2]) in IO_FAIL:
      failures.append((p, k, '%s %s' % (e[1], e[2])))
  if mux:
    # a ping queued at t that the peer did not answer by t + 5 s
    for p, (k, e) in enumerate(flat):
      if e[0] == 'q' and e[1] == 'put' and e[2] == 65:
        if any(cp < p for cp in closes) or (k > 0 and sl[k - 1]['state'] == 'Closed') or \
            any(x[0] == 'w' and x[1] == 'close' for _kk, x in flat[:p]):
          continue                 # queued by a transport that was already closed: nothing left to detect
        t = sl[k]['t']
        answered = False
        other = False
        for q in range(p + 1, len(flat)):
          k2, e2 = flat[q]
          if sl[k2]['t'] > t + PING_TO:
            break
          if e2[0] == 'w' and e2[1] == 'read-end' and e2[2] == 'ok' and len(e2) > 3 and e2[3].startswith('bf000001'):
            answered = True
            break
          if (e2[0] == 'io' and len(e2) > 2 and (e2[1], e2[2]) in IO_FAIL) or (e2[0] == 'api' and e2[1] == 'close') or \
              (e2[0] == 'w' and e2[1] == 'close' and sl[k2]['t'] < t + PING_TO):
            other = True       # something else (a failure, a protocol error, the owner) shut the transport down first
            break
        if answered or other or obs['end'] < t + PING_TO:
          continue
        # the first slice at time t + 5 s
        ks = [j for j in range(len(sl)) if sl[j]['t'] >= t + PING_TO]
        if not ks:
          continue
        j = ks[0]
        early = [i for i in range(k, j) if sl[i]['state'] == 'Closed' and sl[i]['t'] < t + PING_TO]
        if sl[j]['t'] == t + PING_TO:
          pos = next((q for q, (kk, _e) in enumerate(flat) if kk >= j), len(flat))
          failures.append((pos, j, 'ping queued at tick %s unanswered for 5 s' % t))
        else:
          v.append(('ping-timeout-missed', 'ping queued at tick %s was not answered; nothing happened at tick %s' % (t, t + PING_TO)))
        if early:
          v.append(('ping-timeout-early', 'transport closed at tick %s although the ping of tick %s had 5 s' % (sl[early[0]]['t'], t)))
  failures.sort()
  # ThriftMux: a shutdown while _OpenImpl waits for the first Rping whose frame was already read: the late ar.set() of
  # _OnPingResponse overrides the shutdown's exception, _OpenImpl completes and sets _state = Open on the dead transport
  race = None
  if mux:
    for (p, k, what) in failures:
      in_open = any(e[0] == 'api' and e[1] == 'open' for e in sl[k]['ev']) or \
          (k > 0 and sl[k - 1]['open'] and sl[k - 1]['open'][-1] == 'pending')
      if in_open and any(sl[j]['state'] == 'Open' for j in range(k, len(sl))):
        race = (k, what)
        break
  for (p, k, what) in failures:
    end = sl[k]
    need = inflight_at(p)
    for c in need:
      if mux and c in expired_at and expired_at[c] < p:
        continue                   # timed out above the transport: at most one message (checked above)
      got = [x for x in posts.get(c, []) if x[1] <= k]
      if not got:
        v.append(('in-flight-request-not-failed', 'connection failure (%s) with call %s in flight: the call got no message (state %s)'
                  % (what, c, end['state'])))
      elif got[0][2] not in ERR_KINDS and not (c in blocked and got[0][2] == 'notopen'):
        v.append(('in-flight-request-not-failed', 'connection failure (%s) with call %s in flight: it got %s' % (what, c, got[0][2])))
    later_ok = any(e[0] == 'io' and e[1] in ('connect', 'connect-begin') and (e[1] == 'connect-begin' or e[2] == 'ok') and pp > p and kk <= k
                   for pp, (kk, e) in enumerate(flat))     # a new connection (attempt) exists by the end of the slice
    if end['state'] != 'Closed' and not later_ok:
      v.append(('reports-open-after-failure', 'connection failure (%s): transport reports %s' % (what, end['state'])))
  # ---- fault signal: at most once per connection; raised when a connection of this incarnation failed
  fl = set(p for (p, _k, _w) in failures)
  per_conn = 0
  inc_fail = inc_faults = 0
  inc_closed = False
  inc_no = 1
  established = True       # the first incarnation must signal even a refused first connect (the pool relies on it);
                           # a re-opened one once its own connect succeeded (a failed re-Open is reported by its result)

  def end_inc():
    if inc_fail and not inc_faults:
      v.append(('fault-signal-missing', 'a connection failure happened in incarnation %d of the transport but on_faulted was '
                'never notified' % inc_no))

  def effective_open(p):
    for q in range(p + 1, len(flat)):
      x = flat[q][1]
      if x[0] == 'run' and x[1] == '_SafeLinkHelper':
        return True
      if x[0] == 'api' and x[1] == 'open':
        return False
    return False
  first_open = True
  consumed = set()
  open_greenlet_starting = False
  opens_running = []
  for p, (k, e) in enumerate(flat):
    if e[0] == 'api' and e[1] == 'open' and effective_open(p):
      if first_open:
        first_open = False
      else:
        if inc_fail and not inc_faults:
          # the notification is delivered asynchronously: a re-open from inside the failure callback comes first
          q = next((qq for qq in range(p + 1, len(flat)) if flat[qq][0] == k and flat[qq][1][0] == 'fault'), None)
          if q is not None:
            consumed.add(q)
            inc_faults += 1
        end_inc()
        inc_fail = inc_faults = 0
        inc_closed = False
        inc_no += 1
        established = False
    # whose socket.open() is this: the _OpenImpl greenlet's (it starts right after '_SafeLinkHelper' runs) or the time-out
    # handler's re-connect?  Only a successful connect of the incarnation's OWN Open() establishes it: that is what sets
    # _state = Open.  A re-connect by the time-out handler of an (out of contract) request on a sink whose Open() failed
    # makes the socket usable again but leaves _state Closed, and the model (C08_serial_fail_once: no Faulted when the
    # transport already reported Closed before the failing re-connect) says no further signal is owed.
    if e[0] == 'run' and e[1] == '_SafeLinkHelper':
      open_greenlet_starting = True
    if e[0] == 'w' and e[1] == 'open-begin':
      opens_running.append('open' if open_greenlet_starting else 'txn')
      open_greenlet_starting = False
    if e[0] == 'w' and e[1] == 'open-end':
      who = opens_running.pop(0) if opens_running else 'txn'
      if e[2] == 'ok' and who == 'open':
        established = True
    if e[0] == 'io' and e[1] == 'connect-begin':
      per_conn = 0
    if p in fl and not inc_closed and established:
      inc_fail += 1
    if e[0] == 'fault' and p not in consumed:
      inc_faults += 1
      per_conn += 1
      if per_conn == 2:
        v.append(('fault-signal-twice', 'on_faulted was notified twice for one connection'))
    if e[0] == 'api' and e[1] == 'close':
      inc_closed = True
  end_inc()
  # ---- reported open and idle => the next request is carried
  for c, (rp, k) in req_pos.items():
    if k == 0:
      continue
    prev = sl[k - 1]
    if prev['state'] != 'Open' or (prev['open'] and prev['open'][-1] == 'pending'):
      continue
    if not mux and inflight_at(rp):
      continue
    if any(kk == k and pp < rp and ((x[0] == 'io' and len(x) > 2 and (x[1], x[2]) in IO_FAIL) or (x[0] == 'w' and x[1] == 'close')
                                    or (x[0] == 'api' and x[1] == 'close'))
           for pp, (kk, x) in enumerate(flat) if kk == k):
      continue                     # issued from inside a failure callback: the transport no longer claims to be open
    if req_dl.get(c) is not None and req_dl[c] <= 0:
      continue                     # its deadline had already passed: it is answered with a time-out, not carried
    if not mux and [x for x in req_pos if req_pos[x][0] < rp and x not in rejected and not posts.get(x)]:
      continue                     # a call killed by Close() earlier never answers: the transport was not idle by our accounting
    # what happened to the request's bytes: the peer must decode exactly this request (a well-formed frame carrying
    # this call's payload), not merely receive some bytes
    written = False
    excused = False
    ahead = None
    taken = False

    def cur_is_mine(q):
      # the put between this request's 'req' and 'req-ret' markers
      for qq in range(q, rp - 1, -1):
        x = flat[qq][1]
        if x[0] == 'api' and x[1] == 'req':
          return x[2] == c
        if x[0] == 'api' and x[1] == 'req-ret':
          return False
      return False
    peer_gone = False
    last_send_gone = False
    saw_part = False
    for q in range(rp, len(flat)):
      k2, e2 = flat[q]
      if e2[0] == 'io' and e2[1] == 'send':
        if e2[2] == 'ok':
          last_send_gone = len(e2) > 4
          if not mux:
            written = True
            peer_gone = last_send_gone
            break
        elif e2[2] == 'part':
          saw_part = True
        elif e2[2] in ('exc', 'reset', 'hang', 'closed'):
          excused = True
          break
      if mux and e2[0] == 'q' and e2[1] == 'put' and e2[2] == 2 and ahead is None and cur_is_mine(q):
        ahead = sum(1 for _kk, x in flat[:q] if x[0] == 'q' and x[1] == 'put') - \
            sum(1 for _kk, x in flat[:q] if x[0] == 'q' and x[1] == 'get')
      elif mux and e2[0] == 'q' and e2[1] == 'get' and ahead is not None and not taken:
        if ahead == 0:
          taken = True             # the send loop took this request's frame
        else:
          ahead -= 1
      if mux and taken and e2[0] == 'w' and e2[1] == 'write-end':
        if e2[2] == 'ok':
          written = True
          peer_gone = last_send_gone
        else:
          excused = True
        break
      if not mux and e2[0] == 'w' and e2[1] == 'write-end' and e2[2] == 'VTimeout':
        excused = True             # its own deadline passed inside the (slow) write: answered with a time-out
        break
      if e2[0] == 'io' and len(e2) > 2 and (e2[1], e2[2]) in IO_FAIL:
        excused = True
        break
      if e2[0] == 'api' and e2[1] in ('close', 'expire'):
        excused = True
        break
      if mux and e2[0] == 'arwait' and e2[1] is False:
        excused = True
        break
    if excused or (written and peer_gone):
      continue                     # (the peer had closed: the write succeeds locally, the failure shows on the next read)
    if mux and any(e[0] == 'io' and e[1] == 'send' and e[2] in ('hang', 'part') for _k, e in flat[:rp]) and not written:
      continue                     # the peer stopped reading: silence, detected by the ping
    if not written and saw_part:
      continue                     # still inside a slow write when the history ends
    seen = any(str(r[1]) == str(c) for r in obs.get('requests', []))
    if not written:
      got = [x[2] for x in posts.get(c, [])]
      v.append(('open-idle-but-unusable', 'transport reported Open%s, request %s was not carried (got %s)'
                % ('' if mux else ' and idle', c, got or 'nothing')))
    elif not seen:
      v.append(('open-idle-but-unusable', 'transport reported Open%s, request %s was written but the peer never received it as a '
                'well-formed request (peer saw requests %s, malformed frames %s)'
                % ('' if mux else ' and idle', c, [r[1] for r in obs.get('requests', [])][-4:], (obs.get('malformed') or [])[-2:])))
  if mux and sl and sl[-1]['state'] == 'Closed' and not closes and failures:
    # the connection failed and the transport ended up closed: nobody who handed it a request may be left without an answer
    for c, (rp, _k) in req_pos.items():
      if c in rejected or c in expired_at or posts.get(c):
        continue
      if any(x[0] == 'api' and x[1] == 'req-ret' and x[2] == c for _kk, x in flat) or c in blocked:
        v.append(('in-flight-request-not-failed', 'the transport is closed after a connection failure (%s) but request %s%s never '
                  'got a message' % (failures[0][2], c, ' (handed over while Open() was in progress)' if c in blocked else '')))
  if mux:
    # a reply frame the transport read for tag t completes the request holding t (unless the connection fails / is
    # closed before the frame is processed: then that request gets the shutdown's error instead)
    holder = {}
    curq = None
    body = False
    for p, (k, e) in enumerate(flat):
      if e[0] == 'api' and e[1] in ('req', 'req-resume'):
        curq = None if (e[1] == 'req' and len(e) > 4 and e[4] == 'blocked') else e[2]
      elif e[0] == 'api' and e[1] == 'req-ret':
        curq = None
      elif e[0] == 'q' and e[1] == 'put' and e[2] == 2:
        cq = curq
        if cq is None:
          cq = next((x[2] for _kk, x in flat[p + 1:] if x[0] == 'api' and x[1] == 'req-ret'), None)
        if cq is not None:
          holder[e[3]] = cq
      elif e[0] == 'w' and e[1] == 'open-end' and e[2] == 'ok':
        body = False
      elif e[0] == 'w' and e[1] == 'read-end' and e[2] == 'ok':
        if body and len(e) > 3 and len(e[3]) >= 8:
          ty, tag = int(e[3][0:2], 16), int(e[3][2:8], 16)
          c = holder.get(tag)
          if ty in (0xfe, 0x80) and tag >= 2 and c is not None and c not in expired_at and c not in rejected \
              and not any(pp < p for (pp, _kk, _kd) in posts.get(c, [])):
            later = [x for x in posts.get(c, []) if x[0] > p and x[1] == k]
            broke = any(kk == k and pp > p and ((x[0] == 'io' and len(x) > 2 and (x[1], x[2]) in IO_FAIL) or
                                                (x[0] == 'w' and x[1] == 'close') or (x[0] == 'arwait' and x[1] is False))
                        for pp, (kk, x) in enumerate(flat) if kk == k)
            if not later and not broke:
              v.append(('reply-not-delivered', 'the transport read a reply frame for tag %d held by request %s but the request '
                        'was not completed' % (tag, c)))
            elif later and later[0][2] != 'reply' and not broke:
              v.append(('reply-not-delivered', 'the transport read a reply frame for tag %d held by request %s, which got %s'
                        % (tag, c, later[0][2])))
        body = not body
  if mux:
    # a request on a closed transport is refused with exactly one message
    for c, (rp, k) in req_pos.items():
      if k > 0 and sl[k - 1]['state'] == 'Closed':
        got = [x[2] for x in posts.get(c, []) if x[1] == k]
        if got != ['notopen']:
          v.append(('closed-transport-accepts-request', 'request %s on a closed mux transport got %s' % (c, got)))
    # ping cadence
    opened = [sl[k]['t'] for k in range(len(sl)) if sl[k]['state'] == 'Open' and (k == 0 or sl[k - 1]['state'] != 'Open')]
    loop_pings = []
    first = True
    for k, e in flat:
      if e[0] == 'w' and e[1] == 'close':
        break                      # what a closed transport queues in a second life is never sent
      if e[0] == 'q' and e[1] == 'put' and e[2] == 65:
        if first:
          first = False
          continue
        loop_pings.append(sl[k]['t'])
    if opened:
      pts = [opened[0]] + loop_pings
      for a, b in zip(pts, pts[1:]):
        if not (30 * TPS <= b - a <= 40 * TPS):
          v.append(('ping-interval', 'pings at ticks %s and %s are %.2f s apart' % (a, b, (b - a) / float(TPS))))
      closed_at = [sl[k]['t'] for k in range(len(sl)) if sl[k]['state'] == 'Closed']
      horizon = closed_at[0] if closed_at else obs['end']
      if horizon - pts[-1] > 40 * TPS:
        v.append(('ping-overdue', 'open since/last ping at tick %s, no ping by tick %s' % (pts[-1], horizon)))
  if race is not None:
    dependent = ('reports-open-after-failure', 'fault-signal-twice', 'open-idle-but-unusable', 'ping-interval', 'ping-overdue')
    v = [x for x in v if x[0] not in dependent]
    v.append(('mux/open-after-shutdown-during-initial-ping',
              'connection failure (%s) while Open() waited for the first Rping: the transport was shut down (fault raised) '
              'and then reported Open again with dead send/receive loops; requests are accepted and never sent until the '
              'next ping times out' % race[1]))
  return v


def _tag_of(flat, rp):
  for q in range(rp, len(flat)):
    e = flat[q][1]
    if e[0] == 'q' and e[1] == 'put' and e[2] == 2:
      return e[3]
    if e[0] == 'api' and e[1] == 'req-ret':
      break
  return None


# ---------------------------------------------------------------------------------------------
# model labels
# ---------------------------------------------------------------------------------------------
S_KIND = {'reply': 'Serial.KReply', 'err': 'Serial.KErr', 'timeout': 'Serial.KTimeout', 'conc': 'Serial.KConc',
          'clienterr': 'Serial.KErr', 'notopen': 'Serial.KErr', 'value': 'Serial.KReply'}
M_KIND = {'reply': 'Mux.KReply', 'clienterr': 'Mux.KClientErr', 'notopen': 'Mux.KNotOpen', 'err': 'Mux.KClientErr',
          'timeout': 'Mux.KClientErr', 'conc': 'Mux.KNotOpen', 'value': 'Mux.KReply'}
CHAN = {'Idle': 'Idle', 'Open': 'Open', 'Closed': 'Closed'}


def _io(cls):
  if cls == 'ok':
    return 'IoOk'
  if cls == 'EOFError':
    return 'IoEof'
  return 'IoExn'


def serial_labels(obs):
  """[(labels, state, posts, faults, wire)] per slice."""
  out = []
  cur = None              # in-flight call by our accounting
  open_greenlet = False   # a spawned _OpenImpl that has not called socket.open() yet
  conns = []              # who is inside socket.open(): 'open' | 'txn'
  rstage = 'hdr'
  for s in obs['slices']:
    ev = s['ev']
    labels, posts, wire = [], [], []
    faults = 0
    skip = set()
    for i, e in enumerate(ev):
      if i in skip:
        continue
      t = e[0]
      if t == 'api':
        if e[1] == 'open':
          labels.append('Serial.LOpen')
        elif e[1] == 'req':
          labels.append('(Serial.LReq %s)' % C.zlit(e[2]))
          conc = False
          for j in range(i + 1, len(ev)):
            if ev[j][0] == 'api' and ev[j][1] == 'req-ret':
              break
            if ev[j][0] == 'post' and ev[j][1] == e[2] and ev[j][2] == 'conc':
              conc = True
          if not conc:
            cur = e[2]
            rstage = 'hdr'
        elif e[1] == 'close':
          woke = False
          for j in (range(i + 1, len(ev)) if cur is not None else ()):
            if ev[j][0] == 'w' and ev[j][1] in ('read-end', 'write-end'):
              if ev[j][2] != 'GreenletExit':
                woke = True
              skip.add(j)
              break
          labels.append('(Serial.LClose %s)' % C.blit(woke))
          cur = None
      elif t == 'run':
        if e[1] == '_SafeLinkHelper':
          open_greenlet = True
        elif e[1] == '_AsyncProcessTransaction':
          nxt = next((x for x in ev[i + 1:] if x[0] == 'w'), None)
          expired = not (nxt is not None and nxt[1] == 'write-begin')
          labels.append('(Serial.LStart %s)' % C.blit(expired))
      elif t == 'w':
        k = e[1]
        if k == 'open-begin':
          if open_greenlet:
            open_greenlet = False
            conns.append('open')
            labels.append('Serial.LOStart')
          else:
            conns.append('txn')
        elif k == 'open-end':
          who = conns.pop(0) if conns else 'txn'
          if e[2] == 'GreenletExit':
            continue
          labels.append('(Serial.%s %s)' % ('LOConn' if who == 'open' else 'LReconn', C.blit(e[2] == 'ok')))
        elif k == 'write-end':
          if e[2] == 'VTimeout':
            labels.append('Serial.LTimeout')
          elif e[2] != 'GreenletExit':
            labels.append('(Serial.LWrite %s)' % _io(e[2]))
        elif k == 'read-end':
          if e[2] == 'VTimeout':
            labels.append('Serial.LTimeout')
          elif e[2] != 'GreenletExit':
            labels.append('(Serial.%s %s)' % ('LReadHdr' if rstage == 'hdr' else 'LReadBody', _io(e[2])))
            if e[2] == 'ok':
              rstage = 'body' if rstage == 'hdr' else 'hdr'
      elif t == 'io':
        if e[1] == 'send' and e[2] == 'ok':
          wire.append(C.zlit(cur if cur is not None else -1))
      elif t == 'post':
        posts.append('(%s, %s)' % (C.zlit(e[1]), S_KIND[e[2]]))
        if e[1] == cur:
          cur = None
      elif t == 'fault':
        faults += 1
    out.append((labels, s['state'], posts, faults, wire))
  return out


def mux_labels(obs):
  out = []
  holder = {}             # tag -> call that was last given it
  fifo = []               # our mirror of the send queue (what was put and not yet taken)
  unprocessed = []        # frames read whose _ProcessReply has not run yet
  sending = None
  cur_req = None
  initial_ping = False
  loop_ping = False
  rstage = 'hdr'
  last_t = 0
  for s in obs['slices']:
    ev = s['ev']
    labels, posts, wire = [], [], []
    faults = 0
    if s['t'] > last_t:
      labels.append('(Mux.MTick %s)' % C.zlit(s['t']))
      last_t = s['t']
    for i, e in enumerate(ev):
      t = e[0]
      if t == 'api':
        if e[1] == 'open':
          # Open() from inside _Shutdown's notification loop finds the old open result still in place and returns it
          # (nothing happens); everywhere else on a closed sink it starts a new _OpenImpl
          nxt = next((x for x in ev[i + 1:] if (x[0] == 'api' and x[1] == 'open') or (x[0] == 'run' and x[1] == '_SafeLinkHelper')), None)
          if s['state'] != 'Closed' or (nxt is not None and nxt[0] == 'run'):
            labels.append('Mux.MOpen')
        elif e[1] == 'req':
          labels.append('(Mux.MReq %s)' % C.zlit(e[2]))
          cur_req = None if (len(e) > 4 and e[4] == 'blocked') else e[2]      # a blocked caller does nothing yet
        elif e[1] == 'req-resume':
          labels.append('(Mux.MResumeReq %s)' % C.zlit(e[2]))
          cur_req = e[2]
        elif e[1] == 'req-ret':
          cur_req = None
        elif e[1] == 'expire':
          labels.append('(Mux.MExpire %s)' % C.zlit(e[2]))
        elif e[1] == 'close':
          labels.append('Mux.MClose')
      elif t == 'q':
        if e[1] == 'put':
          if e[2] == 2 and cur_req is None:
            # a request handed over during Open() that did not have to wait after all: its 'req-ret' follows
            cur_req = next((x[2] for x in ev[i + 1:] if x[0] == 'api' and x[1] == 'req-ret'), None)
          if e[2] == 2 and cur_req is not None:
            holder[e[3]] = cur_req
            fifo.append('(Mux.IFrame %s)' % C.zlit(cur_req))
          elif e[2] == 65:
            fifo.append('Mux.IPing')
            if initial_ping:
              initial_ping = False
            else:
              loop_ping = True
          else:
            fifo.append('Mux.IDiscard' if e[2] == 66 else '(Mux.IFrame %s)' % C.zlit(-1))
        else:
          sending = fifo.pop(0) if fifo else None
          labels.append('Mux.MTake')
      elif t == 'draw':
        if loop_ping:
          loop_ping = False
          labels.append('(Mux.MPingWake %s)' % C.zlit(e[1]))
        else:
          labels.append('(Mux.MPingStart %s)' % C.zlit(e[1]))
      elif t == 'run':
        if e[1] == '_ProcessReply':
          if unprocessed:
            # which call holds the frame's tag is decided when the frame is processed (a tag released by the frame before
            # may have been handed to a new request meanwhile)
            ll, ix, hx = unprocessed.pop(0)
            ll[ix] = '(Mux.MRead IoOk %s)' % _frame(hx, holder)
          labels.append('Mux.MProcess')
      elif t == 'arwait':
        if not e[1]:
          labels.append('Mux.MPingTimeout')
      elif t == 'arget':
        labels.append('Mux.MOResume')
      elif t == 'w':
        k = e[1]
        if k == 'close':
          fifo = []            # _Shutdown replaces the send queue
        elif k == 'open-begin':
          labels.append('Mux.MOStart')
        elif k == 'open-end':
          if e[2] == 'GreenletExit':
            continue
          labels.append('(Mux.MOConn %s)' % C.blit(e[2] == 'ok'))
          if e[2] == 'ok':
            initial_ping = True
            rstage = 'hdr'
        elif k == 'write-end':
          if e[2] == 'GreenletExit':
            continue
          labels.append('(Mux.MWrote %s)' % _io(e[2]))
          if e[2] == 'ok':
            # the frame being written is the one the send loop took last (tags are recycled: the tag alone does not
            # identify the call); the bytes must agree with it in kind
            it = _item(e[3], holder)
            wire.append(sending if sending is not None and sending.split(' ')[0] == it.split(' ')[0] else it)
        elif k == 'read-end':
          if e[2] == 'GreenletExit':
            continue
          f = 'Mux.FOther'
          if e[2] == 'ok' and rstage == 'body':
            f = _frame(e[3], holder)
            unprocessed.append((labels, len(labels), e[3]))
          labels.append('(Mux.MRead %s %s)' % (_io(e[2]), f))
          if e[2] == 'ok':
            rstage = 'body' if rstage == 'hdr' else 'hdr'
      elif t == 'post':
        posts.append('(%s, %s)' % (C.zlit(e[1]), M_KIND[e[2]]))
      elif t == 'fault':
        faults += 1
    st = s['state'] if s['state'] in CHAN else 'Idle'
    out.append((labels, st, posts, faults, wire))
  return out


def _item(hex8, holder):
  """first 8 bytes of a written frame: 4 length, 1 type, 3 tag."""
  ty = int(hex8[8:10], 16)
  tag = int(hex8[10:16], 16)
  if ty == 65:
    return 'Mux.IPing'
  if ty == 66:
    return 'Mux.IDiscard'
  return '(Mux.IFrame %s)' % C.zlit(holder.get(tag, -1))


def _frame(hex8, holder):
  """first bytes of a frame body: 1 type, 3 tag."""
  if len(hex8) < 8:
    return 'Mux.FOther'
  ty = int(hex8[0:2], 16)
  ty = ty - 256 if ty > 127 else ty
  tag = int(hex8[2:8], 16)
  if tag == 1 and ty == -65:
    return 'Mux.FPing'
  if tag != 0 and tag in holder:
    return '(Mux.FReply %s)' % C.zlit(holder[tag])
  return 'Mux.FOther'


def to_coq(case, obs):
  if case['kind'] == 'twin':
    return None          # monitor only: the model describes one instance
  mux = case['kind'] == 'mux'
  sl = mux_labels(obs) if mux else serial_labels(obs)
  pre = 'Mux' if mux else 'Serial'
  terms = []
  for (labels, st, posts, faults, wire) in sl:
    terms.append('{| %s.sl_labels := %s; %s.sl_state := %s.%s; %s.sl_posts := %s; %s.sl_faults := %s; %s.sl_wire := %s |}' % (
        pre, C.lst(labels), pre, pre, CHAN.get(st, 'Idle'), pre, C.lst(posts), pre, C.zlit(faults), pre, C.lst(wire)))
  if mux:
    return '(CMux {| Mux.c_t0 := 0%%Z; Mux.c_slices := %s |})' % C.lst(terms)
  return '(CSerial %s)' % C.lst(terms)


# ---------------------------------------------------------------------------------------------
def nontrivial(case, obs):
  if case['kind'] == 'twin':
    return True
  for s in obs['slices']:
    for e in s['ev']:
      if e[0] == 'io' and len(e) > 2 and (e[1], e[2]) in IO_FAIL:
        return True
      if e[0] == 'w' and len(e) > 2 and e[2] == 'VTimeout':
        return True
      if e[0] == 'arwait' and e[1] is False:
        return True
  return False


def describe(case, obs):
  if case['kind'] == 'twin':
    return {'case': case, 'states': obs.get('states'), 'faults': obs.get('faults')}
  return {'case': case, 'slices': [{'t': s['t'], 'what': s['what'], 'state': s['state'], 'ev': s['ev'][:14]} for s in obs['slices'][:8]],
          'requests_seen_by_peer': obs.get('requests')}


def stats(cases, obs):
  lab = collections.Counter()
  fail = collections.Counter()
  posts = collections.Counter()
  nfail_cases = 0
  crashes = 0
  for c, o in zip(cases, obs):
    if not isinstance(o, dict) or 'slices' not in o:
      continue
    crashes += len(o.get('crashes') or [])
    sl = mux_labels(o) if c['kind'] == 'mux' else serial_labels(o)
    for (labels, _st, _p, _f, _w) in sl:
      for l in labels:
        lab[l.strip('()').split(' ')[0] + ('/' + l.strip('()').split(' ')[1] if ('Io' in l or 'true' in l or 'false' in l) else '')] += 1
    had = False
    for s in o['slices']:
      for e in s['ev']:
        if e[0] == 'io' and len(e) > 2 and (e[1], e[2]) in IO_FAIL:
          fail['%s/%s %s' % (c['kind'], e[1], e[2])] += 1
          had = True
        if e[0] == 'post':
          posts['%s/%s' % (c['kind'], e[2])] += 1
    nfail_cases += had
  skipped = 0
  for c, o in zip(cases, obs):
    if isinstance(o, dict) and 'slices' in o and c['kind'] == 'mux':
      for sl in o['slices']:
        ev = sl['ev']
        for i, e in enumerate(ev):
          if e[0] == 'q' and e[1] == 'get' and e[2] == 2:
            nxt = ev[i + 1] if i + 1 < len(ev) else None
            if nxt is None or not (nxt[0] == 'w' and nxt[1] == 'write-begin'):
              skipped += 1
  resumes = collections.Counter()
  for c, o in zip(cases, obs):
    if isinstance(o, dict) and 'slices' in o:
      for sl in o['slices']:
        for e in sl['ev']:
          if e[0] == 'arget':
            resumes['MOResume/%s' % ('ok' if e[1] else 'failed')] += 1
  lab.update(resumes)
  dims = collections.Counter()
  for c, o in zip(cases, obs):
    if not isinstance(o, dict):
      continue
    if c['kind'] == 'twin':
      dims['two instances in one process (twin cases)'] += 1
      continue
    if 'slices' not in o:
      continue
    sv = c.get('server', {})
    if sv.get('rx_chunk'):
      dims['peer bytes arrive in pieces of %s' % sv['rx_chunk']] += 1
    if sv.get('send_delay'):
      dims['slow / partial writes'] += 1
    if c.get('long'):
      dims['long-lived transport (25-60 operations)'] += 1
    nopen = 0
    for sl_ in o['slices']:
      for e in sl_['ev']:
        if e[0] == 'cb-raise':
          dims['failure callback raises %s' % e[2]] += 1
        elif e[0] == 'api' and e[1] == 'req' and isinstance(e[2], int) and 1000 <= e[2] < 2000:
          dims['re-entrant retry from a failure callback'] += 1
        elif e[0] == 'api' and e[1] == 'req' and isinstance(e[2], int) and 2000 <= e[2] < 3000:
          dims['next request issued from inside a reply callback'] += 1
        elif e[0] == 'api' and e[1] == 'req' and e[2] == 3000:
          dims['request issued from inside the fault notification'] += 1
        elif e[0] == 'api' and e[1] == 'req' and len(e) > 4 and e[4] == 'blocked':
          dims['request handed over while Open() was in progress'] += 1
        elif e[0] == 'api' and e[1] == 'open':
          nopen += 1
          if nopen > 1:
            dims['Open() again (same result / second life)'] += 1
        elif e[0] == 'api' and e[1] == 'peer' and e[2] == 'raw':
          dims['degenerate / coalesced raw frames from the peer'] += 1
        elif e[0] == 'w' and e[1] == 'write-begin' and e[2] > 60000:
          dims['payload above 60 KB'] += 1
  return {'dimensions_exercised': dict(sorted(dims.items())), 'mux_frames_dropped_after_deadline': skipped, 'model_labels_exercised': dict(sorted(lab.items())), 'connection_failures_injected': dict(sorted(fail.items())),
          'messages_by_kind': dict(sorted(posts.items())), 'cases_with_connection_failure': nfail_cases,
          'greenlet_crashes_observed': crashes}
