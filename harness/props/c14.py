"""C14 - Framed Thrift calls and replies agree with the Thrift library's own codec.

Implementation under test (imported from $SCALES_REPO as it is now), driven end to end through the real sink chain
  MessageDispatcher.StaticDispatchMessage -> ThriftSerializerSink (MessageSerializer.SerializeThriftCall /
  DeserializeThriftCall) -> SocketTransportSink (length framing, readAll(4)/readAll(sz)) ->
  VarzSocketWrapper.readAll / ScalesSocket.readAll+write -> a fake gevent socket with scripted recv chunks,
  and back up through _AsyncResponseSink._WrapException to the AsyncResult the caller waits on.
Oracle (trusted): the Thrift library - the generated-style Processor/Client of harness/ifaces/c14svc over the
pure-Python TBinaryProtocol decode every request scales wrote and encode every reply scales reads.
Model: coq/Model/ThriftCodec.v.
"""
import logging
import struct
import sys
import time

from .. import common as C

PID = 'C14'
PROPS_FILE = 'Props/C14.v'
COQ_CASE_TYPE = 'ThriftCodec.case'
COQ_CHECK = 'ThriftCodec.check_case'
COQ_EXPLAIN = 'ThriftCodec.explain_case'
SHARD = 120
RULE = ('seeded generator over the 9 methods of the test interface c14svc (string->string, struct->struct with a declared '
        'exception, nested struct/list<struct>/list<list<i32>>, void, void with a declared exception, '
        'bool/i16/i32/i64/list<i32>/binary arguments, a method whose throws clause has a field-id gap, a void method whose '
        'only exception has id 2, a oneway method); argument and return values from the thrift_spec: text ASCII/Latin-1/BMP/'
        'astral/empty/large (to 200 kB, python-only above 3 kB), lone surrogates, integer edges of every width and out-of-range '
        'values, empty/long/nested lists, absent fields, positional and keyword arguments; handler scripts: return value, '
        'return None (missing result), each declared exception, TApplicationException of every type, unexpected exception; '
        'reply manglings: unversioned header, bad version, truncated payload, negative/zero size, foreign reply name, unknown '
        'field, wrong-typed success, duplicated success, empty EXCEPTION struct, trailing bytes, other seqid; every reply is pushed through 3 (quick) / 5 (thorough) '
        'chunkings out of: whole, 1-byte reads, splits inside the length prefix, random cuts, cut at the frame end with a second '
        'frame behind it, 0-byte read after k bytes / script end; both socket classes; partial send() on the write side; '
        'sequences of 2-5 calls of varying encoded size (long->short for every ordered pair of methods, growing, equal, alternating, '
        'mixed incl. rejected calls) through ONE ThriftSerializerSink + transport instance, each frame checked on its own; 2-4 OVERLAPPING '
        'calls of different methods through one ThriftSerializerSink over a router with one connection per call (all written before '
        'the first reply; replies fifo/lifo/shuffled/nested), each reply checked against what the Processor produced for that call; '
        'sequences over TWO unrelated inherited services (SvcA extends BaseA, SvcB extends BaseB in harness/ifaces/c14inh) that declare '
        'same-named methods with different signatures, used alternately in one process; a service whose parameter field ids are NOT in '
        'declaration order (descending, shuffled, with gaps: harness/ifaces/c14ord) called positionally, by keyword and mixed - the '
        'Processor must receive each value under the parameter name the caller bound it to; audit additions: calls issued from inside '
        'the completion callback of the previous call, two instances of the same sink chain used alternately, a timed-out call inside a '
        'sequence (transport reconnects), aliased argument objects, a loopback transport completing inline, one split at every byte '
        'boundary, connection reset (recv raises) after k bytes, 20-40 call sequences, lengths around 2^8/2^16 and ints around 2^16/2^24/2^31. '
        'non-trivial = the call reached the wire and a reply was read; distinct by canonical JSON of (case, observation)')
TRUSTED = ['Thrift library 0.24 (TBinaryProtocol pure Python, fastbinary, TApplicationException) and the generated-style '
           'Processor/Client of harness/ifaces/c14svc (written by hand in the compiler\'s layout) as the server-side oracle',
           'Python str.encode("utf-8") for turning text arguments into the byte strings given to the model',
           'fake gevent socket in harness/props/c14.py (recv/recv_into/send/sendall with scripted sizes)']
ASSUMPTIONS = ['struct.pack/unpack semantics of CPython as transcribed in Model/Bytes.v',
               'wire types outside bool/i16/i32/i64/string/binary/list/struct (double, byte, map, set, uuid) are not modelled',
               'frames above 3 kB are checked by the monitor against the library only, not evaluated inside Coq',
               'a recv on an exhausted script returns 0 bytes (peer closed); a real socket would block until the deadline (C08/C12)']

MANIFEST = {
    'text': ('Theorems C14_roundtrip / C14_roundtrip_value (the strict binary decoder inverts the encoder for every nested value: bool, '
             'i16, i32, i64, string/binary, lists, structs), C14_frame (length prefix exact), C14_call (the framed call decodes to the method '
             'and the supplied arguments), C14_outcome / C14_outcome_app / C14_never_exception_value / C14_errors_raise (decision ladder: '
             'success -> value, void -> None, declared exception / EXCEPTION message -> ScalesError carrying exactly that exception, '
             'missing result -> error; for every payload a returned value is the success field of a non-EXCEPTION reply), C14_chunking_read / '
             'C14_chunking / C14_chunking_eof / C14_outcome_chunking_independent (every split of the reply stream into non-empty reads gives '
             'the same bytes, consumes exactly 4+sz, and the same caller-visible outcome; a 0-byte read before that is EOF) hold for all inputs '
             'of the Gallina transcription; the transcription is compared with the real sink chain on ~1.5k (quick) / ~14k (thorough) generated '
             'RPCs per run, each under 3/5 chunkings, with the Thrift library as the oracle for both directions.'),
    'note': ('Trusted: Coq kernel; Thrift library as codec oracle; the correspondence harness and its sampling; struct semantics of '
             'Model/Bytes.v. "Agrees with the Thrift library" is established by differential execution, not by proof. All theorems '
             'closed under the global context.'),
    'technique': 'Coq proof (nested-induction round trip, chunking invariance, decision ladder) + differential execution model vs code vs Thrift library',
    'design_ref': 'DESIGN.md section 5, C14',
}

_S = {}
T_BOOL, T_I16, T_I32, T_I64, T_STRING, T_STRUCT, T_LIST = 2, 6, 8, 10, 11, 12, 15
MAX_COQ_BYTES = 3000


# ---------------------------------------------------------------------------------------------
# the interface table (read from the generated-style module; needs no scales import)
# ---------------------------------------------------------------------------------------------
IFACES = {               # name -> (package, service module, Coq table name)
    'c14svc': ('harness.ifaces.c14svc', 'C14Svc', 'c14svc'),
    'inhA': ('harness.ifaces.c14inh', 'SvcA', 'c14inhA'),      # SvcA extends BaseA
    'inhB': ('harness.ifaces.c14inh', 'SvcB', 'c14inhB'),      # SvcB extends BaseB: same method names, other signatures
    'ord': ('harness.ifaces.c14ord', 'OrdSvc', 'c14ord'),      # parameter field ids not in declaration order
}


def _use(name=None):
  """Selects the interface the spec-directed helpers below work on (default: c14svc)."""
  import importlib
  name = name or 'c14svc'
  mods = _S.setdefault('mods', {})
  if name not in mods:
    pkg, mod, _tab = IFACES[name]
    mods[name] = importlib.import_module(pkg + '.' + mod)
  _S['cur'] = name
  return mods[name]


def _iface():
  if 'cur' not in _S:
    _use()
  return _S['mods'][_S['cur']]


def _methods():
  return list(_iface().Processor(None)._processMap)


def _find(name):
  """generated class by name in the module of the service or of any service it extends"""
  import inspect
  for c in inspect.getmro(_iface().Iface):
    if c is not object:
      x = getattr(sys.modules[c.__module__], name, None)
      if x is not None:
        return x
  return None


def _args_spec(method):
  return _find(method + '_args').thrift_spec


def _params(method):
  """args spec entries in DECLARATION order: the order of the service method's parameters (= of the generated
  <method>_args constructor and of the handler call), which is what a positional call binds to.  thrift_spec
  (and the wire) are in field-id order, which is something else when the IDL numbers parameters out of order."""
  import inspect
  by = {e[2]: e for e in _args_spec(method) if e is not None}
  names = [n for n in inspect.signature(getattr(_iface().Iface, method)).parameters if n != 'self']
  assert sorted(names) == sorted(by), (method, names, sorted(by))
  return [by[n] for n in names]


def _result_cls(method):
  return _find(method + '_result')


def _coq_service():
  """`service` term: method name -> result thrift_spec as (field id, wire type) / None slots."""
  items = []
  for m in _methods():
    rc = _result_cls(m)
    if rc is None:
      continue
    slots = ['None' if e is None else '(Some (%s, %s))' % (C.zlit(e[0]), C.zlit(e[1])) for e in rc.thrift_spec]
    items.append('(%s, %s)' % (C.bytes_lit(m.encode()), C.lst(slots)))
  return C.lst(items)


def _coq_header():
  out = ['From Scales Require Import Model.Base Model.Bytes Model.ThriftCodec.']
  for name in IFACES:
    _use(name)
    out.append('Definition %s : ThriftCodec.service := %s.' % (IFACES[name][2], _coq_service()))
  _use()
  return '\n'.join(out)


COQ_HEADER = _coq_header()


# ---------------------------------------------------------------------------------------------
# spec-directed conversions: JSON <-> python objects <-> Coq tval
# ---------------------------------------------------------------------------------------------
def from_json(j, ttype, targs, memo=None):
  """memo (a dict): equal sub-values become THE SAME python object (aliasing: one Item passed in several places)."""
  if j is None:
    return None
  if ttype == T_STRING:
    return bytes(j) if targs == 'BINARY' else j
  if ttype in (T_LIST, T_STRUCT) and memo is not None:
    key = (ttype, repr(targs)[:200], C.canon(j))
    if key in memo:
      return memo[key]
  if ttype == T_LIST:
    out = [from_json(x, targs[0], targs[1], memo) for x in j]
  elif ttype == T_STRUCT:
    cls, spec = targs[0], targs[0].thrift_spec
    kw = {}
    for e in spec:
      if e is not None and e[2] in j:
        kw[e[2]] = from_json(j[e[2]], e[1], e[3], memo)
    out = cls(**kw)
  else:
    return j
  if memo is not None:
    memo[key] = out
  return out


class Unexpected(Exception):
  pass


def to_json(v, ttype, targs):
  """python value -> JSON by the spec; raises Unexpected when the value does not have the declared shape."""
  if v is None:
    return None
  if ttype == T_BOOL:
    if not isinstance(v, bool):
      raise Unexpected(repr(v))
    return v
  if ttype in (T_I16, T_I32, T_I64):
    if isinstance(v, bool) or not isinstance(v, int):
      raise Unexpected(repr(v))
    return v
  if ttype == T_STRING:
    if targs == 'BINARY':
      if not isinstance(v, (bytes, bytearray)):
        raise Unexpected(repr(v))
      return list(v)
    if not isinstance(v, str):
      raise Unexpected(repr(v))
    return v
  if ttype == T_LIST:
    if not isinstance(v, (list, tuple)):
      raise Unexpected(repr(v))
    return [to_json(x, targs[0], targs[1]) for x in v]
  if ttype == T_STRUCT:
    if type(v) is not targs[0]:
      raise Unexpected(repr(v))
    out = {}
    for e in targs[0].thrift_spec:
      if e is not None:
        x = getattr(v, e[2], None)
        if x is not None:
          out[e[2]] = to_json(x, e[1], e[3])
    return out
  raise Unexpected('type %r' % ttype)


def tval(j, ttype, targs):
  """JSON value -> Coq tval term (fields in spec order, None omitted: what the generated write emits)."""
  if ttype == T_BOOL:
    return '(VBool %s)' % C.blit(j)
  if ttype == T_I16:
    return '(VI16 %s)' % C.zlit(j)
  if ttype == T_I32:
    return '(VI32 %s)' % C.zlit(j)
  if ttype == T_I64:
    return '(VI64 %s)' % C.zlit(j)
  if ttype == T_STRING:
    b = bytes(j) if targs == 'BINARY' else j.encode('utf-8')
    return '(VStr %s)' % C.bytes_lit(b)
  if ttype == T_LIST:
    return '(VList %s %s)' % (C.zlit(targs[0]), C.lst([tval(x, targs[0], targs[1]) for x in j]))
  if ttype == T_STRUCT:
    return '(VStruct %s)' % fields_term(j, targs[0].thrift_spec)
  raise ValueError(ttype)


def fields_term(j, spec):
  out = []
  for e in spec:
    if e is not None and j.get(e[2]) is not None:
      out.append('(%s, %s)' % (C.zlit(e[0]), tval(j[e[2]], e[1], e[3])))
  return C.lst(out)


# ---------------------------------------------------------------------------------------------
# generators
# ---------------------------------------------------------------------------------------------
ALPH = [
    'abcxyzKEY._-0123456789 ',
    'éàüñÿ¡¿',
    '€漢字ღ✓߿ࠀ￿',
    '\U0001F600\U00010000\U0010FFFF𝔘',
    '\x00\x7f\x80',
]
EDGE = {T_I16: (-2 ** 15, 2 ** 15 - 1), T_I32: (-2 ** 31, 2 ** 31 - 1), T_I64: (-2 ** 63, 2 ** 63 - 1)}


def rand_text(r, big=False):
  n = r.choice([0, 0, 1, 2, 3, 5, 8, 13, 40, r.choice([127, 128, 129, 255, 256, 257])])
  if big:
    n = r.choice([300, 1000, 3000, 255, 256, 257])
  a = r.choice(ALPH + [''.join(ALPH)])
  return ''.join(r.choice(a) for _ in range(n))


def rand_int(r, ttype, bad=False):
  lo, hi = EDGE[ttype]
  if bad:
    return r.choice([hi + 1, lo - 1, hi + r.randrange(1, 1000), 2 ** 70])
  edges = [0, 1, -1, lo, hi, lo + 1, hi - 1, 127, 128, 255, 256, -128, -129, r.randrange(lo, hi + 1), r.randrange(-1000, 1000)]
  edges += [x for x in (32767, 32768, 65535, 65536, 65537, 2 ** 24 - 1, 2 ** 24, 2 ** 24 + 1, -2 ** 24, 2 ** 31 - 1, 2 ** 31, 2 ** 32,
                        2 ** 32 - 1, -2 ** 31 - 1, 2 ** 62) if lo <= x <= hi]
  return r.choice(edges)


def gen_value(r, ttype, targs, depth=0, flags=None):
  """Random JSON value of the declared type. flags: dict with optional 'bad' (exactly one out-of-range int or
  lone surrogate is planted), 'big' (large strings)."""
  flags = flags if flags is not None else {}
  if ttype == T_BOOL:
    return r.random() < 0.5
  if ttype in EDGE:
    if flags.get('bad') == 'int' and not flags.get('planted') and r.random() < 0.5:
      flags['planted'] = True
      return rand_int(r, ttype, bad=True)
    return rand_int(r, ttype)
  if ttype == T_STRING:
    if targs == 'BINARY':
      n = r.choice([0, 1, 2, 7, 64] + ([2000] if flags.get('big') else []))
      return [r.choice([0, 255, 128, 127, r.randrange(256)]) for _ in range(n)]
    if flags.get('bad') == 'surrogate' and not flags.get('planted') and r.random() < 0.7:
      flags['planted'] = True
      return 'a\ud800b'
    return rand_text(r, big=bool(flags.get('big')) and r.random() < 0.5)
  if ttype == T_LIST:
    n = r.choice([0, 0, 1, 2, 3, 7] + ([60, r.choice([255, 256, 257])] if depth == 0 and targs[0] != T_STRUCT else []))
    return [gen_value(r, targs[0], targs[1], depth + 1, flags) for _ in range(n)]
  if ttype == T_STRUCT:
    out = {}
    spec = targs[0].thrift_spec
    mode = r.choice(['all', 'some', 'some', 'none'])
    for e in spec:
      if e is None:
        continue
      if mode == 'all' or (mode == 'some' and r.random() < 0.6):
        out[e[2]] = gen_value(r, e[1], e[3], depth + 1, flags)
    return out
  raise ValueError(ttype)


CHUNK_KINDS = ['whole', 'ones', 'pre1', 'pre2', 'pre3', 'rand', 'rand', 'frameend', 'eof', 'eofend', 'twos', 'reset']
MANGLES = ['nonstrict', 'badversion', 'trunc', 'negsize', 'zerosize', 'rename_fire', 'rename_ping', 'rename_echo',
           'extrafield', 'wrongtype', 'trailing', 'seqid', 'dupsuccess', 'appempty']


def gen_chunkings(r, k, force=None):
  out = []
  kinds = list(force or [])
  while len(kinds) < k:
    kinds.append(r.choice(CHUNK_KINDS))
  for kind in kinds[:k]:
    out.append({'k': kind, 'seed': r.randrange(1 << 30)})
  return out


def gen_rpc(r, nchunk, method=None, behaviour=None, size=None, iface=None, argmode=None):
  """size: None (random mix), 'small' (no planted defects, short values), 'big' (long strings / blobs)."""
  _use(iface)
  method = method or r.choice(_methods())
  aspec = _params(method)              # declaration order: positional arguments bind to these names
  flags = {}
  u = r.random()
  if size == 'big':
    flags['big'] = True
  elif size == 'small':
    pass
  elif u < 0.06:
    flags['bad'] = 'int'
  elif u < 0.09:
    flags['bad'] = 'surrogate'
  elif u < 0.15:
    flags['big'] = True
  vals = {}
  for e in aspec:
    if r.random() < 0.93:
      vals[e[2]] = gen_value(r, e[1], e[3], 0, flags)
      if iface == 'ord' and e[1] == T_STRING and e[3] != 'BINARY' and r.random() < 0.8 and '\ud800' not in vals[e[2]]:
        vals[e[2]] = e[2] + '=' + vals[e[2]]          # make same-typed parameters tell-apart values
  # positional prefix + keywords for the rest
  npos = r.choice([len(aspec), len(aspec), 0, r.randrange(len(aspec) + 1)]) if argmode is None else \
      {'pos': len(aspec), 'kw': 0, 'mixed': max(1, len(aspec) // 2)}[argmode]
  args = []
  kwargs = {}
  for i, e in enumerate(aspec):
    if i < npos:
      args.append(vals.get(e[2]))
    elif e[2] in vals:
      kwargs[e[2]] = vals[e[2]]
  rc = _result_cls(method)
  handler = {'do': 'none'}
  if rc is not None:
    rspec = rc.thrift_spec
    succ = rspec[0] if rspec and rspec[0] is not None else None
    excs = [e for e in rspec[1:] if e is not None]
    b = behaviour or r.choice(['ret'] * 5 + ['declared'] * 3 + ['app', 'app', 'other', 'retnone'])
    if b == 'declared' and not excs:
      b = 'ret'
    if b == 'ret':
      hf = {'big': True} if r.random() < 0.05 else {}
      handler = {'do': 'ret', 'value': gen_value(r, succ[1], succ[3], 0, hf) if succ else None}
    elif b == 'retnone':
      handler = {'do': 'ret', 'value': None}
    elif b == 'declared':
      e = r.choice(excs)
      handler = {'do': 'declared', 'field': e[2], 'value': gen_value(r, e[1], e[3], 1, {})}
    elif b == 'app':
      handler = {'do': 'app', 'type': r.choice(list(range(0, 11)) + [99, -1]), 'message': r.choice([None, '', 'boom', rand_text(r)])}
    else:
      handler = {'do': 'other'}
  case = {'kind': 'rpc', 'iface': iface or 'c14svc', 'method': method, 'args': args, 'kwargs': kwargs, 'handler': handler,
          'sock': r.choice(['varz', 'varz', 'scales']), 'send_cap': r.choice([None, None, 1, 7, 100]),
          'extra': r.choice(['none', 'none', 'frame', 'junk']), 'mangle': None, 'mseed': r.randrange(1 << 30),
          'ops': gen_chunkings(r, nchunk)}
  return case


SEQ_CHUNKS = ['whole', 'ones', 'pre1', 'pre2', 'pre3', 'rand', 'twos']     # deliveries that do not close the connection
SEQ_PATTERNS = ['long-short', 'long-short', 'growing', 'equal', 'mixed', 'mixed', 'long-short-long']


def gen_seq(r, pattern=None, methods=None):
  """2-5 calls of varying encoded size through one sink chain instance and one connection."""
  _use()
  twoway = [m for m in _methods() if _result_cls(m) is not None]
  pattern = pattern or r.choice(SEQ_PATTERNS)
  n = len(methods) if methods else r.choice([2, 2, 3, 4, 5])
  if pattern == 'long-short':
    sizes = ['big'] + ['small'] * (n - 1)
  elif pattern == 'growing':
    sizes = ['small'] * (n - 1) + ['big']
  elif pattern == 'long-short-long':
    sizes = [['big', 'small'][i % 2] for i in range(n)]
  elif pattern == 'equal':
    sizes = ['equal'] * n
  else:
    sizes = [r.choice(['big', 'small', None]) for _ in range(n)]
  ops = []
  first = None
  for i in range(n):
    m = methods[i] if methods else r.choice(twoway)
    if sizes[i] == 'equal':
      if first is None:
        first = gen_rpc(r, 1, method=m, size='small')
      c = dict(first, handler=gen_rpc(r, 1, method=first['method'], size='small')['handler'])
    else:
      c = gen_rpc(r, 1, method=m, size=sizes[i])
      if sizes[i] is None and r.random() < 0.5:
        pass          # may carry a planted out-of-range int / surrogate: the call is rejected, the next one must be clean
    op = {k: c[k] for k in ('method', 'args', 'kwargs', 'handler', 'send_cap', 'mseed')}
    op.update(extra='none', mangle=None, ch={'k': r.choice(SEQ_CHUNKS), 'seed': r.randrange(1 << 30)})
    ops.append(op)
  return {'kind': 'seq', 'pattern': pattern, 'sock': r.choice(['varz', 'varz', 'scales']), 'ops': ops}


def _op_of(c, r, iface=None):
  op = {k: c[k] for k in ('method', 'args', 'kwargs', 'handler', 'send_cap', 'mseed')}
  op.update(extra='none', mangle=None, ch={'k': r.choice(SEQ_CHUNKS), 'seed': r.randrange(1 << 30)})
  if iface:
    op['iface'] = iface
  return op


def gen_overlap(r, methods=None, order=None):
  """2-4 calls of (mostly) different methods in flight at the same time through ONE ThriftSerializerSink, each on its
  own connection: all of them are serialized and written before the first reply is delivered (or, order='nested',
  replies and further calls interleave)."""
  _use()
  twoway = [m for m in _methods() if _result_cls(m) is not None]
  if not methods:
    methods = r.sample(twoway, r.choice([2, 2, 3, 4]))
    if r.random() < 0.15:
      methods[-1] = methods[0]            # the same method twice is legitimate too
  calls = []
  for i, m in enumerate(methods):
    c = gen_rpc(r, 1, method=m, size=r.choice(['small', 'small', 'big']))
    op = _op_of(c, r)
    op.update(op='call', id=i)
    calls.append(op)
  order = order or r.choice(['fifo', 'fifo', 'lifo', 'shuffle', 'nested'])
  ids = list(range(len(calls)))
  if order == 'nested' and len(calls) >= 3:
    # call0 call1 reply1 call2 reply0 reply2 ...
    ops = [calls[0], calls[1], {'op': 'reply', 'id': 1}]
    for c in calls[2:]:
      ops.append(c)
    ops.append({'op': 'reply', 'id': 0})
    ops += [{'op': 'reply', 'id': i} for i in ids[2:]]
  else:
    rep = list(ids)
    if order == 'lifo':
      rep.reverse()
    elif order == 'shuffle':
      r.shuffle(rep)
    ops = calls + [{'op': 'reply', 'id': i} for i in rep]
  return {'kind': 'overlap', 'order': order, 'sock': r.choice(['varz', 'varz', 'scales']), 'ops': ops}


def gen_two_ifaces(r, method=None, first=None, n=None):
  """Calls on two unrelated services that both use service inheritance and declare same-named methods with different
  signatures (SvcA extends BaseA, SvcB extends BaseB), one after the other in one process.  Calls come in pairs
  X.m, Y.m (same method name on the one service, then on the other), so every case exercises the name clash by
  itself, also when replayed alone in a fresh process; the list is kept under 'calls' so that it is not shrunk."""
  first = first or r.choice(['inhA', 'inhB'])
  other = 'inhB' if first == 'inhA' else 'inhA'
  n = n or r.choice([1, 1, 2, 3])
  ops = []
  for i in range(n):
    m = method if (method and i == 0) else r.choice(['get', 'sum', 'name', 'ping'])
    pair = [first, other] if (i == 0 or r.random() < 0.5) else [other, first]
    for iface in pair:
      c = gen_rpc(r, 1, method=m, size=r.choice(['small', 'small', None]), iface=iface)
      ops.append(_op_of(c, r, iface))
  _use()
  return {'kind': 'seq', 'pattern': 'two-interfaces', 'sock': r.choice(['varz', 'scales']), 'calls': ops}


def _dup_lists(j, r):
  """makes the elements of (some) lists equal, so that with 'alias' they are one and the same object"""
  if isinstance(j, list):
    j = [_dup_lists(x, r) for x in j]
    if len(j) >= 2 and r.random() < 0.7:
      j = [j[0]] * len(j)
    return j
  if isinstance(j, dict):
    return {k: _dup_lists(v, r) for k, v in j.items()}
  return j


def gen_audit(tier, seed):
  """Histories and inputs added by the generator audit: re-entrant issue from a completion callback, two instances of
  the same sink chain, a timed-out call in the middle of a sequence (the transport reconnects), aliased argument
  objects, a transport that completes inline, one split at every byte boundary, long-lived sinks, 2^16 boundaries."""
  _use()
  q = tier == 'quick'
  out = []
  twoway = [m for m in _methods() if _result_cls(m) is not None]
  for j in range(40 if q else 400):                       # 1. re-entrancy
    r = C.case_rng(seed, PID + 'reent', j)
    c = gen_seq(r)
    c.update(reentrant=True, pattern='reentrant:' + c['pattern'], sock=r.choice(['varz', 'scales', 'inline']))
    out.append(c)
  for j in range(40 if q else 400):                       # 4. two instances of the same chain, used alternately
    r = C.case_rng(seed, PID + 'inst', j)
    c = gen_seq(r, methods=[r.choice(twoway) for _ in range(r.choice([3, 4, 5, 6]))])
    for i, op in enumerate(c['ops']):
      op['inst'] = i % 2 if r.random() < 0.7 else r.choice([0, 1])
    c['pattern'] = 'two-instances:' + c['pattern']
    out.append(c)
  for j in range(30 if q else 300):                       # 3. second life: a call times out, the transport reconnects
    r = C.case_rng(seed, PID + 'tmo', j)
    c = gen_seq(r)
    k = r.randrange(0, len(c['ops']))
    t = _op_of(gen_rpc(r, 1, method=r.choice(twoway), size='small'), r)
    t['deadline_past'] = True
    c['ops'].insert(k, t)
    c['pattern'] = 'timeout-inside:' + c['pattern']
    out.append(c)
  for j in range(40 if q else 400):                       # 4. aliasing: the same object in several places
    r = C.case_rng(seed, PID + 'alias', j)
    c = gen_rpc(r, 2, method=r.choice(['wrap', 'wrap', 'xform', 'mix']), behaviour='ret', size='small')
    c['args'] = [_dup_lists(a, r) for a in c['args']]
    c['kwargs'] = {k: _dup_lists(a, r) for k, a in c['kwargs'].items()}
    if c['method'] == 'wrap':
      box = (c['args'] or [None])[0] or c['kwargs'].get('box')
      if isinstance(box, dict) and box.get('item') is not None:
        box['items'] = [box['item']] * r.choice([1, 2, 3])
    c.update(alias=True, mangle=None)
    out.append(c)
  for j in range(80 if q else 800):                       # 10. a transport that completes inside the call
    r = C.case_rng(seed, PID + 'inline', j)
    c = gen_rpc(r, 1)
    c.update(sock='inline', mangle=None, extra='none', ops=[{'k': 'whole', 'seed': 0}])
    out.append(c)
  for j in range(20 if q else 200):
    r = C.case_rng(seed, PID + 'inlineseq', j)
    c = gen_seq(r)
    c.update(sock='inline', pattern='inline:' + c['pattern'])
    out.append(c)
  k = 0
  for m, b in [('echo', 'ret'), ('xform', 'declared'), ('ping', 'ret'), ('mix', 'app'), ('gap', 'declared'), ('wrap', 'ret')]:
    for sock in ['varz', 'scales']:                        # 7. one split at every byte boundary of the reply
      r = C.case_rng(seed, PID + 'cut', k)
      k += 1
      if q and k % 2:
        continue
      c = gen_rpc(r, 1, method=m, behaviour=b, size='small')
      c.update(sock=sock, mangle=None, extra=r.choice(['none', 'frame']),
               ops=[{'k': 'cut', 'at': a, 'seed': 0} for a in range(1, 90 if q else 160)])
      out.append(c)
  for j in range(3 if q else 30):                         # 9. a long-lived sink
    r = C.case_rng(seed, PID + 'long', j)
    c = gen_seq(r, pattern='mixed', methods=[r.choice(twoway) for _ in range(r.randrange(20, 41))])
    c['pattern'] = 'long'
    if r.random() < 0.5:
      c['reentrant'] = True
    out.append(c)
  for j, n in enumerate([65535, 65536, 65537] if q else [65535, 65536, 65537, 65531, 65532, 65533, 65534, 2 ** 16 - 20, 2 ** 17]):
    r = C.case_rng(seed, PID + '64k', j)                  # 5. values around 64 KiB (python-only: not sent to Coq)
    c = gen_rpc(r, 2, method='echo', behaviour='ret')
    c['args'], c['kwargs'] = ['x' * n], {}
    c['handler'] = {'do': 'ret', 'value': 'y' * (n - j)}
    c.update(mangle=None, ops=[{'k': 'whole', 'seed': 1}, {'k': 'rand', 'seed': 7 + j}, {'k': 'cut', 'at': 65536, 'seed': 0}])
    out.append(c)
  _use()
  return out


def gen_cases(tier, seed):
  _use()
  n = 1300 if tier == 'quick' else 14000
  nseq = 220 if tier == 'quick' else 2500
  nchunk = 3 if tier == 'quick' else 5
  out = []
  # sequences through one sink instance: every ordered pair of two-way methods, long call first, short call second
  twoway = [m for m in _methods() if _result_cls(m) is not None]
  k = 0
  for m1 in twoway:
    for m2 in twoway:
      r = C.case_rng(seed, PID + 'pair', k)
      k += 1
      if tier == 'quick' and m1 != m2 and r.random() < 0.5:
        continue
      out.append(gen_seq(r, pattern='long-short', methods=[m1, m2]))
  for j in range(nseq):
    out.append(gen_seq(C.case_rng(seed, PID + 'seq', j)))
  # overlapping calls through one serializer sink: every ordered pair of different two-way methods, replies in call order
  k = 0
  for m1 in twoway:
    for m2 in twoway:
      if m1 != m2:
        r = C.case_rng(seed, PID + 'ovpair', k)
        k += 1
        if tier == 'quick' and r.random() < 0.5:
          continue
        out.append(gen_overlap(r, methods=[m1, m2], order=r.choice(['fifo', 'lifo'])))
  for j in range(120 if tier == 'quick' else 1500):
    out.append(gen_overlap(C.case_rng(seed, PID + 'overlap', j)))
  # a service whose parameter field ids are not in declaration order: positional, keyword and mixed calls
  _use('ord')
  k = 0
  for m in _methods():
    for mode in ['pos', 'kw', 'mixed']:
      for b in ['ret', 'declared']:
        for rep in range(1 if tier == 'quick' else 4):
          r = C.case_rng(seed, PID + 'ordgrid', k)
          k += 1
          c = gen_rpc(r, 2, method=m, behaviour=b, size='small', iface='ord', argmode=mode)
          c['mangle'] = None
          out.append(c)
  for j in range(150 if tier == 'quick' else 1800):
    r = C.case_rng(seed, PID + 'ord', j)
    out.append(gen_rpc(r, 2, iface='ord', argmode=r.choice([None, 'pos', 'pos', 'mixed'])))
  # ... and the same inside sequences through one sink
  for j in range(30 if tier == 'quick' else 300):
    r = C.case_rng(seed, PID + 'ordseq', j)
    ops = [_op_of(gen_rpc(r, 1, iface='ord', size='small', argmode=r.choice(['pos', 'mixed', 'kw'])), r, 'ord') for _ in range(r.choice([2, 3]))]
    out.append({'kind': 'seq', 'pattern': 'param-order', 'sock': r.choice(['varz', 'scales']), 'ops': ops})
  _use()
  # two inherited services with same-named methods, used one after the other
  k = 0
  for m in ['get', 'sum', 'name', 'ping']:
    for first in ['inhA', 'inhB']:
      for rep in range(2 if tier == 'quick' else 6):
        out.append(gen_two_ifaces(C.case_rng(seed, PID + 'two', k), method=m, first=first, n=1 + rep % 3))
        k += 1
  for j in range(60 if tier == 'quick' else 800):
    out.append(gen_two_ifaces(C.case_rng(seed, PID + 'twor', j)))
  _use()
  # deterministic grid: every method x every applicable handler behaviour x both sockets, all chunk kinds
  i = 0
  for m in _methods():
    for b in ['ret', 'retnone', 'declared', 'app', 'other']:
      for sock in ['varz', 'scales']:
        r = C.case_rng(seed, PID + 'grid', i)
        i += 1
        c = gen_rpc(r, nchunk, method=m, behaviour=b)
        c['sock'] = sock
        c['ops'] = gen_chunkings(r, len(CHUNK_KINDS), force=list(CHUNK_KINDS)) if sock == 'varz' and b in ('ret', 'declared') else c['ops']
        out.append(c)
  # every mangling on a value-returning, a void and a declared-exception reply, both sockets
  for mg in MANGLES:
    for m, b in [('echo', 'ret'), ('xform', 'ret'), ('ping', 'ret'), ('pingx', 'declared'), ('gap', 'declared'), ('mix', 'app')]:
      for sock in ['varz', 'scales']:
        r = C.case_rng(seed, PID + 'mangle', i)
        i += 1
        c = gen_rpc(r, nchunk, method=m, behaviour=b)
        c['sock'] = sock
        c['mangle'] = mg
        c['ops'] = gen_chunkings(r, nchunk, force=['whole', 'ones'])
        out.append(c)
  out.append({'kind': 'timeout', 'method': 'echo', 'sock': 'varz'})
  out.append({'kind': 'timeout', 'method': 'ping', 'sock': 'scales'})
  out.extend(gen_audit(tier, seed))
  for j in range(n):
    r = C.case_rng(seed, PID, j)
    c = gen_rpc(r, nchunk)
    if r.random() < 0.08:
      c['mangle'] = r.choice(MANGLES)
    out.append(c)
  if tier == 'thorough':
    for j in range(12):      # very large strings: python-only (monitor + library), not sent to Coq
      r = C.case_rng(seed, PID + 'huge', j)
      c = gen_rpc(r, 3, method='echo', behaviour='ret')
      c['args'], c['kwargs'] = ['é€x' * r.choice([5000, 30000, 70000])], {}
      c['handler'] = {'do': 'ret', 'value': '𝔘y' * r.choice([4000, 50000])}
      out.append(c)
  return out


def search_cases(tier, seed, diverging):
  """Adversarial stream used only when proof/correspondence broke: void and exception replies on every method."""
  _use()
  out = []
  for i in range(3000):
    r = C.case_rng(seed + 104729, PID, i)
    out.append(gen_rpc(r, 2, behaviour=r.choice(['ret', 'retnone', 'declared', 'app'])))
  for i in range(1000):
    out.append(gen_seq(C.case_rng(seed + 104729, PID + 'seq', i)))
  for i in range(800):
    r = C.case_rng(seed + 104729, PID + 'ord', i)
    out.append(gen_rpc(r, 1, iface='ord', argmode=r.choice(['pos', 'mixed'])))
  for i in range(500):
    out.append(gen_overlap(C.case_rng(seed + 104729, PID + 'overlap', i)))
    out.append(gen_two_ifaces(C.case_rng(seed + 104729, PID + 'two', i)))
  _use()
  return out


# ---------------------------------------------------------------------------------------------
# fake network
# ---------------------------------------------------------------------------------------------
class FakeSocket(object):
  """Stands in for gevent.socket.socket: send/sendall capture, recv/recv_into follow a script of sizes."""
  current = None        # the script of the transaction in progress (one connection, one script per transaction)

  created = []          # every socket made so far (the newest one belongs to the transport opened last)

  def __init__(self, *a, **k):
    self.closed = False
    self._script = None   # set: this connection follows its own script (overlapping calls on several connections)
    FakeSocket.created.append(self)
    del FakeSocket.created[:-8]

  @property
  def script(self):
    return self._script or FakeSocket.current

  def connect(self, addr):
    pass

  def setsockopt(self, *a):
    pass

  def close(self):
    self.closed = True

  def sendall(self, b):
    self.script.sent.append(bytes(b))

  def send(self, b):
    cap = self.script.send_cap
    n = len(b) if cap is None else min(len(b), cap)
    self.script.sent.append(bytes(b[:n]))
    return n

  def recv(self, n):
    return self.script.deliver(n)

  def recv_into(self, buf, n):
    d = self.script.deliver(n)
    buf[:len(d)] = d
    return len(d)


class Script(object):
  def __init__(self, responder, send_cap, gate=None):
    self.gate = gate                # an Event the peer waits for before it answers (None: answers at once)
    self.sent = []
    self.send_cap = send_cap
    self.responder = responder      # bytes written so far -> (stream, sizes)
    self.stream = None
    self.sizes = None
    self.queue = None
    self.pos = 0
    self.cur = 0
    self.recvs = 0

  def deliver(self, n):
    if self.stream is None:
      if self.gate is not None:
        self.gate.wait()
      self.stream, self.sizes = self.responder(b''.join(self.sent))
      self.queue = list(self.sizes)
    self.recvs += 1
    if self.recvs > 4 * len(self.stream) + 64:
      raise RuntimeError('socket read in a busy loop (%d recv calls for %d bytes)' % (self.recvs, len(self.stream)))
    if self.cur == 0:
      if not self.queue:
        return b''
      self.cur = self.queue.pop(0)
      if self.cur < 0:
        self.cur = 0
        self.queue.insert(0, -1)
        raise ConnectionResetError(104, 'Connection reset by peer')
      if self.cur == 0:
        return b''
    k = min(n, self.cur)
    d = self.stream[self.pos:self.pos + k]
    self.pos += k
    self.cur -= k
    return d

  def left(self):
    # bytes the script would still deliver (what is left unread in the socket buffer)
    return 0 if self.stream is None else sum(self.sizes) - self.pos


def setup():
  if 'ready' in _S:
    return
  logging.disable(logging.CRITICAL)
  if C.REPO not in sys.path:
    sys.path.insert(0, C.REPO)
  import scales
  assert scales.__file__.startswith(C.REPO), scales.__file__
  import gevent
  import scales.scales_socket as ss
  from scales.thrift.sink import SocketTransportSink, ThriftSerializerSink
  from scales.dispatch import MessageDispatcher, ScalesError
  from scales.message import MethodCallMessage, TimeoutError as ScalesTimeout
  from scales.constants import SinkProperties, ChannelState
  from scales.varz import VarzSocketWrapper
  from scales.loadbalancer.zookeeper import Endpoint
  ss.gsocket = FakeSocket
  ss.ScalesSocket._resolveAddr = lambda self: [(2, 1, 6, '', (self.host, self.port))]
  _use()

  class RawProvider(object):          # transport over a bare ScalesSocket (its own readAll/write loops)
    def CreateSink(self, properties):
      server = properties[SinkProperties.Endpoint]
      return SocketTransportSink(ss.ScalesSocket(server.host, server.port), properties[SinkProperties.Label])

  _S.update(gevent=gevent, ss=ss, SocketTransportSink=SocketTransportSink, ThriftSerializerSink=ThriftSerializerSink,
            MessageDispatcher=MessageDispatcher, ScalesError=ScalesError, MethodCallMessage=MethodCallMessage,
            ScalesTimeout=ScalesTimeout, SinkProperties=SinkProperties, ChannelState=ChannelState,
            MethodReturnMessage=__import__('scales.message', fromlist=['x']).MethodReturnMessage,
            Endpoint=Endpoint, RawProvider=RawProvider, ready=True)


# ---------------------------------------------------------------------------------------------
# the server side: the library's Processor with a scripted handler
# ---------------------------------------------------------------------------------------------
class Handler(object):
  def __init__(self, case):
    self.case = case
    self.calls = []

  def __getattr__(self, name):
    if name.startswith('_') or name not in _methods():
      raise AttributeError(name)

    def method(*args):
      self.calls.append((name, args))
      return self._behave(name)
    return method

  def _behave(self, name):
    from thrift.Thrift import TApplicationException
    h = self.case['handler']
    rc = _result_cls(name)
    if h['do'] == 'none' or rc is None:
      return None
    if h['do'] == 'ret':
      sp = rc.thrift_spec
      succ = sp[0] if sp and sp[0] is not None else None
      return from_json(h['value'], succ[1], succ[3]) if succ else None
    if h['do'] == 'declared':
      e = [x for x in rc.thrift_spec if x is not None and x[2] == h['field']][0]
      raise from_json(h['value'], e[1], e[3])
    if h['do'] == 'app':
      raise TApplicationException(h['type'], h['message'])
    raise ValueError('unexpected failure inside the handler')


def _lib_protocol(data=None):
  from thrift.protocol.TBinaryProtocol import TBinaryProtocol
  from thrift.transport.TTransport import TMemoryBuffer
  tb = TMemoryBuffer(data)
  return tb, TBinaryProtocol(tb)


def serve(case, request_frame, record):
  """Decodes the framed request with the library Processor, returns the reply payload (b'' for oneway)."""
  svc = _iface()
  if len(request_frame) < 4:
    record['server'] = 'short-frame'
    return b''
  sz = struct.unpack('!i', request_frame[:4])[0]
  payload = request_frame[4:]
  record['declared_size'] = sz
  record['payload_len'] = len(payload)
  h = Handler(case)
  seen = []
  proc = svc.Processor(h)
  proc.on_message_begin(lambda name, mtype, seqid: seen.append([name, mtype, seqid]))
  ib, ip = _lib_protocol(payload)
  ob, op = _lib_protocol()
  try:
    proc.process(ip, op)
    record['server'] = 'ok'
    record['unread'] = len(payload) - ib._buffer.tell()
  except Exception as e:   # the library could not decode what scales wrote
    record['server'] = 'undecodable: %s: %s' % (type(e).__name__, e)
  record['begin'] = seen[0] if seen else None
  record['calls'] = [[n, _args_json(n, a)] for n, a in h.calls]
  return ob.getvalue()


def _args_json(method, args):
  spec = _params(method)               # the generated Processor calls handler.m(args.p1, args.p2, ..) in declaration order
  out = {}
  for e, a in zip(spec, args):
    try:
      j = to_json(a, e[1], e[3])
    except Unexpected as u:
      j = {'_unexpected': str(u)}
    if j is not None:
      out[e[2]] = j
  return out


def mangle(kind, payload, r):
  """reply payload -> (framed stream, note). Returns the full byte stream put on the wire."""
  def frame(p):
    return struct.pack('!i', len(p)) + p
  if kind is None or len(payload) < 12:
    return frame(payload)
  nlen = struct.unpack('!i', payload[4:8])[0]
  name = payload[8:8 + nlen]
  mtype = payload[3]
  seq = payload[8 + nlen:12 + nlen]
  body = payload[12 + nlen:]

  def strict(nm, mt=mtype, sq=seq, bd=body):
    return b'\x80\x01\x00' + bytes([mt]) + struct.pack('!i', len(nm)) + nm + sq + bd
  if kind == 'nonstrict':
    return frame(struct.pack('!i', len(name)) + name + bytes([mtype]) + seq + body)
  if kind == 'badversion':
    return frame(b'\x80\x02' + payload[2:])
  if kind == 'trunc':
    k = r.randrange(1, len(payload))
    return struct.pack('!i', len(payload) - k) + payload
  if kind == 'negsize':
    return struct.pack('!i', r.choice([-1, -5, -2 ** 31])) + payload
  if kind == 'zerosize':
    return struct.pack('!i', 0) + payload
  if kind == 'rename_fire':
    return frame(strict(b'fire'))
  if kind == 'rename_ping':
    return frame(strict(b'ping'))
  if kind == 'rename_echo':
    return frame(strict(b'echo'))
  if kind == 'extrafield':
    return frame(strict(name, bd=body[:-1] + b'\x08\x00\x63\x00\x00\x00\x07' + b'\x0b\x00\x64\x00\x00\x00\x02hi' + b'\x00'))
  if kind == 'wrongtype':
    return frame(strict(name, bd=b'\x06\x00\x00\x00\x09' + b'\x00'))
  if kind == 'dupsuccess':
    return frame(strict(name, bd=b'\x0b\x00\x00\x00\x00\x00\x01a' + b'\x0b\x00\x00\x00\x00\x00\x02bc' + b'\x00'))
  if kind == 'appempty':      # an EXCEPTION message whose struct carries neither message nor type
    return frame(strict(name, mt=3, bd=b'\x00'))
  if kind == 'trailing':
    return frame(payload + b'\x01\x02\x03')
  if kind == 'seqid':
    return frame(strict(name, sq=struct.pack('!i', 77)))
  raise ValueError(kind)


def sizes_for(ch, total, frame_len):
  """Delivery sizes for a stream of `total` bytes whose first frame is `frame_len` bytes long."""
  import random
  r = random.Random(ch['seed'])
  k = ch['k']
  if total == 0:
    return []
  if k == 'whole':
    return [total]
  if k == 'ones':
    return [1] * total
  if k == 'twos':
    return [2] * (total // 2) + ([1] if total % 2 else [])
  if k in ('pre1', 'pre2', 'pre3'):
    a = min(int(k[3]), total)
    return [a] + ([total - a] if total > a else [])
  if k == 'frameend':
    a = min(max(frame_len, 1), total)
    return [a] + ([total - a] if total > a else [])
  if k == 'rand':
    p = r.choice([0.05, 0.3, 0.7])
    out = []
    cur = 0
    for _ in range(total):
      cur += 1
      if r.random() < p:
        out.append(cur)
        cur = 0
    if cur:
      out.append(cur)
    return out
  if k == 'cut':                            # exactly one split, at byte `at`
    a = max(1, min(ch['at'], total - 1)) if total > 1 else total
    return [a] + ([total - a] if total > a else [])
  if k == 'reset':                          # the peer resets the connection after `at` bytes: recv raises (-1 marker)
    at = r.randrange(0, total) if r.random() < 0.7 else r.choice([0, 1, 3, 4, 5, max(0, min(total, frame_len) - 1)])
    at = min(at, total)
    return ([at] if at else []) + [-1]
  if k in ('eof', 'eofend'):
    at = r.randrange(0, total) if r.random() < 0.7 else r.choice([0, 1, 2, 3, 4, 5, max(0, min(total, frame_len) - 1)])
    at = min(at, total)
    head = []
    if at:
      a = r.randrange(1, at + 1)
      head = [a] + ([at - a] if at > a else [])
    if k == 'eofend':
      return head                       # script simply ends after `at` bytes
    return head + [0] + ([total - at] if total > at else [])
  raise ValueError(k)


# ---------------------------------------------------------------------------------------------
# implementation driver
# ---------------------------------------------------------------------------------------------
def _sink_props():
  S = _S
  return {S['SinkProperties'].ServiceInterface: _iface().Iface, S['SinkProperties'].Label: 'c14',
          S['SinkProperties'].Endpoint: S['Endpoint']('c14host', 9)}


def _transport_provider(sock_kind):
  return _S['SocketTransportSink'].Builder() if sock_kind == 'varz' else _S['RawProvider']()


def _make_sink(sock_kind):
  ser = _S['ThriftSerializerSink'].Builder()
  ser.next_provider = _transport_provider(sock_kind)
  return ser.CreateSink(_sink_props())


class Loopback(object):
  """A transport that completes INSIDE AsyncProcessRequest (as a mock/in-process transport or a failing sink does):
  the request goes to the peer and the reply stream is handed back up the sink stack before the call returns.
  The framing is the harness's own here (pack('!i')), only the serializer sink and the response path are scales'."""

  def __init__(self):
    from scales.observable import Observable
    from scales.asynchronous import AsyncResult
    from scales.compat import BytesIO
    self.on_faulted = Observable()
    self._AR, self._BytesIO = AsyncResult, BytesIO
    self.state = _S['ChannelState'].Open

  def CreateSink(self, properties):
    return self

  def Open(self):
    ar = self._AR()
    ar.set()
    return ar

  def Close(self):
    pass

  def AsyncProcessRequest(self, sink_stack, msg, stream, headers):
    script = FakeSocket.current
    payload = stream.getvalue()
    script.sent.append(struct.pack('!i', len(payload)) + payload)
    script.stream, script.sizes = script.responder(b''.join(script.sent))
    script.queue = []
    data = script.stream
    if len(data) < 4:
      err = EOFError()                   # the peer sent nothing (oneway): what a transport reports as a fault
      self.on_faulted.Set(err)
      sink_stack.AsyncProcessResponseMessage(_S['MethodReturnMessage'](error=err))
      return
    sz = struct.unpack('!i', data[:4])[0]
    script.pos = 4 + sz
    sink_stack.AsyncProcessResponseStream(self._BytesIO(data[4:4 + sz]))


class Router(object):
  """Stands in for a pool below the serializer sink: the k-th request goes out on the k-th connection."""

  def __init__(self, transports):
    self.transports = transports
    self.n = 0

  def AsyncProcessRequest(self, sink_stack, msg, stream, headers):
    t = self.transports[self.n]
    self.n += 1
    t.AsyncProcessRequest(sink_stack, msg, stream, headers)

  def CreateSink(self, properties):
    return self


def _describe_exc(method, e, faulted):
  S = _S
  from thrift.Thrift import TApplicationException
  wrapped = isinstance(e, S['ScalesError'])
  inner = e.inner_exception if wrapped else e
  d = {'raise': type(e).__name__, 'wrapped': wrapped, 'inner_cls': type(inner).__name__, 'faulted': faulted}
  if isinstance(inner, TApplicationException):
    d['app'] = [inner.type, inner.message]
    return d
  rc = _result_cls(method)
  if rc is not None:
    for x in rc.thrift_spec[1:]:
      if x is not None and type(inner) is x[3][0]:
        try:
          d['declared'] = [x[0], x[2], to_json(inner, x[1], x[3])]
        except Unexpected as u:
          d['declared_bad'] = str(u)
        return d
  d['text'] = str(inner)[:200]
  return d


class Session(object):
  """One sink chain instance (ThriftSerializerSink -> SocketTransportSink -> socket).  With connections > 1 the
  serializer sink sits on a Router over that many transports, each with its own connection, so that several calls
  can be in flight through the one serializer sink at the same time."""

  def __init__(self, sock_kind, iface=None, connections=1):
    import gevent.event
    self.iface = iface or 'c14svc'
    _use(self.iface)
    FakeSocket.current = Script(lambda written: (b'', []), None)
    self.faults = {}
    self.fakes = []
    if sock_kind == 'inline':
      ser = _S['ThriftSerializerSink'].Builder()
      ser.next_provider = Loopback()
      self.sink = ser.CreateSink(_sink_props())
      self.transports = [self.sink.next_sink]
    elif connections == 1:
      self.sink = _make_sink(sock_kind)
      self.transports = [self.sink.next_sink]
    else:
      prov = _transport_provider(sock_kind)
      self.transports = [prov.CreateSink(_sink_props()) for _ in range(connections)]
      ser = _S['ThriftSerializerSink'].Builder()
      ser.next_provider = Router(self.transports)
      self.sink = ser.CreateSink(_sink_props())
    for k, t in enumerate(self.transports):
      self.faults[k] = []
      t.on_faulted.Subscribe(lambda v, k=k: self.faults[k].append(type(v).__name__))
      t.Open().get(timeout=5)
      self.fakes.append(FakeSocket.created[-1] if FakeSocket.created else None)
    self.Event = gevent.event.Event
    self.started = 0

  def close(self):
    for t in self.transports:
      try:
        t.Close()
      except Exception:
        pass

  def start(self, case, ch, gated=False):
    """Dispatches one call; returns the state needed by finish()."""
    S = _S
    import random
    _use(self.iface)
    iface = self.iface
    method = case['method']
    record = {}
    k = self.started if len(self.transports) > 1 else 0
    self.started += 1

    def responder(written):
      _use(iface)
      payload = serve(case, written, record)
      record['reply_payload_len'] = len(payload)
      if _result_cls(method) is None and not payload:
        stream = b''                   # oneway: the server sends nothing
        flen = 0
      else:
        stream = mangle(case.get('mangle'), payload, random.Random(case.get('mseed', 0)))
        flen = len(stream)
        if case.get('extra') == 'frame':
          stream += struct.pack('!i', 3) + b'abc'
        elif case.get('extra') == 'junk':
          stream += b'\xff\xfe\x00\x07'
      record['frame_len'] = flen
      return stream, sizes_for(ch, len(stream), flen)

    gate = self.Event() if gated else None
    script = Script(responder, case.get('send_cap'), gate)
    if len(self.transports) > 1:
      self.fakes[k]._script = script
    else:
      FakeSocket.current = script
    nfaults = len(self.faults[k])
    aspec = _params(method)
    memo = {} if case.get('alias') else None      # alias: equal sub-values are one and the same object
    args = tuple(from_json(a, e[1], e[3], memo) for a, e in zip(case['args'], aspec))
    by = {e[2]: e for e in aspec}
    kwargs = {kk: from_json(v, by[kk][1], by[kk][3], memo) for kk, v in case['kwargs'].items()}
    msg = S['MethodCallMessage'](_iface().Iface, method, args, kwargs)
    deadline = case.get('deadline')
    if case.get('deadline_past'):
      deadline = time.time() - 1.0
    ar = S['MessageDispatcher'].StaticDispatchMessage(self.sink, None, time.time(), deadline, msg)
    return dict(ar=ar, script=script, record=record, gate=gate, k=k, nfaults=nfaults, method=method)

  def finish(self, st):
    _use(self.iface)
    ar, script, method = st['ar'], st['script'], st['method']
    if st['gate'] is not None:
      st['gate'].set()
    ar.wait(timeout=10)
    run = {'sent': list(b''.join(script.sent)), 'pieces': len(script.sent), 'server': st['record'],
           'stream': list(script.stream or b''), 'sizes': script.sizes or [], 'left': script.left(), 'recvs': script.recvs}
    if not ar.ready():
      run['caller'] = {'hung': True}
      return run
    faulted = len(self.faults[st['k']]) > st['nfaults']
    if ar.successful():
      v = ar.value
      rc = _result_cls(method)
      succ = rc.thrift_spec[0] if rc is not None and rc.thrift_spec and rc.thrift_spec[0] is not None else None
      if v is None:
        run['caller'] = {'ret': None, 'faulted': faulted}
      else:
        try:
          if succ is None:
            raise Unexpected(repr(v))
          run['caller'] = {'ret': to_json(v, succ[1], succ[3]), 'faulted': faulted}
        except Unexpected as u:
          run['caller'] = {'ret_unexpected': str(u)[:200], 'is_exception': isinstance(v, BaseException),
                           'cls': type(v).__name__, 'faulted': faulted}
    else:
      run['caller'] = _describe_exc(method, ar.exception, faulted)
    return run

  def call(self, case, ch):
    return self.finish(self.start(case, ch))


def _one_run(case, ch):
  ses = Session(case['sock'], case.get('iface'))
  try:
    return ses.call(case, ch)
  finally:
    ses.close()


def _call_case(case, op):
  """One call of a sequence / of a set of overlapping calls as a stand-alone rpc case."""
  c = dict(op)
  c.update(kind='rpc', sock=case['sock'], ops=[op['ch']], iface=op.get('iface') or 'c14svc')
  return c


def _calls(case):
  """The call operations of a seq / overlap case, in the order they are issued."""
  return [op for op in _ops(case) if op.get('op', 'call') == 'call']


def _ops(case):
  """'ops' is what the runner's shrinker minimises; cases that must stay whole to be self-contained in a fresh process
  (two interfaces: the first call of a pair is what the second one depends on) carry their calls under 'calls'."""
  return case['ops'] if 'ops' in case else case['calls']


def run_impl(case):
  setup()
  _use(case.get('iface'))
  if case['kind'] == 'timeout':
    c = dict(case, args=[], kwargs={}, handler={'do': 'none'}, deadline=time.time() - 1.0)
    return {'runs': [_one_run(c, {'k': 'whole', 'seed': 0})]}
  if case['kind'] == 'seq':
    # several calls, in order, through ONE sink chain instance (and one connection) per interface
    # (op['inst'] selects one of several instances of the same interface's sink chain in this process)
    gevent = _S['gevent']
    sessions = {}
    runs = []
    ops = _ops(case)

    def session_of(op):
      key = (op.get('iface') or 'c14svc', op.get('inst', 0))
      if key not in sessions:
        sessions[key] = Session(case['sock'], key[0])
      return sessions[key]
    try:
      if case.get('reentrant'):
        # every call but the first is issued from INSIDE the completion callback of the one before it
        for op in ops:
          session_of(op)
        states = [None] * len(ops)
        errors = []

        def issue(i):
          try:
            st = session_of(ops[i]).start(_call_case(case, ops[i]), ops[i]['ch'])
            states[i] = st
            if i + 1 < len(ops):
              st['ar'].rawlink(lambda _ar: issue(i + 1))
          except BaseException as e:      # would otherwise vanish in the hub
            errors.append('%s: %s' % (type(e).__name__, e))
        issue(0)
        for i, op in enumerate(ops):
          for _ in range(2000):
            if states[i] is not None or errors:
              break
            gevent.sleep(0.001)
          if states[i] is None:
            raise RuntimeError('call %d was never issued from the completion callback: %s' % (i, errors))
          runs.append(session_of(op).finish(states[i]))
      else:
        for op in ops:
          runs.append(session_of(op).call(_call_case(case, op), op['ch']))
    finally:
      for ses in sessions.values():
        ses.close()
    return {'runs': runs}
  if case['kind'] == 'overlap':
    # calls in flight at the same time through ONE serializer sink, each on its own connection; a 'reply' operation
    # lets the peer of that call answer (replies not released by the end are released in call order)
    gevent = _S['gevent']
    calls = _calls(case)
    ses = Session(case['sock'], None, connections=max(2, len(calls)))
    states = {}
    runs = {}
    try:
      for op in case['ops']:
        if op.get('op', 'call') == 'call':
          st = ses.start(_call_case(case, op), op['ch'], gated=True)
          states[op['id']] = st
          for _ in range(50):                 # let the call be serialized and written; it then waits for its reply
            gevent.sleep(0)
            if st['script'].sent or st['ar'].ready():
              break
          gevent.sleep(0)
        elif op['id'] in states and op['id'] not in runs:
          runs[op['id']] = ses.finish(states[op['id']])
      for op in calls:
        if op['id'] not in runs:
          runs[op['id']] = ses.finish(states[op['id']])
    finally:
      for st in states.values():
        st['gate'].set()
      ses.close()
    return {'runs': [runs[op['id']] for op in calls]}
  runs = []
  for i, ch in enumerate(case['ops']):
    runs.append(_one_run(case, ch))
  return {'runs': runs}


# ---------------------------------------------------------------------------------------------
# monitor: the property statement, checked with the Thrift library as the only codec
# ---------------------------------------------------------------------------------------------
def _encodable(j, ttype, targs):
  if j is None:
    return True
  if ttype in EDGE:
    return EDGE[ttype][0] <= j <= EDGE[ttype][1]
  if ttype == T_STRING and targs != 'BINARY':
    try:
      j.encode('utf-8')
      return True
    except UnicodeEncodeError:
      return False
  if ttype == T_LIST:
    return all(_encodable(x, targs[0], targs[1]) for x in j)
  if ttype == T_STRUCT:
    return all(_encodable(j.get(e[2]), e[1], e[3]) for e in targs[0].thrift_spec if e is not None)
  return True


def _supplied(case):
  """argument name -> JSON value as supplied (None / absent = not sent); positional arguments bind to the
  parameters in declaration order, as in any Python call of the service method."""
  aspec = _params(case['method'])
  d = {}
  for a, e in zip(case['args'], aspec):
    if a is not None:
      d[e[2]] = a
  for k, v in case['kwargs'].items():
    if v is not None:
      d[k] = v
  return d


def _norm(j):
  """absent struct fields and None are the same thing on the wire."""
  if isinstance(j, dict):
    return {k: _norm(v) for k, v in j.items() if v is not None}
  if isinstance(j, list):
    return [_norm(x) for x in j]
  return j


def _library_client_outcome(method, payload):
  """What the Thrift library's own generated Client makes of the reply payload."""
  from thrift.Thrift import TApplicationException
  svc = _iface()
  _tb, prot = _lib_protocol(payload)
  try:
    v = getattr(svc.Client(prot), 'recv_' + method)()
    return ('ret', v)
  except TApplicationException as e:
    return ('app', e)
  except Exception as e:      # declared exception or a decoding failure
    return ('exc', e)


def monitor(case, obs):
  if case['kind'] in ('seq', 'overlap'):
    # every call must satisfy the property on its own, whatever else went / is going through the same sink:
    # its frame decodes to its method and arguments, its reply gives what the Processor produced for THAT call
    v = []
    calls = _calls(case)
    for i, (op, run) in enumerate(zip(calls, obs['runs'])):
      if case['kind'] == 'seq':
        ctx = 'call #%d of the sequence (%s.%s, %d bytes sent; before it: %s)' % (
            i, op.get('iface') or 'c14svc', op['method'], len(run['sent']),
            ', '.join('%s.%s(%d B)' % (o.get('iface') or 'c14svc', o['method'], len(r['sent']))
                      for o, r in zip(calls[:i], obs['runs'][:i])) or 'nothing')
      else:
        ctx = 'call id %s (%s) of overlapping calls through one serializer sink, operation order %s' % (
            op['id'], op['method'], ' '.join('%s%s' % ('call:' + o['method'] + '#' if o.get('op', 'call') == 'call' else 'reply#', o['id'])
                                             for o in case['ops']))
      for sig, m in monitor(_call_case(case, op), {'runs': [run]}):
        v.append((sig, '%s: %s' % (ctx, m)))
    return v
  v = []
  _use(case.get('iface'))
  method = case['method']
  if case['kind'] == 'timeout' or case.get('deadline_past'):
    c = obs['runs'][0]['caller']
    if c.get('raise') != 'TimeoutError' or c.get('wrapped'):
      v.append(('timeout-shape', 'expired deadline gave %s' % c))
    if obs['runs'][0]['sent']:
      v.append(('timeout-wrote', 'request written although the deadline had passed'))
    return v
  aspec = [e for e in _args_spec(method) if e is not None]
  sup = _supplied(case)
  enc_ok = all(_encodable(sup.get(e[2]), e[1], e[3]) for e in aspec)
  rc = _result_cls(method)
  oneway = rc is None
  outcomes = []
  for ri, run in enumerate(obs['runs']):
    c = run['caller']
    sent = bytes(run['sent'])
    if c.get('hung'):
      v.append(('caller-hung', 'no result after 10 s (run %d)' % ri))
      continue
    if 'ret' in c and isinstance(c['ret'], dict) and '_unexpected' in c['ret']:
      pass
    # ---- a returned value is never an exception object -------------------------------------------
    if c.get('is_exception'):
      v.append(('exception-returned-as-value', 'caller of %s received a %s object as the return value: %s' %
                (method, c.get('cls'), c.get('ret_unexpected'))))
      continue
    if 'ret_unexpected' in c:
      v.append(('value-mismatch', 'caller of %s received a value of the wrong shape: %s' % (method, c['ret_unexpected'])))
      continue
    # ---- request side ------------------------------------------------------------------------------
    if not enc_ok:
      if sent or 'raise' not in c:
        v.append(('unencodable-accepted', 'an argument outside the wire format was not rejected: %s' % c))
      continue
    if not sent:
      v.append(('encodable-rejected', 'encodable call raised %s / wrote nothing' % c))
      continue
    srv = run['server']
    if len(sent) < 4 or srv.get('declared_size') != len(sent) - 4:
      v.append(('frame-length', 'length prefix %s but %d bytes follow' % (srv.get('declared_size'), len(sent) - 4)))
      continue
    if srv.get('server') != 'ok':
      v.append(('call-undecodable', 'the library Processor could not decode the call: %s' % srv.get('server')))
      continue
    if srv.get('unread'):
      v.append(('call-trailing-bytes', '%d bytes after the call message' % srv['unread']))
    want_type = 4 if oneway else 1
    if srv.get('begin') is None or srv['begin'][0] != method:
      v.append(('call-method', 'server saw message %s for a call of %s' % (srv.get('begin'), method)))
      continue
    if srv['begin'][1] != want_type:
      v.append(('call-type', 'message type %s, expected %d' % (srv['begin'][1], want_type)))
    if len(srv.get('calls', [])) != 1 or srv['calls'][0][0] != method:
      v.append(('call-method', 'handler calls %s' % srv.get('calls')))
      continue
    if _norm(srv['calls'][0][1]) != _norm(sup):
      v.append(('call-args', 'server decoded %s, supplied %s' % (str(srv['calls'][0][1])[:300], str(sup)[:300])))
    # ---- reply side ----------------------------------------------------------------------------------
    if oneway:
      continue            # nothing comes back; the transport reports the closed script as an error
    stream = bytes(run['stream'])
    sizes = run['sizes']
    delivered = 0
    reset = False
    for s in sizes:
      if s <= 0:
        reset = s < 0
        break
      delivered += s
    mg = case.get('mangle')
    if len(stream) < 4:
      continue
    declared = struct.unpack('!i', stream[:4])[0]
    need = 4 + max(declared, 0)
    if delivered < min(4, len(stream)) or (declared >= 0 and delivered < need):
      # the stream ended (0-byte read) before the frame was complete: must be an error, never a value
      if 'raise' not in c:
        v.append(('eof-not-error', 'reply cut after %d of %d bytes gave %s' % (delivered, need, c)))
      elif c.get('inner_cls') != ('ConnectionResetError' if reset else 'EOFError') and mg not in ('negsize',):
        v.append(('eof-not-error', 'reply cut after %d of %d bytes gave %s' % (delivered, need, c)))
      continue
    if declared >= 0 and run['left'] != sum(sizes) - need:
      v.append(('consumed-wrong', 'frame is %d bytes, %d of %d left unread' % (need, run['left'], sum(sizes))))
    outcomes.append((ri, c))
    if mg in ('badversion', 'trunc', 'negsize', 'zerosize'):
      if 'raise' not in c:
        v.append(('malformed-accepted', '%s reply gave %s' % (mg, c)))
      continue
    payload = stream[4:need]
    # the library's own client on the same payload
    lib = _library_client_outcome(method, payload) if mg not in ('rename_fire', 'rename_ping', 'rename_echo') else None
    h = case['handler']
    # expected outcome straight from the handler script (no codec involved)
    if mg is None or mg in ('nonstrict', 'trailing', 'seqid', 'extrafield'):
      rspec = rc.thrift_spec
      succ = rspec[0] if rspec and rspec[0] is not None else None
      if h['do'] == 'ret' and (succ is None or h['value'] is None):
        if succ is None:
          if c.get('ret', 0) is not None or 'raise' in c:
            v.append(('void-not-none', 'void reply of %s gave %s' % (method, c)))
        else:
          if c.get('app', [None])[0] != 5 or not c.get('wrapped'):
            v.append(('missing-result-not-error', 'empty result of %s gave %s' % (method, c)))
      elif h['do'] == 'ret':
        if 'ret' not in c or _norm(c['ret']) != _norm(h['value']):
          v.append(('value-mismatch', 'handler returned %s, caller got %s' % (str(h['value'])[:200], str(c)[:200])))
      elif h['do'] == 'declared':
        d = c.get('declared')
        if not c.get('wrapped') or d is None or d[1] != h['field'] or _norm(d[2]) != _norm(h['value']):
          v.append(('declared-exception-lost', 'handler of %s raised %s %s, caller got %s' %
                    (method, h['field'], str(h['value'])[:200], str(c)[:300])))
      elif h['do'] == 'app':
        if not c.get('wrapped') or c.get('app') != [h['type'], h['message']]:
          v.append(('app-exception-lost', 'server raised TApplicationException(%r, %r), caller got %s' %
                    (h['type'], h['message'], str(c)[:300])))
      elif h['do'] == 'other':
        if not c.get('wrapped') or c.get('app') != [6, 'Internal error']:
          v.append(('app-exception-lost', 'unexpected server failure, caller got %s' % str(c)[:300]))
    # agreement with the library's own client (covers the mangled-but-decodable replies too)
    if lib is not None:
      from thrift.Thrift import TApplicationException
      kind, val = lib
      if kind == 'ret':
        rspec = rc.thrift_spec
        succ = rspec[0] if rspec and rspec[0] is not None else None
        want = to_json(val, succ[1], succ[3]) if (succ is not None and val is not None) else None
        if 'ret' not in c or _norm(c['ret']) != _norm(want):
          v.append(('library-client-disagrees', 'library client returns %s, scales gave %s' % (str(want)[:200], str(c)[:200])))
      elif kind == 'app':
        if c.get('app') != [val.type, val.message] or not c.get('wrapped'):
          v.append(('library-client-disagrees', 'library client raises TApplicationException(%r, %r), scales gave %s' %
                    (val.type, val.message, str(c)[:200])))
      else:
        decl = [x for x in rc.thrift_spec[1:] if x is not None and type(val) is x[3][0]]
        if decl:
          d = c.get('declared')
          if d is None or not c.get('wrapped') or _norm(d[2]) != _norm(to_json(val, decl[0][1], decl[0][3])):
            v.append(('declared-exception-lost', 'library client raises %r, scales gave %s' % (val, str(c)[:300])))
        elif 'raise' not in c:
          v.append(('malformed-accepted', 'library client fails with %r, scales gave %s' % (val, str(c)[:200])))
    if 'raise' in c and not c.get('wrapped'):
      v.append(('error-not-wrapped', 'error reached the caller without ScalesError: %s' % c))
  # ---- the outcome does not depend on the chunking -------------------------------------------------
  if len(outcomes) > 1:
    base = C.canon(_strip(outcomes[0][1]))
    for ri, c in outcomes[1:]:
      if C.canon(_strip(c)) != base:
        v.append(('chunking-dependent', 'chunking %s gave %s but chunking %s gave %s' %
                  (case['ops'][outcomes[0][0]], str(outcomes[0][1])[:200], case['ops'][ri], str(c)[:200])))
        break
  # the request bytes do not depend on the run either
  sents = set(bytes(r['sent']) for r in obs['runs'])
  if len(sents) > 1:
    v.append(('request-not-deterministic', 'the same call produced %d different byte strings' % len(sents)))
  return v


def _strip(c):
  return {k: x for k, x in c.items() if k not in ('text',)}


# ---------------------------------------------------------------------------------------------
# translation to Coq terms
# ---------------------------------------------------------------------------------------------
DECODE_ERRORS = ('EOFError', 'TProtocolException', 'error', 'UnicodeDecodeError', 'OverflowError', 'MemoryError')


def _caller_term(method, c, eof_ok):
  if 'hung' in c or 'ret_unexpected' in c:
    return 'CRaise false XOther'
  if 'raise' not in c:
    if c['ret'] is None:
      return 'CReturn None'
    rc = _result_cls(method)
    succ = rc.thrift_spec[0]
    return 'CReturn (Some %s)' % tval(c['ret'], succ[1], succ[3])
  w = C.blit(c['wrapped'])
  if 'app' in c:
    t, m = c['app']
    return 'CRaise %s (XApp %s %s)' % (w, C.opt(None if m is None else C.bytes_lit(m.encode('utf-8'))), C.zlit(t))
  if 'declared' in c:
    fid, _name, j = c['declared']
    rc = _result_cls(method)
    e = [x for x in rc.thrift_spec if x is not None and x[0] == fid][0]
    return 'CRaise %s (XDeclared %s %s)' % (w, C.zlit(fid), tval(j, e[1], e[3]))
  ic = c.get('inner_cls')
  if ic == 'TimeoutError':
    return 'CRaise %s XTimeout' % w
  if ic == 'EOFError' and c.get('faulted'):
    return 'CRaise %s XEof' % w
  if ic == 'ValueError' and c.get('faulted'):
    return 'CRaise %s XBadSize' % w
  if ic in DECODE_ERRORS and not c.get('faulted'):
    return 'CRaise %s XDecode' % w
  return 'CRaise %s XOther' % w


def to_coq(case, obs):
  _use(case.get('iface'))
  if case['kind'] in ('seq', 'overlap'):
    terms = []
    for op, run in zip(_calls(case), obs['runs']):
      t = to_coq(_call_case(case, op), {'runs': [run]})
      if t is not None:
        terms.append(t)
    return terms or None
  method = case['method']
  if case['kind'] == 'timeout' or case.get('deadline_past'):
    return 'CTimeout (%s)' % _caller_term(method, obs['runs'][0]['caller'], False)
  run0 = obs['runs'][0]
  if any(len(r['sent']) > MAX_COQ_BYTES or len(r['stream']) > MAX_COQ_BYTES for r in obs['runs']):
    return None
  aspec = [e for e in _args_spec(method) if e is not None]
  sup = _supplied(case)
  try:
    args = fields_term(sup, _args_spec(method))
  except UnicodeEncodeError:
    return None            # lone surrogate: no UTF-8 bytes to hand to the model (monitor requires an error)
  sent = bytes(run0['sent'])
  runs = []
  stream = run0['stream']
  if sent:
    for r in obs['runs']:
      if r['stream'] != stream or any(x < 0 for x in r['sizes']):
        continue             # connection reset by the peer: an exception out of recv is outside the model (monitor only)
      c = r['caller']
      left = r['left']
      if c.get('inner_cls') == 'EOFError' and c.get('faulted'):
        left = 0
      runs.append('{| r_sizes := %s; r_caller := %s; r_left := %s |}' %
                  (C.zlist(r['sizes']), _caller_term(method, c, True), C.zlit(left)))
  return 'CRpc %s %s %s %s %s %s %s %s' % (IFACES[case.get('iface') or 'c14svc'][2], C.bytes_lit(method.encode()), C.blit(_result_cls(method) is not None), args,
                                              C.opt(C.bytes_lit(sent)) if sent else 'None',
                                              C.blit(case['sock'] != 'scales'), C.bytes_lit(stream), C.lst(runs))


def nontrivial(case, obs):
  if case['kind'] not in ('rpc', 'seq', 'overlap'):
    return False
  return any(r['sent'] and r['stream'] for r in obs['runs'])


def describe(case, obs):
  o = {'runs': []}
  for r in obs['runs'][:2]:
    rr = dict(r)
    for k in ('sent', 'stream', 'sizes'):
      if len(rr.get(k, [])) > 48:
        rr[k] = rr[k][:48] + ['...%d more' % (len(rr[k]) - 48)]
    o['runs'].append(rr)
  c = dict(case)
  for k in ('args',):
    if len(str(c.get(k))) > 400:
      c[k] = str(c[k])[:400] + '...'
  if len(str(c.get('handler'))) > 400:
    c['handler'] = str(c['handler'])[:400] + '...'
  return {'case': c, 'obs': o}


def stats(cases, obs):
  out = {'outcome_kinds': {}, 'methods': {}, 'chunkings': {}, 'mangles': {}, 'sockets': {}, 'inner_exception_classes': {},
         'runs': 0, 'eof_runs': 0, 'calls_rejected_unencodable': 0, 'partial_send_cases': 0, 'non_ascii_calls': 0,
         'sequences': 0, 'sequence_calls': 0, 'sequence_lengths': {}, 'sequence_size_steps': {'shorter': 0, 'equal': 0, 'longer': 0},
         'sequence_calls_after_rejected_call': 0}

  def bump(d, k):
    d[str(k)] = d.get(str(k), 0) + 1
  for c0, o in zip(cases, obs):
    if not isinstance(o, dict) or 'runs' not in o:
      continue
    if c0.get('kind') == 'overlap':
      out['overlap_cases'] = out.get('overlap_cases', 0) + 1
      out['overlap_calls'] = out.get('overlap_calls', 0) + len(o['runs'])
      units = [(_call_case(c0, op), [op['ch']], [r]) for op, r in zip(_calls(c0), o['runs'])]
    elif c0.get('kind') == 'seq':
      a = out.setdefault('audit_dimensions', {})
      if c0.get('reentrant'):
        bump(a, 'sequences_issued_from_completion_callback')
      if len(set(op.get('inst', 0) for op in _ops(c0))) > 1:
        bump(a, 'sequences_over_two_instances_of_one_chain')
      if any(op.get('deadline_past') for op in _ops(c0)):
        bump(a, 'sequences_with_timed_out_call_and_reconnect')
      if len(_ops(c0)) >= 20:
        bump(a, 'sequences_of_20_to_40_calls')
      out['sequences'] += 1
      bump(out['sequence_lengths'], len(_ops(c0)))
      if len(set(op.get('iface') or 'c14svc' for op in _ops(c0))) > 1:
        out['two_interface_sequences'] = out.get('two_interface_sequences', 0) + 1
      units = [(_call_case(c0, op), [op['ch']], [r]) for op, r in zip(_ops(c0), o['runs'])]
      prev = None
      for r in o['runs']:
        n = len(r['sent'])
        out['sequence_calls'] += 1
        if prev is not None:
          out['sequence_size_steps']['shorter' if n < prev else 'equal' if n == prev else 'longer'] += 1
          if prev == 0:
            out['sequence_calls_after_rejected_call'] += 1
        prev = n
    else:
      units = [(c0, c0.get('ops', [{'k': 'timeout'}]), o['runs'])]
    a = out.setdefault('audit_dimensions', {})
    if c0.get('alias'):
      bump(a, 'calls_with_aliased_argument_objects')
    if c0.get('sock') == 'inline':
      bump(a, 'cases_on_inline_completing_transport')
    if c0.get('kind') == 'rpc' and c0.get('ops') and c0['ops'][0].get('k') == 'cut':
      a['single_split_positions'] = a.get('single_split_positions', 0) + len(c0['ops'])
    if c0.get('kind') == 'rpc' and any(len(r.get('sent', [])) > 60000 for r in o['runs']):
      bump(a, 'calls_around_64KiB')
    for c, chs, runs in units:
      bump(out['methods'], (c.get('iface') or 'c14svc') + '.' + str(c.get('method')))
      bump(out['mangles'], c.get('mangle'))
      bump(out['sockets'], c.get('sock'))
      if c.get('send_cap') and c.get('sock') == 'scales':
        out['partial_send_cases'] += 1
      if any(ord(ch) > 127 for ch in str(c.get('args')) + str(c.get('kwargs'))):
        out['non_ascii_calls'] += 1
      for ch, r in zip(chs, runs):
        out['runs'] += 1
        bump(out['chunkings'], ch['k'])
        cl = r['caller']
        if 'raise' in cl:
          k = 'app' if 'app' in cl else 'declared' if 'declared' in cl else cl.get('inner_cls')
          bump(out['outcome_kinds'], 'raise:' + str(k) + ('' if cl.get('wrapped') else ':unwrapped'))
          bump(out['inner_exception_classes'], cl.get('inner_cls'))
          if cl.get('inner_cls') == 'EOFError' and cl.get('faulted'):
            out['eof_runs'] += 1
          if not r['sent']:
            out['calls_rejected_unencodable'] += 1
        elif 'ret' in cl:
          bump(out['outcome_kinds'], 'none' if cl['ret'] is None else 'value')
        else:
          bump(out['outcome_kinds'], 'other')
  return out
