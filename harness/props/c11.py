"""C11 - Multiplexed requests carry unique, unreserved tags that are recycled safely.

Implementation under test (imported from $SCALES_REPO as it is now):
  suite (a) 'pool' / 'fill' : scales.mux.sink.TagPool driven in lock-step (get / release histories, including
            foreign and double releases; the element chosen by set.pop() is observed and handed to the model)
  suite (b) 'mux'           : the real scales.thriftmux.sink.SocketTransportSink (and scales.kafka.sink.
            KafkaTransportSink) opened on an in-memory socket object.  The real _RecvLoop / _SendLoop /
            _ProcessReply greenlets run under gevent; the harness owns the three places where the environment
            enters: the socket (records writes, is fed peer frames, can fail), the send queue class (a Queue
            that hands an item to _SendLoop only when the harness grants a step, so every interleaving of
            "request queued / deadline fires / frame written" can be scheduled) and gevent.spawn inside
            scales.observable (the notification greenlet of a deadline event runs when the op list says so).
            Deadlines are signalled exactly as ClientTimeoutSink does: evt = Observable() stored under
            Deadline.EVENT_KEY, evt.Set(True) at expiry.
            Histories also contain: a call's sink stack that, from inside its reply/error callback, dispatches a new
            request, calls Close() or raises (Exception and a BaseException subclass of gevent.Timeout; raising only on
            reply delivery - a callback raising inside _Shutdown's error loop leaves calls unanswered, which is C02's
            subject, not a tag question); requests issued while Open() is pending and every way that open ends (ping
            answered, EOF, Close(), connect refused); Open() again on the closed sink object; a second sink instance in
            the same process driven in between; the same message object dispatched again; frames arriving in two pieces
            or several per segment; socket writes that stay in progress while other things happen and then finish or fail.
            One op may therefore stand for several model labels: the harness records begin/end markers of what it did
            (and a marker when a peer frame starts being processed), linearise() turns them into the label group.
Model: coq/Model/MuxTags.v.  Monitor: an independent bookkeeping of who holds which tag, computed from the
frames queued/written (tags parsed off the wire bytes by decode_written), the frames the scripted peer sent and the
get()/release() calls the sink makes on its TagPool (never from the model, never from the sink's private fields).
"""
import collections
import io
import logging
import struct
import sys

from .. import common as C

PID = 'C11'
PROPS_FILE = 'Props/C11.v'
COQ_HEADER = 'From Scales Require Import Model.MuxTags.'
COQ_CASE_TYPE = 'MuxTags.case'
COQ_CHECK = 'MuxTags.check_case'
COQ_EXPLAIN = 'MuxTags.explain_case'
SHARD = 120
WORKERS = 4
RULE = ('suite (a): seeded TagPool histories (max_tag 3..9 and 2^24-1; get / release of held, free, foreign, reserved tags) '
        'plus fill-to-exhaustion runs (thorough: the real TagPool(2^24-1), 16.7M get() calls); suite (b): seeded op lists for the '
        'real ThriftMux / Kafka transport sink on an in-memory socket: requests without deadline, with a pending deadline, with an '
        'already expired one; send-loop steps (write ok / write fails); deadline firing and its notification greenlet scheduled '
        'independently; peer frames of 12 types on tags 0, 1, live, free, never-issued, 2^24-1, duplicates and premature '
        'replies; frames cut in two at every byte position, 2-5 frames per segment; short frames; pings; Close / EOF; writes that '
        'stay in progress and later finish or fail; sink-stack callbacks that re-enter the sink (new request - up to 3 deep -, Close()) '
        'or raise (Exception / BaseException); requests (also with deadlines expiring) issued while Open() is pending, ended by ping '
        'reply / EOF / Close(); re-open on a new sink (eager, pending, connect refused); Open() again on the closed sink object; '
        '~20% of the cases drive a second sink instance in the same process in between; the same message object dispatched again; '
        'TagPool sizes 2..7 to reach exhaustion and '
        'the real 2^24-1; in ~30% of the real-size cases the pool of every connection is fast-forwarded (high-water mark 254, 255, '
        '4094, 2^16-4..2^16+1, 2^17-2.., 2^20-1, 2^23-2.., 2^24-40..2^24-3 or random) so that tags around every byte boundary and '
        'up to 2^24-2 (then refusal) go through the real header writer, with peer frames aimed at those tags and at their 8/16/23-bit '
        'truncations; scripted time-out-before/after-send and late-reply scenarios interleaved with the random ops; steady '
        'long runs (400 / 2 000 / 100 000 requests, at most 8 unanswered: highest tag must stay <= 9). non-trivial = at least one '
        'request frame was written and a tag was recycled or a request refused; distinct by canonical JSON of (case, observation)')
TRUSTED = ['in-memory socket / step-granting queue / captured Observable notification / lease-recording TagPool proxy in '
           'harness/props/c11.py (the only replaced collaborators; TagPool, both transport sinks, Observable, AsyncResult and gevent are the real ones)',
           'independent tag bookkeeping in monitor() of harness/props/c11.py']
ASSUMPTIONS = ['a pool fast-forwarded to high-water mark b (b-1 real get() calls for b <= 4096, TagPool._next = b above) stands for a '
               'pool whose tags 2..b are leased to holders outside the run; the fill cases / C11_fill tie that state to b-1 get() calls, '
               'and the theorems hold for every start mark (cfg.base)',
               'gevent greenlets only switch at blocking calls, so AsyncProcessRequest, one _SendLoop iteration, one '
               '_ProcessReply and one notification callback are atomic (the labels of the model)',
               'a request is "answered" when the peer sends a non-ping frame naming its tag while the request holds that tag '
               '(a peer that answers before the request frame is written has answered it)',
               'TagPool sizes below 2^24-1 are substituted through the TagPool(max_tag, ..) constructor argument only; the '
               'argument the sink passes itself is observed and must be 2^24-1',
               'a re-open is a new sink object on a new connection; Open() on the closed sink object itself is the label OpenAgain '
               '(it never serves a request again: _state stays Closed)',
               'a re-entrant call made by a sink-stack callback is modelled as the label that follows the enclosing one: in every such '
               'path of this sink (_ProcessTaggedReply, the not-open answer, the error loop of _Shutdown) the enclosing step has made '
               'all its tag-related state changes before the callback runs']

MANIFEST = {
    'text': ('Theorems C11_range(_real), C11_reserved, C11_unique, C11_unique_wire, C11_unanswered_hold, C11_release_points, C11_reuse, '
             'C11_reuse_peak, C11_exhaustion, C11_no_early_refusal and C11_fill hold for every label sequence (requests, send-loop steps, '
             'deadline firing/notification, arbitrary peer frames, pings, shutdown, re-open, Open() again; no bound on length, every set.pop() '
             'outcome, every start mark of the pool) '
             'of the Gallina transcription of TagPool and the mux transport; the transcription is compared event for event with the real '
             'TagPool and the real ThriftMux/Kafka transport sinks on ~2k (quick) / ~19k (thorough) generated histories per run, and an '
             'independent monitor checks the property on the tags parsed off the queued/written frames (compared with the tags leased '
             'from the pool, also for pools fast-forwarded to 2^16 and 2^24-2).'),
    'note': ('Trusted: Coq kernel; the harness (in-memory socket, step-granting send queue, captured notification greenlet) and its '
             'sampling of schedules; atomicity of greenlet code between blocking calls. All theorems closed under the global context.'),
    'technique': 'Coq proof (inductive invariant over all label sequences) + lock-step / trace-driven differential execution model vs code',
    'design_ref': 'DESIGN.md section 5, C11; section 6, F9',
}

REAL_MAX = 2 ** 24 - 1
_S = {}
_CUR = {'ev': None, 'queues': None, 'pending': None, 'evt_call': None, 'helpers': None, 'pool_args': None, 'max': None,
        'start': None, 'proto': None}
FFWD_BY_CALLS = 4096     # fast-forward a pool by really calling get() up to this mark, above it by setting the mark


def _emit(*e):
  if _CUR['ev'] is not None:
    _CUR['ev'].append(list(e))


# ---------------------------------------------------------------------------------------------
# replaced collaborators
# ---------------------------------------------------------------------------------------------
def _make_world():
  import gevent
  from gevent.event import Event

  class HarnessError(Exception):
    """Raised by a sink-stack callback on purpose."""

  class HarnessTimeout(gevent.Timeout):
    """A BaseException (not an Exception) raised by a sink-stack callback on purpose."""

  hub = gevent.get_hub()
  hub.NOT_ERROR = tuple(hub.NOT_ERROR) + (HarnessError, HarnessTimeout)     # do not print them when they end a greenlet

  class CtlQueue(object):
    """Stands in for gevent.queue.Queue inside scales.mux.sink: get() returns only when the harness granted a step."""

    def __init__(self, *a, **kw):
      self.items = collections.deque()
      self.permits = 0
      self.ev = Event()
      if _CUR['queues'] is not None:
        _CUR['queues'].append(self)

    def put(self, x):
      self.items.append(x)
      _emit('enq', bytes(x[0]))
      self.ev.set()

    def get(self):
      while not (self.permits > 0 and self.items):
        self.ev.clear()
        self.ev.wait()
      self.permits -= 1
      x = self.items.popleft()
      _emit('take', bytes(x[0]))
      return x

    def qsize(self):
      return len(self.items)

    def grant(self):
      self.permits += 1
      self.ev.set()

  class ObsGevent(object):
    """gevent as seen by scales.observable: the notification greenlet of a call's deadline event is held back."""

    def __getattr__(self, k):
      return getattr(gevent, k)

    def spawn(self, fn, *a, **kw):
      owner = getattr(fn, '__self__', None)
      cm = _CUR['evt_call']
      if cm is not None and id(owner) in cm:
        _CUR['pending'].setdefault(cm[id(owner)], []).append((fn, a, kw))
        return None
      return gevent.spawn(fn, *a, **kw)

  class MuxGevent(object):
    """gevent as seen by scales.thriftmux.sink: spawned helper greenlets are remembered so they can be killed."""

    def __getattr__(self, k):
      return getattr(gevent, k)

    def spawn(self, fn, *a, **kw):
      g = gevent.spawn(fn, *a, **kw)
      if _CUR['helpers'] is not None:
        _CUR['helpers'].append(g)
      return g

  class FakeSocket(object):
    host = 'peer'
    port = 1

    def __init__(self, inst):
      self.inst = inst
      self.rx = b''
      self.ev = Event()
      self.err = None
      self.fail_write = False
      self.fail_open = False
      self.slow = False          # the next write blocks after the bytes are out, until the harness finishes it
      self.blocked = False
      self.wgate = Event()
      self.wfail = False
      self.closed = False

    def open(self):
      if self.fail_open:
        raise IOError('connection refused')

    def isOpen(self):
      return not self.closed

    def close(self):
      self.closed = True
      _emit('closed')
      self.ev.set()

    def write(self, b):
      if self.fail_write:
        _emit('wr-fail')
        raise IOError('broken pipe')
      b = bytes(b)
      _emit('wr', b)
      d = decode_written(_CUR['proto'], b)
      if d[0] == 'req' and d[2] in self.inst.calls:
        self.inst.calls[d[2]]['written'] = True
      if self.slow:
        self.slow = False
        self.blocked = True
        self.wgate.clear()
        try:
          self.wgate.wait()
        finally:
          self.blocked = False
        if self.wfail:
          self.wfail = False
          raise IOError('connection reset during write')

    def finish_write(self, ok):
      self.wfail = not ok
      self.wgate.set()

    def readAll(self, n):
      while len(self.rx) < n:
        if self.err is not None:
          raise self.err
        if self.closed:
          raise IOError('socket closed')
        self.ev.clear()
        self.ev.wait()
      r, self.rx = self.rx[:n], self.rx[n:]
      return r

    def feed(self, b):
      self.rx += b
      self.ev.set()

  class Stack(object):
    """What a call's sink stack receives; optionally re-enters the sink (or raises) from inside the callback."""

    def __init__(self, inst, cn, c, then):
      self.inst = inst
      self.cn = cn
      self.c = c
      self.then = then

    def Push(self, *a):
      pass

    def _done(self):
      cl = self.inst.calls.get(self.c)
      if cl is not None:
        cl['done'] = True

    def _react(self, stream_reply):
      a, self.then = self.then, None
      if not a:
        return
      if a[0] == 'raise':
        if stream_reply:
          _emit('note', 'callback-raises-' + ('BaseException' if a[1] == 'T' else 'Exception'))
          raise (HarnessTimeout() if a[1] == 'T' else HarnessError('callback failed'))
        self.then = a          # only reply deliveries raise (see the module docstring)
      elif self.cn is self.inst.cn:
        if a[0] == 'req':
          _emit('note', 'reentrant-request')
          self.inst.do_req(a)
        elif a[0] == 'close':
          _emit('note', 'reentrant-close')
          _emit('begin', 'shutdown')
          self.cn.sink.Close()
          _emit('end')

    def AsyncProcessResponseStream(self, stream):
      _emit('deliver', self.c, bytes(stream.getvalue()))
      self._done()
      self._react(True)

    def AsyncProcessResponseMessage(self, msg):
      _emit('error', self.c, type(msg.error).__name__, str(msg.error))
      self._done()
      self._react(False)

    def AsyncProcessResponse(self, stream, msg):
      _emit('error', self.c, 'AsyncProcessResponse', '')

  return CtlQueue, ObsGevent, MuxGevent, FakeSocket, Stack


class _WarnCatcher(logging.Handler):
  def __init__(self):
    logging.Handler.__init__(self, logging.WARNING)
    self.n = 0

  def emit(self, record):
    self.n += 1


def setup():
  if _S:
    return
  if C.REPO not in sys.path:
    sys.path.insert(0, C.REPO)
  import gevent
  import scales
  assert scales.__file__.startswith(C.REPO), scales.__file__
  import scales.mux.sink as ms
  import scales.thriftmux.sink as tms
  import scales.kafka.sink as ks
  import scales.observable as ob
  from scales.message import MethodCallMessage, Deadline
  from scales.constants import TransportHeaders, ChannelState
  lg = logging.getLogger('scales')
  lg.addHandler(logging.NullHandler())
  lg.propagate = False
  warn = _WarnCatcher()
  logging.getLogger('scales.mux.TagPool').addHandler(warn)
  CtlQueue, ObsGevent, MuxGevent, FakeSocket, Stack = _make_world()
  real_pool = ms.TagPool

  class RecordingPool(object):
    """The sink's TagPool collaborator: the real pool, with every lease and release recorded."""

    def __init__(self, pool):
      self._pool = pool

    def get(self):
      t = self._pool.get()
      _emit('lease', t)
      return t

    def release(self, tag):
      _emit('release', tag)
      return self._pool.release(tag)

  def pool_factory(max_tag, service, host):
    if _CUR['pool_args'] is not None:
      _CUR['pool_args'].append(max_tag)
    pool = real_pool(_CUR['max'] if _CUR['max'] else max_tag, service, host)
    st = _CUR['start']
    if st and st > 1:
      # fast-forward: the state st-1 calls of get() leave behind (high-water mark st, nothing released; this
      # equivalence is what the 'fill' cases and C11_fill establish)
      if st <= FFWD_BY_CALLS:
        for _ in range(st - 1):
          pool.get()
      else:
        pool._next = st
    return RecordingPool(pool)

  class NoPing(object):
    """random as seen by scales.thriftmux.sink: the periodic ping (every 30-40 s of real time) never fires by itself;
    pings are sent by the 'ping' op."""

    @staticmethod
    def randint(a, b):
      return 10 ** 7

  tms.random = NoPing
  ms.Queue = CtlQueue
  ms.TagPool = pool_factory
  ob.gevent = ObsGevent()
  tms.gevent = MuxGevent()
  _S.update(gevent=gevent, ms=ms, tms=tms, ks=ks, ob=ob, TagPool=real_pool, MethodCallMessage=MethodCallMessage,
            Deadline=Deadline, TransportHeaders=TransportHeaders, ChannelState=ChannelState, FakeSocket=FakeSocket,
            Stack=Stack, warn=warn)


# ---------------------------------------------------------------------------------------------
# generators
# ---------------------------------------------------------------------------------------------
RTYPES = [-2, -2, -2, -2, -128, -65, 2, 65, 66, -62, 0, 127, 64, -1, 1, 68]
EDGE_TAGS = [2 ** 24 - 1, 2 ** 24 - 2, 255, 256, 65535, 65536, 4095]


def _gen_pool(r, big=False):
  mx = REAL_MAX if big else r.choice([2, 3, 4, 5, 6, 7, 9])
  ops = []
  held = []
  disciplined = r.random() < 0.5
  for _ in range(r.choice([5, 12, 30, 60])):
    k = r.random()
    if k < 0.55 or not held:
      ops.append(['get'])
      held.append(len(held) + 2)       # only an approximation, used to aim releases
    elif disciplined:
      ops.append(['rel', r.choice(held)])
    else:
      ops.append(['rel', r.choice(held + [0, 1, 2, 3, 7, mx - 1, mx, r.randrange(0, 12)])])
  return {'kind': 'pool', 'max': mx, 'ops': ops}


FFWD_STARTS = [254, 255, 4094, 65532, 65533, 65534, 65535, 65536, 65537, 131070, 131071, 2 ** 20 - 1, 2 ** 23 - 2, 2 ** 23 - 1,
               2 ** 24 - 40, 2 ** 24 - 12, 2 ** 24 - 7, 2 ** 24 - 5, 2 ** 24 - 4, 2 ** 24 - 3, 2 ** 24 - 2]


def _gen_ops(r, nops, proto, conc, off, lazy, idbase=0):
  """One instance's op list."""
  style = r.choice(['mixed', 'mixed', 'timeouts', 'adversarial', 'steady'])
  w = {'mixed': dict(req=24, send=26, fire=6, notify=6, recv=22, junk=1, ping=2, shutdown=1.5, reopen=1, m_after=3, m_before=2, m_late=2,
                     wdone=2, recvmany=2, openagain=0.3),
       'timeouts': dict(req=20, send=20, fire=10, notify=10, recv=14, junk=0, ping=1, shutdown=1, reopen=1, m_after=8, m_before=6, m_late=4,
                        wdone=2, recvmany=1, openagain=0.2),
       'adversarial': dict(req=20, send=18, fire=5, notify=5, recv=40, junk=2, ping=2, shutdown=1, reopen=1, m_after=2, m_before=2, m_late=2,
                           wdone=1, recvmany=5, openagain=0.3),
       'steady': dict(req=30, send=32, fire=2, notify=2, recv=30, junk=0, ping=1, shutdown=0, reopen=0, m_after=1, m_before=1, m_late=1,
                      wdone=1, recvmany=2, openagain=0)}[style]
  names = list(w)
  weights = [w[k] for k in names]
  ops = []
  st = {'nc': idbase, 'extra': idbase + 5000}
  live = []          # calls issued recently (targets for fire/notify)
  plain = []         # calls without deadline (their message object may be dispatched again)
  outstanding = 0    # rough count to keep concurrency near `conc`

  def new_req(dl=None, depth=0):
    st['nc'] += 1
    c = st['nc']
    if dl is None:
      dl = r.choices([0, 1, 2], [5, 4, 1])[0]
    op = ['req', c, dl]
    opts = {}
    q = r.random()
    if depth < 2 and q < 0.10:
      # what the call's sink stack does from inside its completion callback
      kind = r.choices(['req', 'raiseE', 'raiseT', 'close'], [6, 2, 2, 1])[0]
      if kind == 'req':
        st['extra'] += 1
        sub = ['req', st['extra'], r.choice([0, 0, 1, 2])]
        if r.random() < 0.3:
          st['extra'] += 1
          sub.append({'then': ['req', st['extra'], 0]})
        opts['then'] = sub
      elif kind == 'close':
        opts['then'] = ['close']
      else:
        opts['then'] = ['raise', kind[-1]]
    if dl == 0 and plain and r.random() < 0.08:
      opts['reuse'] = r.choice(plain)
    if opts:
      op.append(opts)
    live.append(c)
    if dl == 0:
      plain.append(c)
    return op

  def peer_tag():
    q = r.random()
    if q < 0.62:
      tag = off + r.randrange(2, 3 + max(2, min(conc + 1, 9)))
    elif q < 0.72:
      tag = 1
    elif q < 0.80:
      tag = 0
    elif q < 0.92:
      tag = r.choice([0, off, off]) + r.randrange(2, 14)
      if off and r.random() < 0.3:
        tag &= r.choice([0xffff, 0xff, 0x7fffff])        # what a truncated tag would look like
    else:
      tag = r.choice(EDGE_TAGS + [r.randrange(0, 2 ** 24)])
    if proto == 'kafka' and r.random() < 0.05:
      tag = r.choice([-1, -2, 2 ** 31 - 1, -2 ** 31])
    if proto == 'thriftmux':
      tag = min(tag, 2 ** 24 - 1)
    return tag

  def opening_phase():
    # requests (and expiring deadlines) while Open() is still pending, then one of the ways the open can end
    for _ in range(r.choice([0, 1, 2, 3, 5])):
      ops.append(new_req())
      if r.random() < 0.25:
        ops.append(['fire', r.choice(live)])
      if r.random() < 0.1:
        ops.append(r.choice([['send', 1], ['recv', -2, off + 2], ['ping'], ['notify', r.choice(live)]]))    # not applicable yet
    ops.append(r.choice([['handshake', 'ok'], ['handshake', 'ok'], ['handshake', 'ok'], ['handshake', 'eof'], ['shutdown', 'close'],
                         ['shutdown', 'eof']]))

  if lazy:
    opening_phase()
  for _ in range(nops):
    k = r.choices(names, weights)[0]
    if k == 'req' and outstanding >= conc and r.random() < 0.85:
      k = 'recv'
    if k in ('m_after', 'm_before', 'm_late'):
      # scripted time-out scenarios (the other ops still interleave: the queue may hold older entries)
      rq = new_req(1)
      nc = rq[1]
      outstanding += 1
      sends = [['send', 1]] * r.choice([1, 1, 2, 3])
      noise = [['recv', r.choice(RTYPES), r.choice([0, off]) + r.randrange(0, 8)]] if r.random() < 0.3 else []
      if k == 'm_after':      # written, then the deadline fires: Tdiscarded, tag stays leased until the peer answers
        ops += [rq] + sends + noise + [['fire', nc], ['notify', nc]] + sends
      elif k == 'm_before':   # the deadline fires while the request is still queued: dropped, tag released
        ops += [rq] + noise + [['fire', nc]] + sends + [['notify', nc]]
      else:                   # the peer answers late / twice, the tag is recycled by the next request
        t = off + r.randrange(2, 3 + conc)
        ops += [rq] + sends + [['fire', nc], ['notify', nc], ['recv', -2, t]] + noise + [new_req(0), ['recv', -2, t]] + sends
      continue
    if k == 'req':
      ops.append(new_req())
      live[:] = live[-10:]
      plain[:] = plain[-6:]
      outstanding += 1
    elif k == 'send':
      q = r.random()
      ops.append(['send', 0 if q < 0.02 else 2 if q < 0.07 else 1])
    elif k == 'wdone':
      ops.append(['wdone', 0 if r.random() < 0.2 else 1])
    elif k in ('fire', 'notify'):
      if live:
        ops.append([k, r.choice(live)])
    elif k == 'recv':
      tag = peer_tag()
      op = ['recv', r.choice(RTYPES), tag]
      if r.random() < 0.12:
        op.append(r.randrange(1, 9))                     # the frame arrives in two pieces, cut after this many bytes
      ops.append(op)
      if r.random() < 0.12:
        ops.append(['recv', r.choice(RTYPES), tag])      # duplicate answer
      outstanding = max(0, outstanding - 1)
    elif k == 'recvmany':
      fr = [[r.choice(RTYPES), peer_tag()] for _ in range(r.choice([2, 2, 3, 4]))]
      if r.random() < 0.3:
        fr.append(list(fr[0]))
      ops.append(['recvmany', fr])                       # several frames readable at once
      outstanding = max(0, outstanding - len(fr))
    elif k == 'junk':
      ops.append(['junk', r.choice([0, 1, 2, 3])])
    elif k == 'ping':
      ops.append(['ping'])
    elif k == 'shutdown':
      ops.append(['shutdown', r.choice(['close', 'eof'])])
      outstanding = 0
      for _x in range(r.choice([0, 0, 1, 2, 4])):       # a few ops on the dead connection, then usually a new one
        st['extra'] += 1
        ops.append(r.choice([['req', st['extra'], 0], ['notify', r.choice(live or [1])], ['fire', r.choice(live or [1])],
                             ['recv', -2, off + 2], ['send', 1], ['openagain'], ['shutdown', 'close']]))
      if r.random() < 0.8:
        mode = r.choices([0, 1, 2], [6, 3, 1])[0]
        ops.append(['reopen', mode])
        if mode == 1:
          opening_phase()
    elif k == 'reopen':
      ops.append(['reopen', r.choice([0, 0, 1, 2])])
    elif k == 'openagain':
      ops.append(['openagain'])
  if proto == 'thriftmux':
    for op in ops:
      if op[0] == 'recv':
        op[2] = max(0, min(op[2], 2 ** 24 - 1))
  return ops


def _gen_mux(r, nops, proto=None, mx=None, conc=None, start=None):
  proto = proto or ('kafka' if r.random() < 0.15 else 'thriftmux')
  if start is None and mx is None and r.random() < 0.3:
    start = r.choice(FFWD_STARTS + [r.randrange(2, 2 ** 24 - 3)])     # real TagPool(2^24-1), high-water mark fast-forwarded
  off = (start - 1) if start else 0
  if mx is None and not start:
    mx = r.choice([None, None, None, None, None, 2, 3, 4, 5, 6, 7])
  conc = conc or r.choice([1, 2, 3, 5, 8])
  lazy = 1 if r.random() < 0.2 else 0
  ops = _gen_ops(r, nops, proto, conc, off, lazy)
  if r.random() < 0.2:
    # a second sink instance in the same process, driven in between: neither may disturb the other
    other = _gen_ops(r, max(6, nops // 2), proto, r.choice([1, 2, 4]), off, lazy)
    merged = []
    i = j = 0
    while i < len(ops) or j < len(other):
      if j >= len(other) or (i < len(ops) and r.random() < 0.6):
        merged.append(ops[i])
        i += 1
      else:
        merged.append(['B'] + other[j])
        j += 1
    ops = merged
  c = {'kind': 'mux', 'proto': proto, 'max': mx, 'ops': ops}
  if start:
    c['start'] = start
  if lazy:
    c['open'] = 1
  return c


def _gen_longrun(r, nreq, conc=8):
  """Steady traffic: never more than `conc` requests unanswered.  Replies hit random tags in 2..conc+1; whenever `conc`
  requests have been issued since the last sweep, the peer answers every tag 2..conc+1 (so everything is answered,
  including the requests that timed out after transmission).  Hence no tag above conc+1 may ever be used."""
  ops = []
  nc = 0
  since = 0
  while nc < nreq:
    nc += 1
    since += 1
    ops.append(['req', nc, 1 if r.random() < 0.1 else 0])
    ops.append(['send', 1])
    if r.random() < 0.03:
      ops += [['fire', nc], ['notify', nc], ['send', 1]]
    for _ in range(r.choice([0, 0, 1, 1, 2])):
      ops.append(['recv', -2, r.randrange(2, conc + 2)])
    if since >= conc:
      tags = list(range(2, conc + 2))
      r.shuffle(tags)
      ops += [['recv', -2, t] for t in tags]
      since = 0
  return {'kind': 'mux', 'proto': 'thriftmux', 'max': None, 'ops': ops, 'long': conc}


def gen_cases(tier, seed):
  quick = tier == 'quick'
  out = []
  # ---- suite (a)
  for i in range(400 if quick else 3000):
    r = C.case_rng(seed, PID + 'pool', i)
    out.append(_gen_pool(r, big=(i % 5 == 0)))
  for mx in [2, 3, 4, 5, 9]:
    for n in [1, mx - 3, mx - 2, mx - 1, mx + 3]:
      if n >= 1:
        out.append({'kind': 'fill', 'max': mx, 'n': n})
  out.append({'kind': 'fill', 'max': 200001, 'n': 199999})
  out.append({'kind': 'fill', 'max': 200001, 'n': 200000})
  out.append({'kind': 'fill', 'max': REAL_MAX, 'n': 1000})
  if not quick:
    out.append({'kind': 'fill', 'max': REAL_MAX, 'n': REAL_MAX - 2})     # the last tag: 2^24-2
    out.append({'kind': 'fill', 'max': REAL_MAX, 'n': REAL_MAX - 1})     # one more is refused
  # ---- suite (b)
  for i in range(1500 if quick else 16000):
    r = C.case_rng(seed, PID + 'mux', i)
    out.append(_gen_mux(r, r.choice([12, 25, 40, 70, 120])))
  for i in range(3 if quick else 12):
    r = C.case_rng(seed, PID + 'long', i)
    out.append(_gen_longrun(r, 400 if quick else 2000))
  if not quick:
    r = C.case_rng(seed, PID + 'verylong', 0)
    out.append(_gen_longrun(r, 100000))
  return out


def search_cases(tier, seed, diverging):
  """Adversarial stream used only when proof/correspondence broke: many more peer frames on reserved / unknown tags."""
  out = []
  for i in range(3000):
    r = C.case_rng(seed + 7919, PID + 'search', i)
    c = _gen_mux(r, r.choice([20, 40, 80]), proto='thriftmux' if i % 4 else 'kafka')
    out.append(c)
  for i in range(500):
    r = C.case_rng(seed + 7919, PID + 'searchpool', i)
    out.append(_gen_pool(r))
  return out


# ---------------------------------------------------------------------------------------------
# frame decoding (harness side, independent of scales)
# ---------------------------------------------------------------------------------------------
REQ_TYPE = {'thriftmux': 2, 'kafka': 0}


def decode_written(proto, b):
  """-> [kind, tag, x] with kind in req/discard/ping, or ['bad', hex]."""
  try:
    if len(b) < 4 or int.from_bytes(b[:4], 'big') != len(b) - 4:
      return ['bad', b.hex()]
    if proto == 'thriftmux':
      if len(b) < 8:
        return ['bad', b.hex()]
      t = b[4] - 256 if b[4] >= 128 else b[4]
      tag = int.from_bytes(b[5:8], 'big')
      body = b[8:]
      if t == 2 and len(body) == 4:
        return ['req', tag, int.from_bytes(body, 'big')]
      if t == 66 and len(body) >= 3 and body[3:] == b'Client timeout':
        return ['discard', tag, int.from_bytes(body[:3], 'big')]
      if t == 65 and body == b'':
        return ['ping', tag, 0]
      return ['bad', b.hex()]
    api, ver, corr, cl = struct.unpack('!hhih', b[4:14])
    body = b[14 + cl:]
    if api == 0 and ver == 0 and b[14:14 + cl] == b'scales' and len(body) == 4:
      return ['req', corr, int.from_bytes(body, 'big')]
    return ['bad', b.hex()]
  except Exception:
    return ['bad', b.hex()]


def decode_peer(proto, body):
  """The frame body handed to _ProcessReply -> ['junk'] or [mtype, tag] (what the peer said, parsed by the harness)."""
  if len(body) < 4:
    return ['junk']
  if proto == 'thriftmux':
    return [body[0] - 256 if body[0] >= 128 else body[0], int.from_bytes(body[1:4], 'big')]
  return [0, struct.unpack('!i', body[:4])[0]]


def peer_frame(proto, mtype, tag):
  if proto == 'thriftmux':
    body = struct.pack('!b', mtype) + int(tag).to_bytes(3, 'big') + b'r'
  else:
    body = struct.pack('!i', tag) + b'r'
  return struct.pack('!i', len(body)) + body


# ---------------------------------------------------------------------------------------------
# implementation drivers
# ---------------------------------------------------------------------------------------------
def _run_pool(case):
  _S['warn'].n = 0
  pool = _S['TagPool'](case['max'], 'svc', 'h')
  obs = []
  for op in case['ops']:
    if op[0] == 'get':
      try:
        obs.append(['tag', pool.get()])
      except Exception as e:
        obs.append(['exc', str(e)])
    else:
      w0 = _S['warn'].n
      ret = pool.release(op[1])
      obs.append(['rel', _S['warn'].n - w0, repr(ret)])
  return {'pool': obs}


def _run_fill(case):
  pool = _S['TagPool'](case['max'], 'svc', 'h')
  get = pool.get
  last = None
  refused = 0
  prev = 1
  contiguous = True
  for _ in range(case['n']):
    try:
      last = get()
      if last != prev + 1:
        contiguous = False
      prev = last
    except Exception:
      refused += 1
  try:
    after = get()
  except Exception:
    after = None
  return {'last': last, 'refused': refused, 'after': after, 'contiguous': contiguous}


def _settle():
  idle = _S['gevent'].idle
  idle()
  idle()
  idle()


class _Conn(object):
  pass


class _Inst(object):
  """One sink instance (and its successors after 're-open on a new sink') driven by the op list."""

  def __init__(self, name, proto):
    self.name = name
    self.proto = proto
    self.calls = {}       # c -> dict(evt, fired, cn, dl, msg, written, done)
    self.keep = []        # keeps Observables alive so that id() stays unique
    self.conns = []
    self.cn = None
    self.handshakes = []

  # ---- connections -------------------------------------------------------------------------
  def open_conn(self, mode):
    proto = self.proto
    cn = _Conn()
    cn.sock = _S['FakeSocket'](self)
    cn.sock.fail_open = (mode == 2)
    if proto == 'thriftmux':
      cn.sink = _S['tms'].SocketTransportSink(cn.sock, 'svc' + self.name)
      cn.sink._ping_timeout = 1e9          # the ping watchdog (5 s of real time) plays no part in these runs
    else:
      cn.sink = _S['ks'].KafkaTransportSink(cn.sock, 'svc' + self.name)
    real_process = cn.sink._ProcessReply

    def process_reply(stream):            # marks the moment a peer frame is looked at; the real method does the work
      _emit('frame', bytes(stream.getvalue()))
      return real_process(stream)
    cn.sink._ProcessReply = process_reply
    cn.closed = False
    cn.again = False
    cn.opening = False
    cn.deferred = {}
    cn.hs = []
    self.cn = cn
    self.conns.append(cn)
    nq = len(_CUR['queues'])
    if mode == 2:
      _emit('begin', 'shutdown')            # the connection is born dead: socket.open() raises
    else:
      cn.saved, _CUR['ev'] = _CUR['ev'], cn.hs
    cn.open_ar = cn.sink.Open()
    cn.queue = _CUR['queues'][-1] if len(_CUR['queues']) > nq else None
    real_wait = cn.open_ar.wait

    def wait(*a, **kw):                     # a request that was waiting for Open() resumes here
      ret = real_wait(*a, **kw)
      c = cn.deferred.get(id(_S['gevent'].getcurrent()))
      if c is not None:
        _emit('begin', 'req', c, self.dl_now(c))
      return ret
    try:
      cn.open_ar.wait = wait
    except AttributeError:
      pass
    _settle()
    if mode == 2:
      _emit('end')
      cn.closed = True
      return
    if proto == 'kafka' or mode == 0:
      if proto == 'thriftmux':
        cn.queue.grant()
        _settle()
        cn.sock.feed(peer_frame(proto, -65, 1))
        _settle()
      _CUR['ev'] = cn.saved
      self.record_handshake(cn)
    else:
      cn.opening = True
      _CUR['ev'] = cn.saved

  def record_handshake(self, cn):
    hs = [decode_written(self.proto, e[1]) for e in cn.hs if e[0] == 'wr']
    ok = cn.open_ar.ready() and cn.open_ar.successful() and cn.sink.state == _S['ChannelState'].Open and cn.queue is not None
    self.handshakes.append([hs, bool(ok)])

  def handshake(self, how):
    cn = self.cn
    if how == 'ok':
      saved, _CUR['ev'] = _CUR['ev'], cn.hs
      cn.queue.grant()
      _settle()
      _CUR['ev'] = saved
      cn.opening = False
      cn.sock.feed(peer_frame(self.proto, -65, 1))
      _settle()
      self.record_handshake(cn)
    else:
      self.shutdown('eof')

  def shutdown(self, how):
    cn = self.cn
    cn.opening = False
    _emit('begin', 'shutdown')
    if how == 'close':
      cn.sink.Close()
    else:
      cn.sock.err = IOError('connection reset by peer')
      cn.sock.ev.set()
    _settle()
    _emit('end')
    cn.opening = False

  # ---- requests ----------------------------------------------------------------------------
  def dl_now(self, c):
    cl = self.calls[c]
    return 0 if cl['evt'] is None else 2 if cl['fired'] else 1

  def do_req(self, op):
    c, dl = op[1], op[2]
    opts = op[3] if len(op) > 3 else {}
    if c in self.calls:
      return
    cn = self.cn
    old = self.calls.get(opts.get('reuse'))
    if dl == 0 and old and old['dl'] == 0 and old['written'] and old['done']:
      msg = old['msg']                     # the same message object dispatched again (as a retrying sink does)
      _emit('note', 'message-object-reused')
    else:
      msg = _S['MethodCallMessage'](None, 'm', (), {})
    evt = None
    if dl:
      evt = _S['ob'].Observable()
      self.keep.append(evt)
      _CUR['evt_call'][id(evt)] = (self.name, c)
      msg.properties[_S['Deadline'].EVENT_KEY] = evt
    self.calls[c] = {'evt': evt, 'fired': False, 'cn': cn, 'dl': dl, 'msg': msg, 'written': False, 'done': False}
    if dl >= 2:
      evt.Set(True)
      self.calls[c]['fired'] = True
    buf = io.BytesIO()
    buf.write(struct.pack('!i', c))
    stack = _S['Stack'](self, cn, c, opts.get('then'))
    headers = {_S['TransportHeaders'].MessageType: REQ_TYPE[self.proto]}

    def issue(deferred):
      if not deferred:
        _emit('begin', 'req', c, self.dl_now(c))
      try:
        cn.sink.AsyncProcessRequest(stack, msg, buf, headers)
      except Exception as e:
        _emit('raise', c, str(e))
      _emit('end')
    if cn.opening:
      g = _S['gevent'].Greenlet(issue, True)
      cn.deferred[id(g)] = c
      self.keep.append(g)
      g.start()
      _settle()
    else:
      issue(False)

  # ---- one op ------------------------------------------------------------------------------
  def run_op(self, op):
    cn = self.cn
    k = op[0]
    proto = self.proto
    live = not cn.closed and not cn.opening
    if k == 'req':
      self.do_req(op)
    elif k == 'handshake':
      if cn.opening:
        self.handshake(op[1])
    elif k == 'shutdown':
      if not cn.closed:
        self.shutdown(op[1])
    elif k == 'fire':
      cl = self.calls.get(op[1])
      if cl and cl['cn'] is cn and cl['evt'] is not None and not cl['fired']:
        if not cn.opening:
          _emit('begin', 'fire', op[1])
        cl['fired'] = True
        cl['evt'].Set(True)          # what ClientTimeoutSink._TimeoutHelper does first
        if not cn.opening:
          _emit('end')
    elif k == 'reopen':
      if cn.closed:
        _emit('begin', 'reopen')
        _emit('end')
        mode = op[1] if len(op) > 1 else 0
        self.open_conn(mode)
    elif k == 'openagain':
      if cn.closed and not cn.again:
        cn.again = True
        cn.sock.fail_open = False       # the connect itself works this time; the sink object stays Closed all the same
        _emit('begin', 'openagain')
        cn.sink.Open()
        _settle()
        _emit('end')
    elif k == 'notify':
      cl = self.calls.get(op[1])
      pend = _CUR['pending'].get((self.name, op[1]))
      if cl and cl['cn'] is cn and pend and not cn.opening:
        _emit('begin', 'notify', op[1])
        fn, a, kw = pend.pop(0)
        fn(*a, **kw)
        _settle()
        _emit('end')
    elif not live:
      pass
    elif k == 'send':
      if not cn.sock.blocked and cn.queue.qsize() > 0:
        _emit('begin', 'send', 0 if op[1] == 0 else 1)
        cn.sock.fail_write = (op[1] == 0)
        cn.sock.slow = (op[1] == 2)
        cn.queue.grant()
        _settle()
        cn.sock.fail_write = False
        cn.sock.slow = False
        _emit('end')
    elif k == 'wdone':
      if cn.sock.blocked:
        _emit('note', 'slow-write-finished-' + ('ok' if op[1] else 'failed'))
        if not op[1]:
          _emit('begin', 'shutdown')
        cn.sock.finish_write(bool(op[1]))
        _settle()
        if not op[1]:
          _emit('end')
    elif k == 'recv':
      fr = peer_frame(proto, op[1], op[2])
      cut = op[3] if len(op) > 3 else 0
      if 0 < cut < len(fr):
        cn.sock.feed(fr[:cut])
        _settle()
        cn.sock.feed(fr[cut:])
      else:
        cn.sock.feed(fr)
      _settle()
    elif k == 'recvmany':
      cn.sock.feed(b''.join(peer_frame(proto, mt, tag) for mt, tag in op[1]))
      _settle()
    elif k == 'junk':
      if proto == 'thriftmux':
        n = op[1]
        cn.sock.feed(struct.pack('!i', n) + b'\xfe' * n)
        _settle()
    elif k == 'ping':
      if proto == 'thriftmux':
        _emit('begin', 'ping')
        cn.sink._SendPingMessage()
        _settle()
        _emit('end')
    else:
      raise ValueError(k)

  def cleanup(self):
    for cn in self.conns:
      try:
        if cn.sock.blocked:
          cn.sock.finish_write(True)
        cn.sink.Close()
      except Exception:
        pass
    for g in self.keep:
      if hasattr(g, 'kill'):
        g.kill(block=False)


def _translate(proto, raw):
  """Raw recorder entries of one op -> observable events (frames decoded) and the markers of what was done;
  'take' without a write attempt = dropped."""
  out = []
  took = None
  attempted = False

  def flush():
    if took is not None and not attempted:
      out.append(['drop'] + took[1:] if took[0] == 'req' else ['drop-other'] + took)
  for e in raw:
    if e[0] == 'enq':
      out.append(['enq'] + decode_written(proto, e[1]))
    elif e[0] == 'take':
      flush()
      took = decode_written(proto, e[1])
      attempted = False
    elif e[0] == 'wr':
      attempted = True
      out.append(['wr'] + decode_written(proto, e[1]))
    elif e[0] == 'wr-fail':
      attempted = True
    elif e[0] == 'deliver':
      out.append(['deliver', e[1], e[2].hex()])
    elif e[0] == 'frame':
      out.append(['frame'] + decode_peer(proto, e[1]))
    elif e[0] == 'end' and took is not None:
      flush()
      took = None
      out.append(e)
    else:
      out.append(e)
  flush()
  return out


def _run_mux(case):
  proto = case['proto']
  _CUR.update(ev=None, queues=[], pending={}, evt_call={}, helpers=[], pool_args=[], max=case.get('max'), start=case.get('start'),
              proto=proto)
  res = {'steps': []}
  insts = {}
  try:
    for op in case['ops']:
      name = 'A'
      if op and op[0] == 'B':
        name, op = 'B', op[1:]
      raw = []
      _CUR['ev'] = raw
      inst = insts.get(name)
      if inst is None:
        inst = insts[name] = _Inst(name, proto)
        inst.open_conn(1 if case.get('open') else 0)
      inst.run_op(op)
      cn = inst.cn
      if any(e[0] == 'closed' for e in raw):
        cn.closed = True
        cn.opening = False
      if not cn.closed and cn.sink.state == _S['ChannelState'].Closed:
        cn.closed = True
        raw.append(['closed-without-socket-close'])
      res['steps'].append(_translate(proto, raw))
    res['pool_args'] = list(_CUR['pool_args'])
    res['handshakes'] = {n: i.handshakes for n, i in insts.items()}
  finally:
    _CUR['ev'] = None
    _CUR['evt_call'] = None
    _CUR['max'] = None
    _CUR['start'] = None
    for inst in insts.values():
      inst.cleanup()
    for g in _CUR['helpers'] or []:
      g.kill(block=False)
    _CUR['helpers'] = None
    _CUR['queues'] = None
    _CUR['pool_args'] = None
    _settle()
  return res


def run_impl(case):
  setup()
  k = case['kind']
  if k == 'pool':
    return _run_pool(case)
  if k == 'fill':
    return _run_fill(case)
  if k == 'mux':
    return _run_mux(case)
  raise ValueError(k)


# ---------------------------------------------------------------------------------------------
# what was done, in model terms: the markers of one op as a list of (label, own events)
# ---------------------------------------------------------------------------------------------
class _Node(object):
  def __init__(self, label, frame=False):
    self.label = label
    self.own = []
    self.frame = frame


def linearise(evs):
  """Events of one op -> [(label tuple, own events)] in the order the actions began.  A callback that re-enters the sink
  is a nested begin/end pair: its events are taken out of the enclosing action (which, for all re-entrant paths of this
  sink, has finished its own state changes when the callback runs)."""
  order = []
  stack = []
  for e in evs:
    if e[0] == 'note':
      continue
    if e[0] == 'begin':
      n = _Node(tuple(e[1:]))
      order.append(n)
      stack.append(n)
    elif e[0] == 'frame':
      while stack and stack[-1].frame:
        stack.pop()
      n = _Node(tuple(e), True)
      order.append(n)
      stack.append(n)
    elif e[0] == 'end':
      while stack and stack[-1].frame:
        stack.pop()
      if stack:
        stack.pop()
    else:
      if not stack:
        n = _Node(('orphan',))
        order.append(n)
        n.own.append(e)
      else:
        stack[-1].own.append(e)
  return [(n.label, n.own) for n in order]


def _split(case, obs):
  """-> {instance: [(op index, op, [(label, own events)])]}"""
  out = {}
  for i, (op, evs) in enumerate(zip(case['ops'], obs['steps'])):
    name = 'A'
    if op and op[0] == 'B':
      name, op = 'B', op[1:]
    out.setdefault(name, []).append((i, op, linearise(evs)))
  return out


# ---------------------------------------------------------------------------------------------
# monitor: the property statement, on frames and peer frames only
# ---------------------------------------------------------------------------------------------
def _monitor_pool(case, obs):
  v = []
  mx = case['max']
  held = set()
  free = set()
  hi = 1
  judged = True       # TagPool trusts its caller: once a tag that is not held is released, nothing is promised any more
  for i, (op, o) in enumerate(zip(case['ops'], obs['pool'])):
    if op[0] == 'rel':
      if op[1] in held:
        held.discard(op[1])
        free.add(op[1])
      else:
        judged = False
      continue
    if not judged:
      continue
    if o[0] == 'exc':
      if free or hi != mx - 1:
        v.append(('pool-refused-early', 'op %d: get() raised with %d released tags and high-water mark %d (max_tag %d)' % (i, len(free), hi, mx)))
      continue
    t = o[1]
    if t in (0, 1):
      v.append(('reserved-tag', 'op %d: TagPool.get() returned the reserved tag %d' % (i, t)))
    elif not 2 <= t <= mx - 1:
      v.append(('tag-out-of-range', 'op %d: TagPool(%d).get() returned %d' % (i, mx, t)))
    if t in held:
      v.append(('tag-reissued-while-held', 'op %d: TagPool.get() returned %d which is still leased' % (i, t)))
    if t in free:
      free.discard(t)
    elif t == hi + 1:
      if free:
        v.append(('fresh-tag-while-released-available', 'op %d: new tag %d although %s are released' % (i, t, sorted(free))))
      hi = t
    elif t not in held:
      v.append(('tag-neither-recycled-nor-next', 'op %d: get() returned %d; released %s, high-water mark %d' % (i, t, sorted(free), hi)))
      hi = max(hi, t)
    held.add(t)
  return v


def _monitor_fill(case, obs):
  v = []
  mx, n = case['max'], case['n']
  if mx < 2:
    return v
  want_last = min(n + 1, mx - 1) if mx > 2 else None
  want_refused = max(0, n - (mx - 2))
  if obs['last'] != want_last or not obs['contiguous']:
    v.append(('tag-out-of-range' if (obs['last'] or 0) > mx - 1 else 'fill-sequence',
              '%d get() on TagPool(%d): last tag %s (expected %s), contiguous=%s' % (n, mx, obs['last'], want_last, obs['contiguous'])))
  if obs['refused'] != want_refused:
    v.append(('exhaustion-point', '%d get() on TagPool(%d): %d refused, expected %d' % (n, mx, obs['refused'], want_refused)))
  want_after = n + 2 if n + 2 <= mx - 1 else None
  if obs['after'] != want_after:
    v.append(('exhaustion-point' if want_after is None else 'fill-sequence',
              'get() after %d calls on TagPool(%d) gave %s, expected %s' % (n, mx, obs['after'], want_after)))
  return v


def _monitor_inst(case, name, items, handshakes):
  v = []
  proto = case['proto']
  bound = (case.get('max') or REAL_MAX) - 1        # highest tag a request may carry
  bound = min(bound, 2 ** 24 - 2)
  cur = [0, None]

  def bad(sig, msg):
    v.append((sig, 'op %d %s%s: %s' % (cur[0], '' if name == 'A' else '(second sink) ', cur[1], msg)))

  for hs, ok in handshakes:
    if not hs and not ok:
      continue                                      # an open that failed (refused, EOF, closed meanwhile): nothing was sent
    if proto == 'thriftmux' and (hs != [['ping', 1, 0]] or not ok):
      v.append(('handshake', 'open wrote %s (expected one Tping on tag 1), opened=%s' % (hs, ok)))
    if proto == 'kafka' and (hs or not ok):
      v.append(('handshake', 'open wrote %s, opened=%s' % (hs, ok)))

  hi0 = case.get('start') or 1      # high-water mark a new connection's pool starts from
  held = {}          # WIRE tag -> call currently holding it (queued or written, no answer yet)
  free = set()       # released tags not handed out again
  hi = hi0           # highest tag handed out on this connection
  leased = {}        # call -> tag TagPool.get() returned for it
  queued = {}        # call -> tag it was queued with
  written = set()
  fired = set()
  peak = 0
  closed = False
  for i, op, nodes in items:
    cur[0], cur[1] = i, op
    dropped_tags = [leased.get(e[2]) for _l, own in nodes for e in own if e[0] == 'drop']
    for label, own in nodes:
      k = label[0]
      answered = None
      frame_tag = None
      if k == 'reopen':
        held, free, hi, peak, closed = {}, set(), hi0, 0, False
      elif k == 'fire' or (k == 'req' and label[2] >= 2):
        fired.add(label[1])
      elif k == 'frame' and label[1] != 'junk' and not closed:
        # what this peer frame answers (decided on the wire, before looking at what the client did)
        mt, tag = label[1], label[2]
        frame_tag = tag
        is_ping_reply = proto == 'thriftmux' and tag == 1 and mt == -65
        if not is_ping_reply and (proto == 'kafka' or tag != 0) and tag in held:
          answered = held.pop(tag)
          free.add(tag)
      elif k == 'orphan':
        bad('unexpected-event', 'the sink did %r although nothing was asked of it' % (own[:2],))
      delivered = []
      last_lease = None
      for e in own:
        if e[0] == 'lease':
          if k != 'req':
            bad('unexpected-event', 'TagPool.get() called outside AsyncProcessRequest')
          last_lease = e[1]
        elif e[0] == 'release':
          t = e[1]
          by_peer = k == 'frame' and frame_tag == t and answered is not None
          if not by_peer and not (k == 'send' and t in dropped_tags):
            bad('release-outside-release-point', 'tag %r returned to the pool, but the peer did not answer it in this step and no '
                'unsent timed-out request holding it was dropped' % (t,))
        elif e[0] == 'enq' and e[1] == 'req':
          t, c = e[2], e[3]
          if k != 'req' or c != label[1]:
            bad('unexpected-frame', 'request frame queued for call %s' % c)
          leased[c] = last_lease
          if last_lease != t:
            bad('wire-tag-differs-from-lease', 'call %d leased tag %s from the pool but its frame header carries tag %d' % (c, last_lease, t))
          if t in (0, 1):
            bad('reserved-tag', 'request of call %d was given the reserved tag %d' % (c, t))
          elif not 2 <= t <= bound:
            bad('tag-out-of-range', 'request of call %d was given tag %d (allowed 2..%d)' % (c, t, bound))
          if t in held:
            bad('tag-reissued-while-held', 'tag %d given to call %d while call %d holds it unanswered' % (t, c, held[t]))
          if t in free:
            free.discard(t)
          elif t == hi + 1:
            if free:
              bad('fresh-tag-while-released-available', 'new tag %d although %s were released and are unused' % (t, sorted(free)))
            hi = t
          else:
            if t not in held:
              bad('tag-neither-recycled-nor-next', 'tag %d was never released and is not the next tag %d' % (t, hi + 1))
            hi = max(hi, t)
          held[t] = c
          queued[c] = t
          peak = max(peak, len(held))
        elif e[0] == 'enq' and e[1] == 'discard':
          if e[2] != 0:
            bad('discard-frame-tag', 'Tdiscarded queued with frame tag %d' % e[2])
          if k != 'notify' or leased.get(label[1]) != e[3]:
            bad('discard-names-wrong-tag', 'Tdiscarded names tag %d; the timed-out call leased %s' % (e[3], leased.get(label[1]) if k == 'notify' else None))
        elif e[0] == 'enq' and e[1] == 'ping':
          if e[2] != 1:
            bad('ping-tag', 'Tping queued on tag %d' % e[2])
        elif e[0] == 'wr' and e[1] == 'req':
          t, c = e[2], e[3]
          if t in (0, 1):
            bad('reserved-tag', 'request of call %d written with the reserved tag %d' % (c, t))
          elif not 2 <= t <= bound:
            bad('tag-out-of-range', 'request of call %d written with tag %d (allowed 2..%d)' % (c, t, bound))
          if queued.get(c) != t:
            bad('written-tag-differs', 'call %d written with tag %d but queued with %s' % (c, t, queued.get(c)))
          if leased.get(c) != t:
            bad('wire-tag-differs-from-lease', 'call %d leased tag %s from the pool but is written with tag %d' % (c, leased.get(c), t))
          other = held.get(t)
          if other is not None and other != c and other in written:
            bad('duplicate-tag-on-wire', 'call %d written with tag %d while the written request of call %d is unanswered on it' % (c, t, other))
          if t > hi0 + peak:
            bad('reuse-bound', 'tag %d written although at most %d requests were ever unanswered together (pool started at %d)' % (t, peak, hi0))
          written.add(c)
        elif e[0] == 'wr' and e[1] == 'discard':
          if e[2] != 0:
            bad('discard-frame-tag', 'Tdiscarded written with frame tag %d' % e[2])
        elif e[0] == 'wr' and e[1] == 'ping':
          if e[2] != 1:
            bad('ping-tag', 'Tping written on tag %d' % e[2])
        elif e[0] == 'drop':
          t, c = e[1], e[2]
          if c not in fired:
            bad('dropped-without-timeout', 'request of call %d left the queue unwritten although its deadline never fired' % c)
          if held.get(t) == c:        # never written: the tag is reusable
            del held[t]
            free.add(t)
        elif e[0] == 'deliver':
          delivered.append(e[1])
        elif e[0] == 'raise':
          if free or hi != bound or e[2] != 'No tags left in pool.':
            bad('request-refused', 'AsyncProcessRequest raised %r with %d released tags, high-water mark %d' % (e[2], len(free), hi))
        elif e[0] == 'closed':
          closed = True
          held = {}
        elif e[0] in ('error',):
          pass
        elif e[0] in ('enq', 'wr') and e[1] == 'bad':
          bad('undecodable-frame', 'frame %s' % e[2])
        else:
          bad('unexpected-event', repr(e))
      if k == 'frame':
        want = [answered] if answered is not None else []
        if delivered != want:
          bad('reply-misrouted', 'peer frame %s: delivered to %s, holder of the tag: %s' % (list(label[1:]), delivered, want))
      elif delivered:
        bad('reply-misrouted', 'reply delivered to %s without a peer frame' % delivered)
  if case.get('long') and not case.get('start') and hi > case['long'] + 1:
    v.append(('long-run-high-water', 'steady traffic with at most %d unanswered requests used tags up to %d' % (case['long'], hi)))
  return v


def _monitor_mux(case, obs):
  v = []
  for a in obs.get('pool_args', []):
    if a != REAL_MAX:
      v.append(('pool-size-constant', 'the sink builds TagPool(%r), expected 2^24-1' % (a,)))
  for name, items in sorted(_split(case, obs).items()):
    v += _monitor_inst(case, name, items, obs['handshakes'].get(name, []))
  return v


def monitor(case, obs):
  k = case['kind']
  if k == 'pool':
    return _monitor_pool(case, obs)
  if k == 'fill':
    return _monitor_fill(case, obs)
  return _monitor_mux(case, obs)


# ---------------------------------------------------------------------------------------------
# translation to Coq terms
# ---------------------------------------------------------------------------------------------
KIND = {'req': 'KReq', 'discard': 'KDiscard', 'ping': 'KPing'}


def _event(e):
  if e[0] in ('enq', 'wr') and e[1] in KIND:
    return '%s %s %s %s' % ('EEnq' if e[0] == 'enq' else 'EWritten', KIND[e[1]], C.zlit(e[2]), C.zlit(e[3]))
  if e[0] == 'drop':
    return 'EDropped %s %s' % (C.zlit(e[1]), C.zlit(e[2]))
  if e[0] == 'deliver':
    return 'EDelivered %s' % C.zlit(e[1])
  if e[0] == 'error':
    if e[2] == 'Exception' and e[3] == 'Sink not open.':
      return 'EError %s 0%%Z' % C.zlit(e[1])
    if e[2] == 'ClientError':
      return 'EError %s 1%%Z' % C.zlit(e[1])
    return 'EBadPick'
  if e[0] == 'raise':
    return 'ERaise %s' % C.zlit(e[1]) if e[2] == 'No tags left in pool.' else 'EBadPick'
  if e[0] == 'closed':
    return 'EClosed'
  return 'EBadPick'        # anything the model has no event for can never match


def _label(label, own):
  k = label[0]
  if k == 'req':
    pick = 0
    for e in own:
      if e[0] == 'enq' and e[1] == 'req':
        pick = e[2]
    for e in own:
      if e[0] == 'lease':          # what TagPool.get() returned (the wire tag above is the fallback)
        pick = e[1]
    return 'Req %s %s %s' % (C.zlit(label[1]), C.zlit(label[2]), C.zlit(pick))
  if k == 'send':
    return 'SendStep %s' % C.blit(label[1])
  if k == 'fire':
    return 'Fire %s' % C.zlit(label[1])
  if k == 'notify':
    return 'Notify %s' % C.zlit(label[1])
  if k == 'frame':
    return 'RecvJunk' if label[1] == 'junk' else 'Recv %s %s' % (C.zlit(label[1]), C.zlit(label[2]))
  if k == 'ping':
    return 'Ping'
  if k == 'shutdown':
    return 'Shutdown'
  if k == 'reopen':
    return 'Reopen'
  if k == 'openagain':
    return 'OpenAgain'
  return None


def _groups(items):
  gs = []
  es = []
  for _i, _op, nodes in items:
    g = []
    ev = []
    for label, own in nodes:
      lb = _label(label, own)
      if lb is None:
        ev.append('EBadPick')
      else:
        g.append(lb)
      ev += [_event(e) for e in own if e[0] not in ('lease', 'release')]
    gs.append(C.lst(g))
    es.append(C.lst(ev))
  return C.lst(gs), C.lst(es)


MAX_COQ_OPS = 2500


def to_coq(case, obs):
  k = case['kind']
  if k == 'pool':
    ops = []
    exp = []
    for op, o in zip(case['ops'], obs['pool']):
      if op[0] == 'get':
        ops.append('PGet %s' % C.zlit(o[1] if o[0] == 'tag' else 0))
        exp.append('OTag %s' % C.zlit(o[1]) if o[0] == 'tag' else ('OExhausted' if o[1] == 'No tags left in pool.' else 'OBadPick'))
      else:
        ops.append('PRel %s' % C.zlit(op[1]))
        exp.append('OReleased %s' % C.blit(o[1] > 0) if o[1] in (0, 1) and o[2] == 'None' else 'OBadPick')
    return 'CPool %s %s %s' % (C.zlit(case['max']), C.lst(ops), C.lst(exp))
  if k == 'fill':
    if not obs['contiguous'] or case['max'] < 2:
      return None
    want_ref = obs['refused'] > 0
    if obs['refused'] not in (0, max(0, case['n'] - (case['max'] - 2))):
      return 'CFill %s %s (-1)%%Z true None' % (C.zlit(case['max']), C.zlit(case['n']))    # cannot match
    return 'CFill %s %s %s %s %s' % (C.zlit(case['max']), C.zlit(case['n']), C.zlit(1 if obs['last'] is None else obs['last']), C.blit(want_ref),
                                     C.opt(C.zlit(obs['after'])) if obs['after'] is not None else 'None')
  if len(case['ops']) > MAX_COQ_OPS:
    return None
  cfg = '{| max_tag := %s; kafka := %s; base := %s |}' % (C.zlit(case.get('max') or REAL_MAX), C.blit(case['proto'] == 'kafka'),
                                                        C.zlit(case.get('start') or 1))
  sp = _split(case, obs)
  ga, ea = _groups(sp.get('A', []))
  if 'B' not in sp:
    return 'CMux %s %s %s' % (cfg, ga, ea)
  gb, eb = _groups(sp['B'])
  return 'CMux2 %s %s %s %s %s' % (cfg, ga, ea, gb, eb)


# ---------------------------------------------------------------------------------------------
# evidence helpers
# ---------------------------------------------------------------------------------------------
def _branches(case, obs):
  """Which branches of the model / which input shapes a case went through (derived from what was done + observed)."""
  b = collections.Counter()
  if case['kind'] == 'pool':
    for op, o in zip(case['ops'], obs['pool']):
      if op[0] == 'get':
        b['pool.get:' + ('exhausted' if o[0] == 'exc' else 'tag')] += 1
      else:
        b['pool.release:' + ('again' if o[1] else 'new')] += 1
    return b
  if case['kind'] == 'fill':
    b['fill:' + ('refused' if obs['refused'] else 'room')] += 1
    return b
  st = case.get('start')
  if st:
    b['pool-fast-forwarded:' + ('below-2^16' if st < 65500 else 'around-2^16' if st <= 65600 else 'top-of-tag-space' if st >= 2 ** 24 - 64
                                else 'between')] += 1
  sp = _split(case, obs)
  if 'B' in sp:
    b['shape:two-sinks-in-one-process'] += 1
  for name, items in sp.items():
    closed = False
    answered = set()
    sent = set()
    subscribed = set()
    fired = set()
    pending = set()
    dl_of = {}
    seen_tags = set()
    for _i, op, nodes in items:
      if op[0] == 'recv' and len(op) > 3 and nodes:
        b['shape:frame-in-two-pieces'] += 1
      if op[0] == 'recvmany' and nodes:
        b['shape:several-frames-in-one-segment'] += 1
      if op[0] == 'send' and op[1] == 2 and any(e[0] == 'wr' for _l, own in nodes for e in own):
        b['shape:slow-write-begun'] += 1
      if op[0] == 'handshake' and nodes:
        nreq = sum(1 for l, _o in nodes if l[0] == 'req')
        b['open:pending-then-%s-with-%s-waiting-requests' % (op[1], 'some' if nreq else 'no')] += 1
      if op[0] == 'shutdown' and any(l[0] == 'req' for l, _o in nodes):
        b['open:closed-while-pending-with-waiting-requests'] += 1
      if op[0] == 'reopen' and len(op) > 1 and nodes:
        b['reopen:mode-%s' % {0: 'eager', 1: 'pending', 2: 'connect-fails'}.get(op[1], op[1])] += 1
      for label, own in nodes:
        k = label[0]
        names = [e[0] + (':' + e[1] if e[0] in ('enq', 'wr') else '') for e in own]
        if k == 'req':
          c = label[1]
          dl_of[c] = label[2]
          if label[2] >= 2:
            fired.add(c)
            pending.add(c)
          if 'raise' in names:
            b['req:exhausted'] += 1
          elif 'error' in names:
            b['req:not-open'] += 1
          elif 'enq:req' in names:
            t = [e for e in own if e[0] == 'enq'][0][2]
            b['req:dl%d:%s' % (min(label[2], 2), 'recycled' if t in seen_tags else 'fresh')] += 1
            seen_tags.add(t)
        elif k == 'send':
          if 'closed' in names:
            b['send:write-failed'] += 1
          elif 'drop' in names:
            c = [e for e in own if e[0] == 'drop'][0][2]
            b['send:dropped-' + ('after-premature-reply' if c in answered else 'tag-released')] += 1
          else:
            for e in own:
              if e[0] == 'wr':
                b['send:written-' + e[1]] += 1
                if e[1] == 'req':
                  sent.add(e[3])
                  if dl_of.get(e[3]) == 1 and e[3] not in fired:
                    subscribed.add(e[3])
                    b['send:subscribed-timeout-handler'] += 1
                  if e[3] in answered:
                    b['send:written-after-premature-reply'] += 1
        elif k == 'fire':
          fired.add(label[1])
          pending.add(label[1])
          b['fire:set'] += 1
        elif k == 'notify':
          c = label[1]
          if 'enq:discard' in names:
            b['notify:discard' + ('-after-close' if closed else '')] += 1
          elif c not in subscribed:
            b['notify:no-subscriber'] += 1
          elif c in answered:
            b['notify:subscriber-already-answered'] += 1
          elif case['proto'] == 'kafka':
            b['notify:kafka-no-discard'] += 1
          else:
            b['notify:other'] += 1
          pending.discard(c)
          subscribed.discard(c)
        elif k == 'frame':
          if label[1] == 'junk':
            b['recv:short-frame'] += 1
          elif 'deliver' in names:
            c = [e for e in own if e[0] == 'deliver'][0][1]
            answered.add(c)
            b['recv:answers'] += 1
            if c not in sent:
              b['recv:answers-unsent-request'] += 1
          elif case['proto'] == 'thriftmux' and label[2] == 1 and label[1] == -65:
            b['recv:ping-reply'] += 1
          elif label[2] == 1:
            b['recv:tag1-non-ping'] += 1
          elif label[2] == 0:
            b['recv:tag0'] += 1
          else:
            b['recv:unknown-tag'] += 1
        elif k == 'shutdown':
          b['shutdown:' + ('noop' if not own else 'with-%s-pending' % ('some' if 'error' in names else 'no'))] += 1
        elif k == 'reopen':
          closed = False
        elif k == 'openagain':
          b['openagain:' + ('ping-queued' if own else 'nothing')] += 1
        elif k == 'ping':
          b['ping'] += 1
        if 'closed' in names:
          closed = True
  for evs in obs['steps']:
    for e in evs:
      if e[0] == 'note':
        b['shape:' + e[1]] += 1
  return b


def nontrivial(case, obs):
  if case['kind'] == 'pool':
    tags = [o[1] for o in obs['pool'] if o[0] == 'tag']
    return len(tags) > len(set(tags)) or any(o[0] == 'exc' for o in obs['pool'])
  if case['kind'] == 'fill':
    return True
  enq = [e[2] for evs in obs['steps'] for e in evs if e[0] == 'enq' and e[1] == 'req']
  wr = any(e[0] == 'wr' and e[1] == 'req' for evs in obs['steps'] for e in evs)
  return wr and (len(enq) > len(set(enq)) or any(e[0] == 'raise' for evs in obs['steps'] for e in evs))


def describe(case, obs):
  c = dict(case)
  o = obs
  if case['kind'] == 'mux' and len(case['ops']) > 60:
    c['ops'] = case['ops'][:60] + ['...%d more' % (len(case['ops']) - 60)]
    o = {'steps': obs['steps'][:60], 'handshakes': obs['handshakes'], 'pool_args': obs.get('pool_args')}
  if case['kind'] == 'pool' and len(case['ops']) > 60:
    c['ops'] = case['ops'][:60]
    o = {'pool': obs['pool'][:60]}
  return {'case': c, 'obs': o}


def stats(cases, obs):
  tot = collections.Counter()
  maxtag = 0
  ops = 0
  longs = []
  for c, o in zip(cases, obs):
    if not isinstance(o, dict) or 'harness_exc' in o:
      continue
    tot.update(_branches(c, o))
    if c['kind'] == 'mux':
      ops += len(c['ops'])
      if c.get('long'):
        longs.append({'requests': sum(1 for op in c['ops'] if op[0] == 'req'), 'max_unanswered': c['long'],
                      'highest_tag': max([e[2] for evs in o['steps'] for e in evs if e[0] == 'wr' and e[1] == 'req'] or [0])})
      for evs in o['steps']:
        for e in evs:
          if e[0] == 'wr' and e[1] == 'req':
            maxtag = max(maxtag, e[2])
    elif c['kind'] == 'pool':
      ops += len(c['ops'])
  return {'branch_distribution': dict(sorted(tot.items())), 'operations_executed': ops, 'highest_tag_written': maxtag,
          'long_runs': longs}
