"""C11 - Multiplexed requests carry unique, unreserved tags that are recycled safely.

Implementation under test (imported from $SCALES_REPO as it is now):
  suite (a) 'pool' / 'fill' : scales.mux.sink.TagPool driven in lock-step (get / release histories, including
            foreign and double releases; the element chosen by set.pop() is observed and handed to the model)
  suite (b) 'mux'           : the real scales.thriftmux.sink.SocketTransportSink (and scales.kafka.sink.
            KafkaTransportSink) opened on an in-memory socket object.  The real _RecvLoop / _SendLoop /
            _ProcessReply greenlets run under gevent; the harness owns the three places where the environment
            enters: the socket (records writes, is fed peer frames, can fail), the send queue class (a Queue
            that hands an item to _SendLoop only when the harness grants a step, so every interleaving of
            "request queued / deadline fires / frame written" can be scheduled) and gevent.spawn inside
            scales.observable (the notification greenlet of a deadline event runs when the op list says so).
            Deadlines are signalled exactly as ClientTimeoutSink does: evt = Observable() stored under
            Deadline.EVENT_KEY, evt.Set(True) at expiry.
Model: coq/Model/MuxTags.v.  Monitor: an independent bookkeeping of who holds which tag, computed from the
frames queued/written (tags parsed off the wire bytes by decode_written), the frames the scripted peer sent and the
get()/release() calls the sink makes on its TagPool (never from the model, never from the sink's private fields).
"""
import collections
import io
import logging
import struct
import sys

from .. import common as C

PID = 'C11'
PROPS_FILE = 'Props/C11.v'
COQ_HEADER = 'From Scales Require Import Model.MuxTags.'
COQ_CASE_TYPE = 'MuxTags.case'
COQ_CHECK = 'MuxTags.check_case'
COQ_EXPLAIN = 'MuxTags.explain_case'
SHARD = 120
WORKERS = 4
RULE = ('suite (a): seeded TagPool histories (max_tag 3..9 and 2^24-1; get / release of held, free, foreign, reserved tags) '
        'plus fill-to-exhaustion runs (thorough: the real TagPool(2^24-1), 16.7M get() calls); suite (b): seeded op lists for the '
        'real ThriftMux / Kafka transport sink on an in-memory socket: requests without deadline, with a pending deadline, with an '
        'already expired one; send-loop steps (write ok / write fails); deadline firing and its notification greenlet scheduled '
        'independently; peer frames of 12 types on tags 0, 1, live, free, never-issued, 2^24-1, duplicates and premature '
        'replies; short frames; pings; Close / EOF; re-open on a new connection; TagPool sizes 4..7 to reach exhaustion and '
        'the real 2^24-1; in ~30% of the real-size cases the pool of every connection is fast-forwarded (high-water mark 254, 255, '
        '4094, 2^16-4..2^16+1, 2^17-2.., 2^20-1, 2^23-2.., 2^24-40..2^24-3 or random) so that tags around every byte boundary and '
        'up to 2^24-2 (then refusal) go through the real header writer, with peer frames aimed at those tags and at their 8/16/23-bit '
        'truncations; scripted time-out-before/after-send and late-reply scenarios interleaved with the random ops; steady '
        'long runs (400 / 2 000 / 100 000 requests, at most 8 unanswered: highest tag must stay <= 9). non-trivial = at least one '
        'request frame was written and a tag was recycled or a request refused; distinct by canonical JSON of (case, observation)')
TRUSTED = ['in-memory socket / step-granting queue / captured Observable notification / lease-recording TagPool proxy in '
           'harness/props/c11.py (the only replaced collaborators; TagPool, both transport sinks, Observable, AsyncResult and gevent are the real ones)',
           'independent tag bookkeeping in monitor() of harness/props/c11.py']
ASSUMPTIONS = ['a pool fast-forwarded to high-water mark b (b-1 real get() calls for b <= 4096, TagPool._next = b above) stands for a '
               'pool whose tags 2..b are leased to holders outside the run; the fill cases / C11_fill tie that state to b-1 get() calls, '
               'and the theorems hold for every start mark (cfg.base)',
               'gevent greenlets only switch at blocking calls, so AsyncProcessRequest, one _SendLoop iteration, one '
               '_ProcessReply and one notification callback are atomic (the labels of the model)',
               'a request is "answered" when the peer sends a non-ping frame naming its tag while the request holds that tag '
               '(a peer that answers before the request frame is written has answered it)',
               'TagPool sizes below 2^24-1 are substituted through the TagPool(max_tag, ..) constructor argument only; the '
               'argument the sink passes itself is observed and must be 2^24-1',
               'a re-open is a new sink object on a new connection (MuxSocketTransportSink cannot be re-opened once Closed)']

MANIFEST = {
    'text': ('Theorems C11_range(_real), C11_reserved, C11_unique, C11_unique_wire, C11_unanswered_hold, C11_release_points, C11_reuse, '
             'C11_reuse_peak, C11_exhaustion, C11_no_early_refusal and C11_fill hold for every label sequence (requests, send-loop steps, '
             'deadline firing/notification, arbitrary peer frames, pings, shutdown, re-open; no bound on length, every set.pop() outcome) '
             'of the Gallina transcription of TagPool and the mux transport; the transcription is compared event for event with the real '
             'TagPool and the real ThriftMux/Kafka transport sinks on ~3k (quick) / ~19k (thorough) generated histories per run, and an '
             'independent monitor checks the property on the tags parsed off the queued/written frames (compared with the tags leased '
             'from the pool, also for pools fast-forwarded to 2^16 and 2^24-2).'),
    'note': ('Trusted: Coq kernel; the harness (in-memory socket, step-granting send queue, captured notification greenlet) and its '
             'sampling of schedules; atomicity of greenlet code between blocking calls. All theorems closed under the global context.'),
    'technique': 'Coq proof (inductive invariant over all label sequences) + lock-step / trace-driven differential execution model vs code',
    'design_ref': 'DESIGN.md section 5, C11; section 6, F9',
}

REAL_MAX = 2 ** 24 - 1
_S = {}
_CUR = {'ev': None, 'queues': None, 'pending': None, 'evt_call': None, 'helpers': None, 'pool_args': None, 'max': None,
        'start': None}
FFWD_BY_CALLS = 4096     # fast-forward a pool by really calling get() up to this mark, above it by setting the mark


def _emit(*e):
  if _CUR['ev'] is not None:
    _CUR['ev'].append(list(e))


# ---------------------------------------------------------------------------------------------
# replaced collaborators
# ---------------------------------------------------------------------------------------------
def _make_world():
  import gevent
  from gevent.event import Event

  class CtlQueue(object):
    """Stands in for gevent.queue.Queue inside scales.mux.sink: get() returns only when the harness granted a step."""

    def __init__(self, *a, **kw):
      self.items = collections.deque()
      self.permits = 0
      self.ev = Event()
      if _CUR['queues'] is not None:
        _CUR['queues'].append(self)

    def put(self, x):
      self.items.append(x)
      _emit('enq', bytes(x[0]))
      self.ev.set()

    def get(self):
      while not (self.permits > 0 and self.items):
        self.ev.clear()
        self.ev.wait()
      self.permits -= 1
      x = self.items.popleft()
      _emit('take', bytes(x[0]))
      return x

    def qsize(self):
      return len(self.items)

    def grant(self):
      self.permits += 1
      self.ev.set()

  class ObsGevent(object):
    """gevent as seen by scales.observable: the notification greenlet of a call's deadline event is held back."""

    def __getattr__(self, k):
      return getattr(gevent, k)

    def spawn(self, fn, *a, **kw):
      owner = getattr(fn, '__self__', None)
      cm = _CUR['evt_call']
      if cm is not None and id(owner) in cm:
        _CUR['pending'].setdefault(cm[id(owner)], []).append((fn, a, kw))
        return None
      return gevent.spawn(fn, *a, **kw)

  class MuxGevent(object):
    """gevent as seen by scales.thriftmux.sink: spawned helper greenlets are remembered so they can be killed."""

    def __getattr__(self, k):
      return getattr(gevent, k)

    def spawn(self, fn, *a, **kw):
      g = gevent.spawn(fn, *a, **kw)
      if _CUR['helpers'] is not None:
        _CUR['helpers'].append(g)
      return g

  class FakeSocket(object):
    host = 'peer'
    port = 1

    def __init__(self):
      self.rx = b''
      self.ev = Event()
      self.err = None
      self.fail_write = False
      self.closed = False

    def open(self):
      pass

    def isOpen(self):
      return not self.closed

    def close(self):
      self.closed = True
      _emit('closed')
      self.ev.set()

    def write(self, b):
      if self.fail_write:
        _emit('wr-fail')
        raise IOError('broken pipe')
      _emit('wr', bytes(b))

    def readAll(self, n):
      while len(self.rx) < n:
        if self.err is not None:
          raise self.err
        if self.closed:
          raise IOError('socket closed')
        self.ev.clear()
        self.ev.wait()
      r, self.rx = self.rx[:n], self.rx[n:]
      return r

    def feed(self, b):
      self.rx += b
      self.ev.set()

  class Stack(object):
    """What a call's sink stack receives."""

    def __init__(self, c):
      self.c = c

    def Push(self, *a):
      pass

    def AsyncProcessResponseStream(self, stream):
      _emit('deliver', self.c, bytes(stream.getvalue()))

    def AsyncProcessResponseMessage(self, msg):
      _emit('error', self.c, type(msg.error).__name__, str(msg.error))

    def AsyncProcessResponse(self, stream, msg):
      _emit('error', self.c, 'AsyncProcessResponse', '')

  return CtlQueue, ObsGevent, MuxGevent, FakeSocket, Stack


class _WarnCatcher(logging.Handler):
  def __init__(self):
    logging.Handler.__init__(self, logging.WARNING)
    self.n = 0

  def emit(self, record):
    self.n += 1


def setup():
  if _S:
    return
  if C.REPO not in sys.path:
    sys.path.insert(0, C.REPO)
  import gevent
  import scales
  assert scales.__file__.startswith(C.REPO), scales.__file__
  import scales.mux.sink as ms
  import scales.thriftmux.sink as tms
  import scales.kafka.sink as ks
  import scales.observable as ob
  from scales.message import MethodCallMessage, Deadline
  from scales.constants import TransportHeaders, ChannelState
  lg = logging.getLogger('scales')
  lg.addHandler(logging.NullHandler())
  lg.propagate = False
  warn = _WarnCatcher()
  logging.getLogger('scales.mux.TagPool').addHandler(warn)
  CtlQueue, ObsGevent, MuxGevent, FakeSocket, Stack = _make_world()
  real_pool = ms.TagPool

  class RecordingPool(object):
    """The sink's TagPool collaborator: the real pool, with every lease and release recorded."""

    def __init__(self, pool):
      self._pool = pool

    def get(self):
      t = self._pool.get()
      _emit('lease', t)
      return t

    def release(self, tag):
      _emit('release', tag)
      return self._pool.release(tag)

  def pool_factory(max_tag, service, host):
    if _CUR['pool_args'] is not None:
      _CUR['pool_args'].append(max_tag)
    pool = real_pool(_CUR['max'] if _CUR['max'] else max_tag, service, host)
    st = _CUR['start']
    if st and st > 1:
      # fast-forward: the state st-1 calls of get() leave behind (high-water mark st, nothing released; this
      # equivalence is what the 'fill' cases and C11_fill establish)
      if st <= FFWD_BY_CALLS:
        for _ in range(st - 1):
          pool.get()
      else:
        pool._next = st
    return RecordingPool(pool)

  class NoPing(object):
    """random as seen by scales.thriftmux.sink: the periodic ping (every 30-40 s of real time) never fires by itself;
    pings are sent by the 'ping' op."""

    @staticmethod
    def randint(a, b):
      return 10 ** 7

  tms.random = NoPing
  ms.Queue = CtlQueue
  ms.TagPool = pool_factory
  ob.gevent = ObsGevent()
  tms.gevent = MuxGevent()
  _S.update(gevent=gevent, ms=ms, tms=tms, ks=ks, ob=ob, TagPool=real_pool, MethodCallMessage=MethodCallMessage,
            Deadline=Deadline, TransportHeaders=TransportHeaders, ChannelState=ChannelState, FakeSocket=FakeSocket,
            Stack=Stack, warn=warn)


# ---------------------------------------------------------------------------------------------
# generators
# ---------------------------------------------------------------------------------------------
RTYPES = [-2, -2, -2, -2, -128, -65, 2, 65, 66, -62, 0, 127, 64, -1, 1, 68]
EDGE_TAGS = [2 ** 24 - 1, 2 ** 24 - 2, 255, 256, 65535, 65536, 4095]


def _gen_pool(r, big=False):
  mx = REAL_MAX if big else r.choice([3, 4, 5, 6, 7, 9])
  ops = []
  held = []
  disciplined = r.random() < 0.5
  for _ in range(r.choice([5, 12, 30, 60])):
    k = r.random()
    if k < 0.55 or not held:
      ops.append(['get'])
      held.append(len(held) + 2)       # only an approximation, used to aim releases
    elif disciplined:
      ops.append(['rel', r.choice(held)])
    else:
      ops.append(['rel', r.choice(held + [0, 1, 2, 3, 7, mx - 1, mx, r.randrange(0, 12)])])
  return {'kind': 'pool', 'max': mx, 'ops': ops}


FFWD_STARTS = [254, 255, 4094, 65532, 65533, 65534, 65535, 65536, 65537, 131070, 131071, 2 ** 20 - 1, 2 ** 23 - 2, 2 ** 23 - 1,
               2 ** 24 - 40, 2 ** 24 - 12, 2 ** 24 - 7, 2 ** 24 - 5, 2 ** 24 - 4, 2 ** 24 - 3]


def _gen_mux(r, nops, proto=None, mx=None, conc=None, start=None):
  proto = proto or ('kafka' if r.random() < 0.15 else 'thriftmux')
  if start is None and mx is None and r.random() < 0.3:
    start = r.choice(FFWD_STARTS + [r.randrange(2, 2 ** 24 - 3)])     # real TagPool(2^24-1), high-water mark fast-forwarded
  off = (start - 1) if start else 0
  if mx is None and not start:
    mx = r.choice([None, None, None, 4, 5, 6, 7])
  conc = conc or r.choice([1, 2, 3, 5, 8])
  style = r.choice(['mixed', 'mixed', 'timeouts', 'adversarial', 'steady'])
  w = {'mixed': dict(req=24, send=26, fire=6, notify=6, recv=22, junk=1, ping=2, shutdown=1.5, reopen=1, m_after=3, m_before=2, m_late=2),
       'timeouts': dict(req=20, send=20, fire=10, notify=10, recv=14, junk=0, ping=1, shutdown=1, reopen=1, m_after=8, m_before=6, m_late=4),
       'adversarial': dict(req=20, send=18, fire=5, notify=5, recv=40, junk=2, ping=2, shutdown=1, reopen=1, m_after=2, m_before=2, m_late=2),
       'steady': dict(req=30, send=32, fire=2, notify=2, recv=30, junk=0, ping=1, shutdown=0, reopen=0, m_after=1, m_before=1, m_late=1)}[style]
  names = list(w)
  weights = [w[k] for k in names]
  ops = []
  nc = 0
  live = []          # calls issued recently (targets for fire/notify)
  outstanding = 0    # rough count to keep concurrency near `conc`
  for _ in range(nops):
    k = r.choices(names, weights)[0]
    if k == 'req' and outstanding >= conc and r.random() < 0.85:
      k = 'recv'
    if k in ('m_after', 'm_before', 'm_late'):
      # scripted time-out scenarios (the other ops still interleave: the queue may hold older entries)
      nc += 1
      live.append(nc)
      outstanding += 1
      sends = [['send', 1]] * r.choice([1, 1, 2, 3])
      noise = [['recv', r.choice(RTYPES), r.choice([0, off]) + r.randrange(0, 8)]] if r.random() < 0.3 else []
      if k == 'm_after':      # written, then the deadline fires: Tdiscarded, tag stays leased until the peer answers
        ops += [['req', nc, 1]] + sends + noise + [['fire', nc], ['notify', nc]] + sends
      elif k == 'm_before':   # the deadline fires while the request is still queued: dropped, tag released
        ops += [['req', nc, 1]] + noise + [['fire', nc]] + sends + [['notify', nc]]
      else:                   # the peer answers late / twice, the tag is recycled by the next request
        t = off + r.randrange(2, 3 + conc)
        ops += [['req', nc, 1]] + sends + [['fire', nc], ['notify', nc], ['recv', -2, t]] + noise + [['req', nc + 1, 0], ['recv', -2, t]] + sends
        nc += 1
        live.append(nc)
      continue
    if k == 'req':
      nc += 1
      dl = r.choices([0, 1, 2], [5, 4, 1])[0]
      ops.append(['req', nc, dl])
      live.append(nc)
      live = live[-10:]
      outstanding += 1
    elif k == 'send':
      ops.append(['send', 0 if r.random() < 0.02 else 1])
    elif k in ('fire', 'notify'):
      if live:
        ops.append([k, r.choice(live)])
    elif k == 'recv':
      q = r.random()
      if q < 0.62:
        tag = off + r.randrange(2, 3 + max(2, min(conc + 1, 9)))
      elif q < 0.72:
        tag = 1
      elif q < 0.80:
        tag = 0
      elif q < 0.92:
        tag = r.choice([0, off, off]) + r.randrange(2, 14)
        if off and r.random() < 0.3:
          tag &= r.choice([0xffff, 0xff, 0x7fffff])        # what a truncated tag would look like
      else:
        tag = r.choice(EDGE_TAGS + [r.randrange(0, 2 ** 24)])
      if proto == 'kafka' and r.random() < 0.05:
        tag = r.choice([-1, -2, 2 ** 31 - 1, -2 ** 31])
      mt = r.choice(RTYPES)
      ops.append(['recv', mt, tag])
      if r.random() < 0.12:
        ops.append(['recv', r.choice(RTYPES), tag])      # duplicate answer
      outstanding = max(0, outstanding - 1)
    elif k == 'junk':
      ops.append(['junk', r.choice([0, 1, 2, 3])])
    elif k == 'ping':
      ops.append(['ping'])
    elif k == 'shutdown':
      ops.append(['shutdown', r.choice(['close', 'eof'])])
      outstanding = 0
      for _x in range(r.choice([0, 0, 1, 2, 4])):       # a few ops on the dead connection, then usually a new one
        ops.append(r.choice([['req', nc + 1000 + _x, 0], ['notify', r.choice(live or [1])], ['fire', r.choice(live or [1])],
                             ['recv', -2, off + 2], ['send', 1]]))
      if r.random() < 0.8:
        ops.append(['reopen'])
    elif k == 'reopen':
      ops.append(['reopen'])
  for op in ops:
    if op[0] == 'recv':
      op[2] = min(op[2], 2 ** 24 - 1) if proto == 'thriftmux' else op[2]
  c = {'kind': 'mux', 'proto': proto, 'max': mx, 'ops': ops}
  if start:
    c['start'] = start
  return c


def _gen_longrun(r, nreq, conc=8):
  """Steady traffic: never more than `conc` requests unanswered.  Replies hit random tags in 2..conc+1; whenever `conc`
  requests have been issued since the last sweep, the peer answers every tag 2..conc+1 (so everything is answered,
  including the requests that timed out after transmission).  Hence no tag above conc+1 may ever be used."""
  ops = []
  nc = 0
  since = 0
  while nc < nreq:
    nc += 1
    since += 1
    ops.append(['req', nc, 1 if r.random() < 0.1 else 0])
    ops.append(['send', 1])
    if r.random() < 0.03:
      ops += [['fire', nc], ['notify', nc], ['send', 1]]
    for _ in range(r.choice([0, 0, 1, 1, 2])):
      ops.append(['recv', -2, r.randrange(2, conc + 2)])
    if since >= conc:
      tags = list(range(2, conc + 2))
      r.shuffle(tags)
      ops += [['recv', -2, t] for t in tags]
      since = 0
  return {'kind': 'mux', 'proto': 'thriftmux', 'max': None, 'ops': ops, 'long': conc}


def gen_cases(tier, seed):
  quick = tier == 'quick'
  out = []
  # ---- suite (a)
  for i in range(500 if quick else 3000):
    r = C.case_rng(seed, PID + 'pool', i)
    out.append(_gen_pool(r, big=(i % 5 == 0)))
  for mx in [2, 3, 4, 5, 9]:
    for n in [1, mx - 3, mx - 2, mx - 1, mx + 3]:
      if n >= 1:
        out.append({'kind': 'fill', 'max': mx, 'n': n})
  out.append({'kind': 'fill', 'max': 200001, 'n': 199999})
  out.append({'kind': 'fill', 'max': 200001, 'n': 200000})
  out.append({'kind': 'fill', 'max': REAL_MAX, 'n': 1000})
  if not quick:
    out.append({'kind': 'fill', 'max': REAL_MAX, 'n': REAL_MAX - 2})     # the last tag: 2^24-2
    out.append({'kind': 'fill', 'max': REAL_MAX, 'n': REAL_MAX - 1})     # one more is refused
  # ---- suite (b)
  for i in range(1800 if quick else 16000):
    r = C.case_rng(seed, PID + 'mux', i)
    out.append(_gen_mux(r, r.choice([12, 25, 40, 70, 120])))
  for i in range(3 if quick else 12):
    r = C.case_rng(seed, PID + 'long', i)
    out.append(_gen_longrun(r, 400 if quick else 2000))
  if not quick:
    r = C.case_rng(seed, PID + 'verylong', 0)
    out.append(_gen_longrun(r, 100000))
  return out


def search_cases(tier, seed, diverging):
  """Adversarial stream used only when proof/correspondence broke: many more peer frames on reserved / unknown tags."""
  out = []
  for i in range(3000):
    r = C.case_rng(seed + 7919, PID + 'search', i)
    c = _gen_mux(r, r.choice([20, 40, 80]), proto='thriftmux' if i % 4 else 'kafka')
    out.append(c)
  for i in range(500):
    r = C.case_rng(seed + 7919, PID + 'searchpool', i)
    out.append(_gen_pool(r))
  return out


# ---------------------------------------------------------------------------------------------
# frame decoding (harness side, independent of scales)
# ---------------------------------------------------------------------------------------------
REQ_TYPE = {'thriftmux': 2, 'kafka': 0}


def decode_written(proto, b):
  """-> [kind, tag, x] with kind in req/discard/ping, or ['bad', hex]."""
  try:
    if len(b) < 4 or int.from_bytes(b[:4], 'big') != len(b) - 4:
      return ['bad', b.hex()]
    if proto == 'thriftmux':
      if len(b) < 8:
        return ['bad', b.hex()]
      t = b[4] - 256 if b[4] >= 128 else b[4]
      tag = int.from_bytes(b[5:8], 'big')
      body = b[8:]
      if t == 2 and len(body) == 4:
        return ['req', tag, int.from_bytes(body, 'big')]
      if t == 66 and len(body) >= 3 and body[3:] == b'Client timeout':
        return ['discard', tag, int.from_bytes(body[:3], 'big')]
      if t == 65 and body == b'':
        return ['ping', tag, 0]
      return ['bad', b.hex()]
    api, ver, corr, cl = struct.unpack('!hhih', b[4:14])
    body = b[14 + cl:]
    if api == 0 and ver == 0 and b[14:14 + cl] == b'scales' and len(body) == 4:
      return ['req', corr, int.from_bytes(body, 'big')]
    return ['bad', b.hex()]
  except Exception:
    return ['bad', b.hex()]


def peer_frame(proto, mtype, tag):
  if proto == 'thriftmux':
    body = struct.pack('!b', mtype) + int(tag).to_bytes(3, 'big') + b'r'
  else:
    body = struct.pack('!i', tag) + b'r'
  return struct.pack('!i', len(body)) + body


# ---------------------------------------------------------------------------------------------
# implementation drivers
# ---------------------------------------------------------------------------------------------
def _run_pool(case):
  _S['warn'].n = 0
  pool = _S['TagPool'](case['max'], 'svc', 'h')
  obs = []
  for op in case['ops']:
    if op[0] == 'get':
      try:
        obs.append(['tag', pool.get()])
      except Exception as e:
        obs.append(['exc', str(e)])
    else:
      w0 = _S['warn'].n
      ret = pool.release(op[1])
      obs.append(['rel', _S['warn'].n - w0, repr(ret)])
  return {'pool': obs}


def _run_fill(case):
  pool = _S['TagPool'](case['max'], 'svc', 'h')
  get = pool.get
  last = None
  refused = 0
  prev = 1
  contiguous = True
  for _ in range(case['n']):
    try:
      last = get()
      if last != prev + 1:
        contiguous = False
      prev = last
    except Exception:
      refused += 1
  try:
    after = get()
  except Exception:
    after = None
  return {'last': last, 'refused': refused, 'after': after, 'contiguous': contiguous}


class _Conn(object):
  pass


def _settle():
  idle = _S['gevent'].idle
  idle()
  idle()
  idle()


def _open_conn(proto):
  cn = _Conn()
  cn.sock = _S['FakeSocket']()
  nq = len(_CUR['queues'])
  if proto == 'thriftmux':
    cn.sink = _S['tms'].SocketTransportSink(cn.sock, 'svc')
    cn.sink._ping_timeout = 1e9          # the ping watchdog (5 s of real time) plays no part in these runs
  else:
    cn.sink = _S['ks'].KafkaTransportSink(cn.sock, 'svc')
  cn.closed = False
  mark = len(_CUR['ev'])
  ar = cn.sink.Open()
  _settle()
  if proto == 'thriftmux':
    _CUR['queues'][-1].grant()
    _settle()
    cn.sock.feed(peer_frame(proto, -65, 1))
    _settle()
  hs = [decode_written(proto, e[1]) for e in _CUR['ev'][mark:] if e[0] == 'wr']
  ok = ar.ready() and ar.successful() and cn.sink.state == _S['ChannelState'].Open and len(_CUR['queues']) == nq + 1
  del _CUR['ev'][mark:]
  return cn, hs, bool(ok)


def _translate(proto, raw):
  """Raw recorder entries of one op -> observable events (frames decoded); 'take' without a write attempt = dropped."""
  out = []
  took = None
  attempted = False
  for e in raw:
    if e[0] == 'enq':
      out.append(['enq'] + decode_written(proto, e[1]))
    elif e[0] == 'take':
      took = decode_written(proto, e[1])
      attempted = False
    elif e[0] == 'wr':
      attempted = True
      out.append(['wr'] + decode_written(proto, e[1]))
    elif e[0] == 'wr-fail':
      attempted = True
    elif e[0] == 'deliver':
      out.append(['deliver', e[1], e[2].hex()])
    else:
      out.append(e)
  if took is not None and not attempted:
    out.append(['drop'] + took[1:] if took[0] == 'req' else ['drop-other'] + took)
  return out


def _run_mux(case):
  proto = case['proto']
  ev = []
  _CUR.update(ev=ev, queues=[], pending={}, evt_call={}, helpers=[], pool_args=[], max=case.get('max'), start=case.get('start'))
  res = {'steps': [], 'handshakes': []}
  calls = {}      # c -> dict(evt, fired, conn)
  keep = []       # keeps Observables alive so that id() stays unique
  conns = []
  try:
    cn, hs, ok = _open_conn(proto)
    conns.append(cn)
    res['handshakes'].append([hs, ok])
    for op in case['ops']:
      mark = len(ev)
      k = op[0]
      if k == 'req':
        c, dl = op[1], op[2]
        if c not in calls:
          msg = _S['MethodCallMessage'](None, 'm', (), {})
          evt = None
          if dl:
            evt = _S['ob'].Observable()
            keep.append(evt)
            _CUR['evt_call'][id(evt)] = c
            msg.properties[_S['Deadline'].EVENT_KEY] = evt
          calls[c] = {'evt': evt, 'fired': False, 'conn': len(conns)}
          if dl >= 2:
            evt.Set(True)
            calls[c]['fired'] = True
          buf = io.BytesIO()
          buf.write(struct.pack('!i', c))
          try:
            cn.sink.AsyncProcessRequest(_S['Stack'](c), msg, buf, {_S['TransportHeaders'].MessageType: REQ_TYPE[proto]})
          except Exception as e:
            _emit('raise', c, str(e))
      elif k == 'send':
        q = _CUR['queues'][-1]
        if not cn.closed and q.qsize() > 0:
          cn.sock.fail_write = not op[1]
          q.grant()
          _settle()
          cn.sock.fail_write = False
      elif k == 'fire':
        cl = calls.get(op[1])
        if cl and cl['conn'] == len(conns) and cl['evt'] is not None and not cl['fired']:
          cl['fired'] = True
          cl['evt'].Set(True)          # what ClientTimeoutSink._TimeoutHelper does first
      elif k == 'notify':
        cl = calls.get(op[1])
        pend = _CUR['pending'].get(op[1])
        if cl and cl['conn'] == len(conns) and pend:
          fn, a, kw = pend.pop(0)
          fn(*a, **kw)
          _settle()
      elif k == 'recv':
        if not cn.closed:
          cn.sock.feed(peer_frame(proto, op[1], op[2]))
          _settle()
      elif k == 'junk':
        if not cn.closed and proto == 'thriftmux':
          n = op[1]
          cn.sock.feed(struct.pack('!i', n) + b'\xfe' * n)
          _settle()
      elif k == 'ping':
        if not cn.closed and proto == 'thriftmux':
          cn.sink._SendPingMessage()
          _settle()
      elif k == 'shutdown':
        if not cn.closed:
          if op[1] == 'close':
            cn.sink.Close()
          else:
            cn.sock.err = IOError('connection reset by peer')
            cn.sock.ev.set()
          _settle()
      elif k == 'reopen':
        if cn.closed:
          cn, hs, ok = _open_conn(proto)
          conns.append(cn)
          res['handshakes'].append([hs, ok])
      else:
        raise ValueError(k)
      raw = ev[mark:]
      if any(e[0] == 'closed' for e in raw):
        cn.closed = True
      if not cn.closed and cn.sink.state == _S['ChannelState'].Closed:
        cn.closed = True
        raw = raw + [['closed-without-socket-close']]
      res['steps'].append(_translate(proto, raw))
    res['pool_args'] = list(_CUR['pool_args'])
  finally:
    _CUR['ev'] = None
    _CUR['evt_call'] = None
    _CUR['max'] = None
    _CUR['start'] = None
    for cn in conns:
      try:
        cn.sink.Close()
      except Exception:
        pass
    for g in _CUR['helpers'] or []:
      g.kill(block=False)
    _CUR['helpers'] = None
    _CUR['queues'] = None
    _CUR['pool_args'] = None
    _settle()
  return res


def run_impl(case):
  setup()
  k = case['kind']
  if k == 'pool':
    return _run_pool(case)
  if k == 'fill':
    return _run_fill(case)
  if k == 'mux':
    return _run_mux(case)
  raise ValueError(k)


# ---------------------------------------------------------------------------------------------
# monitor: the property statement, on frames and peer frames only
# ---------------------------------------------------------------------------------------------
def _monitor_pool(case, obs):
  v = []
  mx = case['max']
  held = set()
  free = set()
  hi = 1
  judged = True       # TagPool trusts its caller: once a tag that is not held is released, nothing is promised any more
  for i, (op, o) in enumerate(zip(case['ops'], obs['pool'])):
    if op[0] == 'rel':
      if op[1] in held:
        held.discard(op[1])
        free.add(op[1])
      else:
        judged = False
      continue
    if not judged:
      continue
    if o[0] == 'exc':
      if free or hi != mx - 1:
        v.append(('pool-refused-early', 'op %d: get() raised with %d released tags and high-water mark %d (max_tag %d)' % (i, len(free), hi, mx)))
      continue
    t = o[1]
    if t in (0, 1):
      v.append(('reserved-tag', 'op %d: TagPool.get() returned the reserved tag %d' % (i, t)))
    elif not 2 <= t <= mx - 1:
      v.append(('tag-out-of-range', 'op %d: TagPool(%d).get() returned %d' % (i, mx, t)))
    if t in held:
      v.append(('tag-reissued-while-held', 'op %d: TagPool.get() returned %d which is still leased' % (i, t)))
    if t in free:
      free.discard(t)
    elif t == hi + 1:
      if free:
        v.append(('fresh-tag-while-released-available', 'op %d: new tag %d although %s are released' % (i, t, sorted(free))))
      hi = t
    elif t not in held:
      v.append(('tag-neither-recycled-nor-next', 'op %d: get() returned %d; released %s, high-water mark %d' % (i, t, sorted(free), hi)))
      hi = max(hi, t)
    held.add(t)
  return v


def _monitor_fill(case, obs):
  v = []
  mx, n = case['max'], case['n']
  if mx < 2:
    return v
  want_last = min(n + 1, mx - 1) if mx > 2 else None
  want_refused = max(0, n - (mx - 2))
  if obs['last'] != want_last or not obs['contiguous']:
    v.append(('tag-out-of-range' if (obs['last'] or 0) > mx - 1 else 'fill-sequence',
              '%d get() on TagPool(%d): last tag %s (expected %s), contiguous=%s' % (n, mx, obs['last'], want_last, obs['contiguous'])))
  if obs['refused'] != want_refused:
    v.append(('exhaustion-point', '%d get() on TagPool(%d): %d refused, expected %d' % (n, mx, obs['refused'], want_refused)))
  want_after = n + 2 if n + 2 <= mx - 1 else None
  if obs['after'] != want_after:
    v.append(('exhaustion-point' if want_after is None else 'fill-sequence',
              'get() after %d calls on TagPool(%d) gave %s, expected %s' % (n, mx, obs['after'], want_after)))
  return v


def _monitor_mux(case, obs):
  v = []
  proto = case['proto']
  bound = (case.get('max') or REAL_MAX) - 1        # highest tag a request may carry
  bound = min(bound, 2 ** 24 - 2)

  def bad(sig, i, msg):
    v.append((sig, 'op %d %s: %s' % (i, case['ops'][i] if i >= 0 else '', msg)))

  for a in obs.get('pool_args', []):
    if a != REAL_MAX:
      v.append(('pool-size-constant', 'the sink builds TagPool(%r), expected 2^24-1' % (a,)))
  for hs, ok in obs['handshakes']:
    if proto == 'thriftmux' and (hs != [['ping', 1, 0]] or not ok):
      v.append(('handshake', 'open wrote %s (expected one Tping on tag 1), opened=%s' % (hs, ok)))
    if proto == 'kafka' and (hs or not ok):
      v.append(('handshake', 'open wrote %s, opened=%s' % (hs, ok)))

  hi0 = case.get('start') or 1      # high-water mark a new connection's pool starts from
  held = {}          # WIRE tag -> call currently holding it (queued or written, no answer yet)
  free = set()       # released tags not handed out again
  hi = hi0           # highest tag handed out on this connection
  leased = {}        # call -> tag TagPool.get() returned for it
  queued = {}        # call -> tag it was queued with
  written = set()
  fired = set()
  peak = 0
  closed = False
  for i, (op, evs) in enumerate(zip(case['ops'], obs['steps'])):
    k = op[0]
    if k == 'reopen' and closed:
      held, free, hi, peak, closed = {}, set(), hi0, 0, False
    if k == 'fire' or (k == 'req' and op[2] >= 2):
      fired.add(op[1])
    # what the peer frame of this op answers (decided on the wire, before looking at what the client did)
    answered = None
    if k == 'recv' and not closed:
      mt, tag = op[1], op[2]
      is_ping_reply = proto == 'thriftmux' and tag == 1 and mt == -65
      if not is_ping_reply and (proto == 'kafka' or tag != 0) and tag in held:
        answered = held.pop(tag)
        free.add(tag)
    delivered = []
    dropped_tags = [leased.get(e[2]) for e in evs if e[0] == 'drop']
    for e in evs:
      if e[0] == 'lease':
        if k != 'req':
          bad('unexpected-event', i, 'TagPool.get() called outside AsyncProcessRequest')
        else:
          leased[op[1]] = e[1]
      elif e[0] == 'release':
        t = e[1]
        by_peer = k == 'recv' and op[2] == t and answered is not None
        if not by_peer and t not in dropped_tags:
          bad('release-outside-release-point', i, 'tag %r returned to the pool, but the peer did not answer it in this step and no '
              'unsent timed-out request holding it was dropped' % (t,))
      elif e[0] == 'enq' and e[1] == 'req':
        t, c = e[2], e[3]
        if k != 'req' or c != op[1]:
          bad('unexpected-frame', i, 'request frame queued for call %s' % c)
        if leased.get(c) != t:
          bad('wire-tag-differs-from-lease', i, 'call %d leased tag %s from the pool but its frame header carries tag %d' % (c, leased.get(c), t))
        if t in (0, 1):
          bad('reserved-tag', i, 'request of call %d was given the reserved tag %d' % (c, t))
        elif not 2 <= t <= bound:
          bad('tag-out-of-range', i, 'request of call %d was given tag %d (allowed 2..%d)' % (c, t, bound))
        if t in held:
          bad('tag-reissued-while-held', i, 'tag %d given to call %d while call %d holds it unanswered' % (t, c, held[t]))
        if t in free:
          free.discard(t)
        elif t == hi + 1:
          if free:
            bad('fresh-tag-while-released-available', i, 'new tag %d although %s were released and are unused' % (t, sorted(free)))
          hi = t
        else:
          if t not in held:
            bad('tag-neither-recycled-nor-next', i, 'tag %d was never released and is not the next tag %d' % (t, hi + 1))
          hi = max(hi, t)
        held[t] = c
        queued[c] = t
        peak = max(peak, len(held))
      elif e[0] == 'enq' and e[1] == 'discard':
        if e[2] != 0:
          bad('discard-frame-tag', i, 'Tdiscarded queued with frame tag %d' % e[2])
        if k != 'notify' or leased.get(op[1]) != e[3]:
          bad('discard-names-wrong-tag', i, 'Tdiscarded names tag %d; the timed-out call leased %s' % (e[3], leased.get(op[1]) if k == 'notify' else None))
      elif e[0] == 'enq' and e[1] == 'ping':
        if e[2] != 1:
          bad('ping-tag', i, 'Tping queued on tag %d' % e[2])
      elif e[0] == 'wr' and e[1] == 'req':
        t, c = e[2], e[3]
        if t in (0, 1):
          bad('reserved-tag', i, 'request of call %d written with the reserved tag %d' % (c, t))
        elif not 2 <= t <= bound:
          bad('tag-out-of-range', i, 'request of call %d written with tag %d (allowed 2..%d)' % (c, t, bound))
        if queued.get(c) != t:
          bad('written-tag-differs', i, 'call %d written with tag %d but queued with %s' % (c, t, queued.get(c)))
        if leased.get(c) != t:
          bad('wire-tag-differs-from-lease', i, 'call %d leased tag %s from the pool but is written with tag %d' % (c, leased.get(c), t))
        other = held.get(t)
        if other is not None and other != c and other in written:
          bad('duplicate-tag-on-wire', i, 'call %d written with tag %d while the written request of call %d is unanswered on it' % (c, t, other))
        if t > hi0 + peak:
          bad('reuse-bound', i, 'tag %d written although at most %d requests were ever unanswered together (pool started at %d)' % (t, peak, hi0))
        written.add(c)
      elif e[0] == 'wr' and e[1] == 'discard':
        if e[2] != 0:
          bad('discard-frame-tag', i, 'Tdiscarded written with frame tag %d' % e[2])
      elif e[0] == 'wr' and e[1] == 'ping':
        if e[2] != 1:
          bad('ping-tag', i, 'Tping written on tag %d' % e[2])
      elif e[0] == 'drop':
        t, c = e[1], e[2]
        if c not in fired:
          bad('dropped-without-timeout', i, 'request of call %d left the queue unwritten although its deadline never fired' % c)
        if held.get(t) == c:        # never written: the tag is reusable
          del held[t]
          free.add(t)
      elif e[0] == 'deliver':
        delivered.append(e[1])
      elif e[0] == 'raise':
        if free or hi != bound:
          bad('request-refused', i, 'AsyncProcessRequest raised %r with %d released tags, high-water mark %d' % (e[2], len(free), hi))
      elif e[0] == 'closed':
        closed = True
        held = {}
      elif e[0] in ('error',):
        pass
      elif e[0] in ('enq', 'wr') and e[1] == 'bad':
        bad('undecodable-frame', i, 'frame %s' % e[2])
      else:
        bad('unexpected-event', i, repr(e))
    if k == 'recv':
      want = [answered] if answered is not None else []
      if delivered != want:
        bad('reply-misrouted', i, 'peer frame type %d tag %d: delivered to %s, holder of the tag: %s' % (op[1], op[2], delivered, want))
    elif delivered:
      bad('reply-misrouted', i, 'reply delivered to %s without a peer frame' % delivered)
  if case.get('long') and not case.get('start') and hi > case['long'] + 1:
    v.append(('long-run-high-water', 'steady traffic with at most %d unanswered requests used tags up to %d' % (case['long'], hi)))
  return v


def monitor(case, obs):
  k = case['kind']
  if k == 'pool':
    return _monitor_pool(case, obs)
  if k == 'fill':
    return _monitor_fill(case, obs)
  return _monitor_mux(case, obs)


# ---------------------------------------------------------------------------------------------
# translation to Coq terms
# ---------------------------------------------------------------------------------------------
KIND = {'req': 'KReq', 'discard': 'KDiscard', 'ping': 'KPing'}


def _event(e):
  if e[0] in ('enq', 'wr') and e[1] in KIND:
    return '%s %s %s %s' % ('EEnq' if e[0] == 'enq' else 'EWritten', KIND[e[1]], C.zlit(e[2]), C.zlit(e[3]))
  if e[0] == 'drop':
    return 'EDropped %s %s' % (C.zlit(e[1]), C.zlit(e[2]))
  if e[0] == 'deliver':
    return 'EDelivered %s' % C.zlit(e[1])
  if e[0] == 'error':
    if e[2] == 'Exception' and e[3] == 'Sink not open.':
      return 'EError %s 0%%Z' % C.zlit(e[1])
    if e[2] == 'ClientError':
      return 'EError %s 1%%Z' % C.zlit(e[1])
    return 'EBadPick'
  if e[0] == 'raise':
    return 'ERaise %s' % C.zlit(e[1]) if e[2] == 'No tags left in pool.' else 'EBadPick'
  if e[0] == 'closed':
    return 'EClosed'
  return 'EBadPick'        # anything the model has no event for can never match


def _label(op, evs):
  k = op[0]
  if k == 'req':
    pick = 0
    for e in evs:
      if e[0] == 'enq' and e[1] == 'req':
        pick = e[2]
    for e in evs:
      if e[0] == 'lease':          # what TagPool.get() returned (the wire tag above is the fallback)
        pick = e[1]
    return 'Req %s %s %s' % (C.zlit(op[1]), C.zlit(op[2]), C.zlit(pick))
  if k == 'send':
    return 'SendStep %s' % C.blit(op[1])
  if k == 'fire':
    return 'Fire %s' % C.zlit(op[1])
  if k == 'notify':
    return 'Notify %s' % C.zlit(op[1])
  if k == 'recv':
    return 'Recv %s %s' % (C.zlit(op[1]), C.zlit(op[2]))
  if k == 'junk':
    return 'RecvJunk'
  if k == 'ping':
    return 'Ping'
  if k == 'shutdown':
    return 'Shutdown'
  if k == 'reopen':
    return 'Reopen'
  raise ValueError(k)


MAX_COQ_OPS = 2500


def to_coq(case, obs):
  k = case['kind']
  if k == 'pool':
    ops = []
    exp = []
    for op, o in zip(case['ops'], obs['pool']):
      if op[0] == 'get':
        ops.append('PGet %s' % C.zlit(o[1] if o[0] == 'tag' else 0))
        exp.append('OTag %s' % C.zlit(o[1]) if o[0] == 'tag' else ('OExhausted' if o[1] == 'No tags left in pool.' else 'OBadPick'))
      else:
        ops.append('PRel %s' % C.zlit(op[1]))
        exp.append('OReleased %s' % C.blit(o[1] > 0) if o[1] in (0, 1) and o[2] == 'None' else 'OBadPick')
    return 'CPool %s %s %s' % (C.zlit(case['max']), C.lst(ops), C.lst(exp))
  if k == 'fill':
    if not obs['contiguous'] or case['max'] < 2:
      return None
    want_ref = obs['refused'] > 0
    if obs['refused'] not in (0, max(0, case['n'] - (case['max'] - 2))):
      return 'CFill %s %s (-1)%%Z true None' % (C.zlit(case['max']), C.zlit(case['n']))    # cannot match
    return 'CFill %s %s %s %s %s' % (C.zlit(case['max']), C.zlit(case['n']), C.zlit(1 if obs['last'] is None else obs['last']), C.blit(want_ref),
                                     C.opt(C.zlit(obs['after'])) if obs['after'] is not None else 'None')
  if len(case['ops']) > MAX_COQ_OPS:
    return None
  labels = [_label(op, evs) for op, evs in zip(case['ops'], obs['steps'])]
  exp = [C.lst([_event(e) for e in evs if e[0] not in ('lease', 'release')]) for evs in obs['steps']]
  cfg = '{| max_tag := %s; kafka := %s; base := %s |}' % (C.zlit(case.get('max') or REAL_MAX), C.blit(case['proto'] == 'kafka'),
                                                        C.zlit(case.get('start') or 1))
  return 'CMux %s %s %s' % (cfg, C.lst(labels), C.lst(exp))


# ---------------------------------------------------------------------------------------------
# evidence helpers
# ---------------------------------------------------------------------------------------------
def _branches(case, obs):
  """Which branches of the model a mux case went through (derived from ops + observed events)."""
  b = collections.Counter()
  if case['kind'] == 'pool':
    for op, o in zip(case['ops'], obs['pool']):
      if op[0] == 'get':
        b['pool.get:' + ('exhausted' if o[0] == 'exc' else 'tag')] += 1
      else:
        b['pool.release:' + ('again' if o[1] else 'new')] += 1
    return b
  if case['kind'] == 'fill':
    b['fill:' + ('refused' if obs['refused'] else 'room')] += 1
    return b
  st = case.get('start')
  if st:
    b['pool-fast-forwarded:' + ('below-2^16' if st < 65500 else 'around-2^16' if st <= 65600 else 'top-of-tag-space' if st >= 2 ** 24 - 64
                                else 'between')] += 1
  closed = False
  tagof = {}
  answered_unsent = set()
  answered = set()
  sent = set()
  subscribed = set()
  fired = set()
  pending = set()
  known = {}
  conn = 0
  for op, evs in zip(case['ops'], obs['steps']):
    k = op[0]
    names = [e[0] + (':' + e[1] if e[0] in ('enq', 'wr') else '') for e in evs]
    if k == 'req':
      if 'raise' in names:
        b['req:exhausted'] += 1
      elif 'error' in names:
        b['req:not-open'] += 1
      elif 'enq:req' in names:
        t = [e for e in evs if e[0] == 'enq'][0][2]
        b['req:dl%d:%s' % (min(op[2], 2), 'recycled' if t in tagof.values() else 'fresh')] += 1
        tagof[op[1]] = t
      else:
        b['req:not-new'] += 1
      if op[1] not in known:
        known[op[1]] = (conn, op[2])
        if op[2] >= 2:
          fired.add(op[1])
          pending.add(op[1])
    elif k == 'send':
      if not evs:
        b['send:idle'] += 1
      elif 'closed' in names:
        b['send:write-failed'] += 1
      elif 'drop' in names:
        c = [e for e in evs if e[0] == 'drop'][0][2]
        b['send:dropped-' + ('after-premature-reply' if c in answered else 'tag-released')] += 1
      else:
        for e in evs:
          if e[0] == 'wr':
            b['send:written-' + e[1]] += 1
            if e[1] == 'req':
              sent.add(e[3])
              if known.get(e[3], (0, 0))[1] == 1 and e[3] not in fired:
                subscribed.add(e[3])
                b['send:subscribed-timeout-handler'] += 1
              if e[3] in answered_unsent:
                b['send:written-after-premature-reply'] += 1
    elif k == 'fire':
      c = op[1]
      if c not in known or known[c][0] != conn:
        b['fire:not-applicable'] += 1
      elif known[c][1] == 0:
        b['fire:no-deadline'] += 1
      elif c in fired:
        b['fire:already-fired'] += 1
      else:
        fired.add(c)
        pending.add(c)
        b['fire:set'] += 1
    elif k == 'notify':
      c = op[1]
      if 'enq:discard' in names:
        b['notify:discard' + ('-after-close' if closed else '')] += 1
      elif c not in known or known[c][0] != conn or c not in pending:
        b['notify:not-applicable'] += 1
      elif c not in subscribed:
        b['notify:no-subscriber'] += 1
      elif c in answered:
        b['notify:subscriber-already-answered'] += 1
      elif case['proto'] == 'kafka':
        b['notify:kafka-no-discard'] += 1
      else:
        b['notify:other'] += 1
      pending.discard(c)
      subscribed.discard(c)
    elif k == 'recv':
      if 'deliver' in names:
        c = [e for e in evs if e[0] == 'deliver'][0][1]
        answered.add(c)
        b['recv:answers'] += 1
        if c not in sent:
          answered_unsent.add(c)
          b['recv:answers-unsent-request'] += 1
      elif closed:
        b['recv:closed'] += 1
      elif case['proto'] == 'thriftmux' and op[2] == 1 and op[1] == -65:
        b['recv:ping-reply'] += 1
      elif op[2] == 1:
        b['recv:tag1-non-ping'] += 1
      elif op[2] == 0:
        b['recv:tag0'] += 1
      else:
        b['recv:unknown-tag'] += 1
    elif k == 'shutdown':
      b['shutdown:' + ('noop' if not evs else 'with-%s-pending' % ('some' if 'error' in names else 'no'))] += 1
    elif k == 'reopen':
      b['reopen:' + ('done' if closed else 'noop')] += 1
    else:
      b[k] += 1
    if 'closed' in names:
      closed = True
    if k == 'reopen' and closed:
      closed = False
      conn += 1
  return b


def nontrivial(case, obs):
  if case['kind'] == 'pool':
    tags = [o[1] for o in obs['pool'] if o[0] == 'tag']
    return len(tags) > len(set(tags)) or any(o[0] == 'exc' for o in obs['pool'])
  if case['kind'] == 'fill':
    return True
  enq = [e[2] for evs in obs['steps'] for e in evs if e[0] == 'enq' and e[1] == 'req']
  wr = any(e[0] == 'wr' and e[1] == 'req' for evs in obs['steps'] for e in evs)
  return wr and (len(enq) > len(set(enq)) or any(e[0] == 'raise' for evs in obs['steps'] for e in evs))


def describe(case, obs):
  c = dict(case)
  o = obs
  if case['kind'] == 'mux' and len(case['ops']) > 60:
    c['ops'] = case['ops'][:60] + ['...%d more' % (len(case['ops']) - 60)]
    o = {'steps': obs['steps'][:60], 'handshakes': obs['handshakes'], 'pool_args': obs.get('pool_args')}
  if case['kind'] == 'pool' and len(case['ops']) > 60:
    c['ops'] = case['ops'][:60]
    o = {'pool': obs['pool'][:60]}
  return {'case': c, 'obs': o}


def stats(cases, obs):
  tot = collections.Counter()
  maxtag = 0
  ops = 0
  longs = []
  for c, o in zip(cases, obs):
    if not isinstance(o, dict) or 'harness_exc' in o:
      continue
    tot.update(_branches(c, o))
    if c['kind'] == 'mux':
      ops += len(c['ops'])
      if c.get('long'):
        longs.append({'requests': sum(1 for op in c['ops'] if op[0] == 'req'), 'max_unanswered': c['long'],
                      'highest_tag': max([e[2] for evs in o['steps'] for e in evs if e[0] == 'wr' and e[1] == 'req'] or [0])})
      for evs in o['steps']:
        for e in evs:
          if e[0] == 'wr' and e[1] == 'req':
            maxtag = max(maxtag, e[2])
    elif c['kind'] == 'pool':
      ops += len(c['ops'])
  return {'branch_distribution': dict(sorted(tot.items())), 'operations_executed': ops, 'highest_tag_written': maxtag,
          'long_runs': longs}
