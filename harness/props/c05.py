"""C05 - Balancer membership equals the server set after any join/leave history.

Shares the driver, the Coq model (coq/Model/Balancer.v) and the lock-step correspondence with C03
(harness/c03_balancer_driver.py).  The mock server-set provider blocks GetServers() until the 'init' operation,
so notifications can be delivered (serially, like a real provider) before and after the initial list is
installed.  Monitor: reference server set folded over the notifications; no channel may be created/closed
before Init; one node per member; requests only go to members; every history ends in (and some contain) a
saturating burst in which exactly the members of the reference set must receive traffic.
"""
from .. import common as C
from .. import c03_balancer_driver as D

PID = 'C05'
PROPS_FILE = 'Props/C05.v'
COQ_HEADER = 'From Scales Require Import Model.Heap Model.Balancer.'
COQ_CASE_TYPE = 'Balancer.case'
COQ_CHECK = 'Balancer.check_case'
COQ_EXPLAIN = 'Balancer.explain_case'
SHARD = 40
WORKERS = 6
RULE = ('audit additions: a second, independent balancer instance working in the same process (20%); channels that fail a request INLINE inside AsyncProcessRequest when closed (25%, recorded as Dispatch then Complete) with callers that retry from inside their failure handler (also on NoMembersError); callers whose handler raises a BaseException; channels whose Open() fails (every n-th, asynchronously reported) or raises synchronously during a join; the caller of a request failed inside Close() retrying from inside it; initial channel state Busy; (thorough) 2% histories of 600-1200 operations; real-aperture histories record hub continuations as steps of their own; in 35% of the model-compared histories the mock channels fail their in-flight requests synchronously inside Close() (as the real transports do: re-entrant completions during a leave; recorded as Leave, then one Complete per failed request) with the pattern: every channel drops, a request marks the members down, a member leaves while marked down and loaded; in 45% some leaves run with a Close() that RAISES (the removal hook of the balancer fails; the provider callback must raise and the member must still be gone) followed by re-joins of the same endpoint; 30% of the real-aperture histories with slow-opening channels; in 70% of the histories endpoints are objects compared by value and EVERY notification (and the initial list) carries a fresh, equal object; 25% run (monitor only) on a REAL ApertureBalancerSink (min_size 1-3 of 4-8 servers, fake clock), 70% of those with load-driven resizing: bursts expand the aperture, completions and a trickle of request/reply pairs contract it again, several rounds; these histories end with every member but one leaving and a dispatch that must reach the remaining member; oracles there: no request to a departed member, no NoMembersError while the server set is non-empty, active + idle endpoints partition the server set after every label (internal); completions whose caller raises or dispatches re-entrantly from its handler; in 40% of the histories the provider has endpoint_name=\'aux\' and members carry additional_endpoints={\'aux\': ep} different from service_endpoint, with join/leave notifications of members lacking that endpoint (must raise ValueError and change nothing; those steps are not labels of the model); 30% go through the real ClientTimeoutSink; seeded random histories over 1-12 endpoints (+ up to 3 spare): in half of them 1-5 join/leave notifications arrive before '
        'the initial list (which may contain duplicates or be empty) is installed; afterwards churn-heavy phases (joins of known and '
        'unknown endpoints, leaves of unknown, idle, loaded, marked-down members, re-joins) interleaved with traffic, channel flapping '
        'and saturating bursts; 15% on ApertureBalancerSink with all members active; exhaustive (thorough): every sequence of 5 '
        'notifications over 2 endpoints around Init; non-trivial = at least 3 requests dispatched; distinct by canonical JSON')
TRUSTED = ['mock members with a named additional endpoint', 'mock server-set provider (serial delivery, blocking GetServers) / mock channels / scripted random.shuffle of '
           'harness/c03_balancer_driver.py', 'reference server set and burst oracle of the monitor (analyse) in the same file']
ASSUMPTIONS = ['the provider delivers notifications serially (base.py relies on this; the real ZooKeeper provider is C19)',
               'traffic starts after Open() completed (requests issued earlier are queued by base.py: C01/C02)',
               'eligibility is observed under a saturating burst with all member channels open (least-loaded policy, C03)']

MANIFEST = {
    'text': ('Theorems C05_membership, C05_blocked_before_init, C05_deferred, C05_eligible hold for every label sequence of the Gallina '
             'transcription of LoadBalancerSink/HeapBalancerSink membership handling: the endpoints in the heap (one node each) are exactly '
             'the abstract server set folded over the notification history, notifications that arrive before the initial list is installed '
             'have no effect until then and are applied in order right after it; every member owns a node that a dispatch passes over only '
             'for a no-more-loaded open member; the transcription runs in lock step with the real class on every generated history.'),
    'note': ('Trusted: Coq kernel; harness/c03_balancer_driver.py (mock provider with serial delivery, label recording). The aperture '
             'balancer is covered only with every member active (idle set: C06).'),
    'technique': 'Coq proof (simulation of an abstract set by induction over all histories) + lock-step differential execution + reference-set / burst monitor',
    'design_ref': 'DESIGN.md section 5, C05',
}

setup = D.setup
run_impl = D.run_impl
to_coq = D.to_coq
monitor = D.monitor_for(PID)
nontrivial = D.nontrivial
describe = D.describe
stats = D.stats


def gen_cases(tier, seed):
  out = D.gen_cases(PID, tier, seed, 600, 5000)
  if tier == 'thorough':
    out += D.gen_membership_exhaustive(5)
  return out


def search_cases(tier, seed, diverging):
  return D.search_cases(PID, tier, seed, diverging)
