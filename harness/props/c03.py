"""C03 - Balancer sends each request to a least-loaded open member.

Implementation under test (imported from $SCALES_REPO as it is now): scales.loadbalancer.heap.HeapBalancerSink
(and ApertureBalancerSink with every member active) over mock channel sinks, a mock server-set provider and a
scripted `random` (harness/c03_balancer_driver.py).  Model: coq/Model/Heap.v + coq/Model/Balancer.v.
Monitor: reference counters per member (outstanding = dispatched - completed) and channel states set by the
harness; every dispatch must go to an open member with the fewest outstanding requests.
"""
from .. import common as C
from .. import c03_balancer_driver as D

PID = 'C03'
PROPS_FILE = 'Props/C03.v'
COQ_HEADER = 'From Scales Require Import Model.Heap Model.Balancer.'
COQ_CASE_TYPE = 'Balancer.case'
COQ_CHECK = 'Balancer.check_case'
COQ_EXPLAIN = 'Balancer.explain_case'
SHARD = 40
WORKERS = 6
RULE = ('audit additions: a second, independent balancer instance working in the same process (20%); channels that fail a request INLINE inside AsyncProcessRequest when closed (25%, recorded as Dispatch then Complete) with callers that retry from inside their failure handler (also on NoMembersError); callers whose handler raises a BaseException; channels whose Open() fails (every n-th, asynchronously reported) or raises synchronously during a join; the caller of a request failed inside Close() retrying from inside it; initial channel state Busy; (thorough) 2% histories of 600-1200 operations; real-aperture histories record hub continuations as steps of their own; 25% with channels whose Close() fails in-flight requests synchronously, 20% with leaves whose Close() raises; 30% of the real-aperture histories with slow-opening channels; 70% with fresh endpoint objects per notification; completions whose caller raises or dispatches re-entrantly from its handler; 25% of the histories run (monitor only, not sent to the Coq model) on a REAL ApertureBalancerSink: min_size 1-3 of 4-8 servers, idle servers outside the aperture, no jitter, fake clock, 30% with load-driven resizing - the aperture is loaded, the least-loaded member\'s channel is taken down and requests are dispatched (expansion on node-down), checked by the least-loaded oracle over the aperture members; 40% of the rest go through the real ClientTimeoutSink, 10% use a provider with endpoint_name; seeded random histories over 1-12 members (+ up to 3 spare endpoints): 20-200 relative operations drawn from phase '
        'profiles (load-up, drain-the-least-loaded-member-to-idle [the F3 pattern], channel flapping incl. faults, '
        'join/leave churn, steady), completion by reply/error/timeout/direct context call, second completions, random '
        'randint outcomes, initial channel state Open/Idle/Closed, 15% on ApertureBalancerSink with all members active; '
        'every history ends in a saturating burst; plus (thorough) every length-6 sequence over a 4-letter alphabet on 4 members; '
        'non-trivial = at least 3 requests were dispatched; distinct by canonical JSON of (case, observation)')
TRUSTED = ['for real-aperture cases the set of aperture members is read from the balancer\'s heap array (a contraction is not observable from outside)', 'mock channel sinks / server-set provider / scripted random of harness/c03_balancer_driver.py',
           'reference counters of the monitor (analyse) in the same file']
ASSUMPTIONS = ['channel state is constant during one dispatch (no yield inside __Get; the heap lock is held)',
               'fewer than 2^31-1 requests outstanding per member (the code encodes "marked down" as load >= 0)',
               'node.index equals the array position (maintained by Heap.Swap/_AddSink; checked on every step as a diagnostic)',
               'requests are dispatched only after Open() completed (earlier ones are queued by base.py: C01/C02)']

MANIFEST = {
    'text': ('Theorems C03_heap_inv, C03_least_loaded, C03_down_only_if_all_down, C03_no_members, C03_get_terminates hold for every '
             'label sequence (dispatch, completion in any order with any randint outcome, channel state changes, join/leave, '
             'any number of members) of the Gallina transcription of HeapBalancerSink (array heap with FixUp/FixDown exactly as '
             'in the code); the transcription is executed inside Coq in lock step with the real class on every generated history.'),
    'note': ('Trusted: Coq kernel; harness/c03_balancer_driver.py (mocks, label recording); node.index = array position; '
             'channel state constant during a dispatch; < 2^31-1 outstanding requests per member.'),
    'technique': 'Coq proof (heap-order invariant by induction over all histories) + lock-step differential execution + reference-counter monitor',
    'design_ref': 'DESIGN.md section 5, C03',
}

setup = D.setup
run_impl = D.run_impl
to_coq = D.to_coq
monitor = D.monitor_for(PID)
nontrivial = D.nontrivial
describe = D.describe
stats = D.stats


def gen_cases(tier, seed):
  out = D.gen_cases(PID, tier, seed, 600, 5000)
  if tier == 'thorough':
    out += D.gen_exhaustive(6, 4)
  return out


def search_cases(tier, seed, diverging):
  return D.search_cases(PID, tier, seed, diverging)
