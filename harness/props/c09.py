"""C09 - Failed endpoints fail fast and are used again once reachable.

Implementation under test: the full client stacks as shipped (scales.thrift.builder.Thrift: ... -> ApertureBalancerSink ->
ResurrectorSink -> WatermarkPoolSink -> SocketTransportSink; scales.thriftmux.builder.ThriftMux: ... -> ApertureBalancerSink
-> ResurrectorSink -> mux SocketTransportSink) running in the simulation world over endpoints that follow outage
schedules for virtual minutes (harness/c09_world.py).

Model: coq/Model/Resurrector.v (ResurrectorSink as a transition system).  Correspondence (trace-driven): for every
ResurrectorSink instance of every scenario the events at its two interfaces (calls from the balancer, fault
notifications, CreateSink/Open/Close/AsyncProcessRequest on the sink underneath, the instant Open().get() returns)
are replayed label by label through Resurrector.step inside Coq with the clock's binary64 addition: every label must
be enabled (in particular every retry must happen exactly at start + wait), the model's outputs must equal what the
instance called, the `state` property must agree, and the contract of the sink underneath (honest_open) is checked
against the connect results of the fake network.

Monitor: the property statement on what is externally observable (connect attempts, connection lifetimes, call
outcomes, requests reaching the scripted servers), using the tracing only to know which endpoint a call was routed
to and which connect belongs to which sink instance.
"""
import json
import logging
import os
import sys

from .. import common as C

PID = 'C09'
PROPS_FILE = 'Props/C09.v'
COQ_HEADER = 'From Scales Require Import Model.Base Model.Resurrector.'
COQ_CASE_TYPE = 'list case'
COQ_CHECK = '(forallb check_case)'
COQ_EXPLAIN = '(map explain_case)'
SHARD = 20
WORKERS = 8
RULE = ('seeded outage schedules over 1-5 virtual minutes (harness/props/c09.py gen_case): Thrift and ThriftMux stacks, 1-3 '
        'endpoints, each with 0-6 outages (unreachable at first connect; going down by connection reset / EOF / silently with a '
        'request in flight or idle; connects refused at once or timing out after 1-130 ticks; coming back one tick before / at / '
        'after a predicted retry or at a random time), background traffic every 16-128 ticks plus calls placed around every '
        'transition and predicted retry, replies in one or several segments, resurrector initial in {1,1.5,2,2.5,3,4,5,8} s and max '
        'in {1,4,4.25,4.5,8,60} s (initial <= max, incl. initial == max), exponent 1.2 (shipped) / 1.5 / 2 / 1, connect delays 0-3 '
        'ticks, pool options min 0-2 / max 1-3 / queue 0-5 in a third of the Thrift cases, clock origin 1024 s or just below 2^11, '
        '2^12, 2^13, 2^16 s; client close at a random time or on a retry tick in a quarter of the cases, in another ~fifth the caller '
        'of the first call that fails closes the client the moment it wakes up (between a fault and its delivery); callers that '
        'call again at once (1-3 times) when their call fails; an endpoint leaving the server set (often while down) and joining '
        'again, an endpoint joining later; same-tick ops in random order; down/up/close ops run as clock timers before (fifo) or '
        'after (lifo) the retry wake-up due in the same instant; both same-tick timer orders; one Coq case per ResurrectorSink '
        'instance; non-trivial = some instance went down; distinct by canonical JSON of (case, observation)')
TRUSTED = ['simulation world harness/vworld.py (virtual clock, fake gsocket), scripted peers harness/peers.py',
           'outage endpoints and interface tracing proxies in harness/c09_world.py (factory/sink/AsyncResult proxies between the '
           'ResurrectorSink and the sink it creates; class-level wrappers on ResurrectorSink methods)',
           'C03/heap balancer: a member whose channel reports Open again is un-penalised by the next dispatch (checked here on the '
           'implementation by the monitor rule fail-fast-while-an-endpoint-is-usable, proved for the balancer model in C03)']
ASSUMPTIONS = ['each ResurrectorSink is opened once, before any other use (wf_trace; true of the heap/aperture balancer)',
               'back-off hypotheses H1 (1 s <= w <= max -> w <= next w), H2 (next w <= max), 1 s <= initial <= max: proved for the real '
               'function min(w^1.2, max) (C09_Rpower_grows) and checked on the doubles that occur in every run (tab_ok); for a '
               'configured initial_wait_interval < 1 s the code\'s w ** 1.2 shrinks - the property does not quantify over configurations',
               'honest_open: an Open of the underlying sink succeeds only if the endpoint was reachable when the attempt started and '
               'succeeds if it was reachable throughout the attempt (checked on every simulated attempt against the fake network)',
               'the clock adds with rounding error at most eps (binary64: < 2^-40 s below 2^13 s) and time.time() is never 0.0',
               'recovery bound is max + eps + 2 * (duration of an Open); with instantaneous connects it is the configured maximum',
               'C09_close_stops is about the resurrector (no retry, Open or fault handling after Close, full strength); the pool and the '
               'serial transport below it are not part of the model: known finding connect-after-close/serial-transport-reopen (a request '
               'in flight when the pool is closed makes the serial transport re-open its socket when it times out) is reported by the '
               'monitor with its own signature, any other connect after close is an unlisted violation']
MANIFEST = {
    'text': ('Theorems over every label sequence of the ResurrectorSink model (any faults, requests, retry outcomes, clock advances, '
             'Close, in any order): while down every request is answered FailedFastError in the same step and nothing is forwarded; '
             'the sleeps of an outage are w0, next w0, ... non-decreasing and <= max under H1/H2; if the endpoint is reachable from '
             'some instant on and the underlying Open is honest, a retry succeeds within max (+ clock rounding + Open durations); '
             'after Close no retry, Open or fault handling is enabled (known finding: in the Thrift stack the serial transport of a '
             'request in flight at close re-opens its socket once when the request times out).  The model is replayed inside Coq against every '
             'ResurrectorSink instance of full Thrift and ThriftMux client runs over generated outage schedules in virtual time.'),
    'note': ('Trusted: Coq kernel; simulation world, scripted peers, tracing proxies; gevent.  The balancer step (member used again at '
             'its next dispatch) is assumed from C03 and checked on the implementation by the monitor.  C09_Rpower_grows uses the '
             'standard axioms of Coq\'s classical reals; all other theorems are closed under the global context.'),
    'technique': 'Coq invariants over a timed transition system + trace-driven replay of real full-stack executions in virtual time',
    'design_ref': 'DESIGN.md section 5, C09',
}

TICK_UNITS = 1 << 46      # one tick (1/64 s) in units of 2**-52 s
_S = {}


def setup():
  if _S:
    return
  logging.disable(logging.CRITICAL)
  if C.REPO not in sys.path:
    sys.path.insert(0, C.REPO)
  import scales
  assert scales.__file__.startswith(C.REPO), scales.__file__
  from harness import c09_world, vworld
  vworld.install()
  c09_world.install_hooks()
  _S['world'] = c09_world


# ---------------------------------------------------------------------------------------------
# generator
# ---------------------------------------------------------------------------------------------
RS_COMBOS = [(1, 4), (1, 8), (1, 60), (2, 4), (2, 8), (2, 60), (5, 8), (5, 60), (2, 4), (2, 8), (5, 8),
             (4, 4), (8, 8), (1, 1), (1.5, 4.5), (2.5, 8), (3, 60), (2, 4.25)]     # incl. initial == max, non-integers


def waits(initial, mx, exponent, n=40):
  """The code's back-off sequence, evaluated exactly as resurrector.py does."""
  out = []
  w = initial
  for _ in range(n):
    out.append(w)
    w **= exponent
    w = min(w, mx)
  return out


def gen_case(r, idx=0, stack=None):
  stack = stack or r.choice(['thrift', 'mux'])
  n_ep = r.choice([1, 1, 1, 2, 2, 3])
  initial, mx = r.choice(RS_COMBOS)
  exponent = r.choice([1.2, 1.2, 1.2, 1.2, 1.2, 1.2, 1.5, 2, 2, 1])
  minutes = r.choice([1, 1, 2, 3, 5])
  horizon = 64 * 60 * minutes
  cfg = {'stack': stack, 'tie': r.choice(['fifo', 'lifo']), 'timeout': r.choice([32, 64, 128]), 'seed': r.randrange(1 << 30),
         'resolution': r.choice([1, 1, 4]), 'resurrector': {'initial': initial, 'max': mx, 'exponent': exponent},
         'endpoints': [], 'horizon': horizon}
  if r.random() < 0.3:
    # start times just below a power of two: the clock's rounding (ulp) changes during the run
    cfg['t0'] = float(r.choice([2040, 4090, 8185, 65530]))
  if stack == 'thrift' and r.random() < 0.35:
    cfg['pool'] = {'min': r.choice([0, 1, 1, 2]), 'max': r.choice([1, 2, 3, 2 ** 31 - 1]), 'maxq': r.choice([0, 1, 5, 2 ** 31 - 1])}
  ws = waits(initial, mx, exponent)
  period = r.choice([16, 32, 64, 128])
  period = max(period, horizon // 110)
  ops = []
  hot = []          # ticks around which extra calls are placed
  slow_success = [] # ticks at which a retry's Open is predicted to be in progress (connect delay)
  for k in range(n_ep):
    ep = {'port': 9001 + k, 'init': 'up', 'reply_delay': r.choice([0, 0, 0, 1, 3]), 'connect_delay': r.choice([0, 0, 0, 0, 1, 3])}
    if stack == 'thrift' and r.random() < 0.2:
      ep['chunks'] = [r.choice([1, 2, 3, 4, 7]) for _ in range(r.choice([1, 3, 8]))]     # replies arrive in several segments
    t = 0
    n_out = r.choice([0, 1, 1, 2, 3]) if n_ep > 1 else r.choice([1, 1, 2, 3, 6])
    for j in range(n_out):
      hole = r.choice([1, 8, 40, 130]) if r.random() < 0.25 else 0     # connects time out instead of being refused
      if j == 0 and r.random() < 0.3:
        ep['init'] = 'down'
        if hole:
          ep['init_hole'] = hole
        start = 0
      else:
        start = t + r.choice([20, 100, 300, 1000, r.randrange(20, max(21, horizon // 2))])
        if start >= horizon - 64:
          break
        ops.append({'at': start, 'op': 'down', 'port': ep['port'], 'mode': r.choice(['reset', 'reset', 'close', 'silent'])})
        if hole:
          ops[-1]['hole'] = hole
      hot.append(start)
      # the client notices at about `start` (mux) or at its next call (thrift); predicted retries from there
      disc = start if stack == 'mux' or start == 0 else start + r.randrange(0, period + 1)
      kfail = r.choice([0, 1, 1, 2, 3, 4, 6, 9])
      acc = disc * 1.0
      for w in ws[:kfail + 1]:
        acc += w * 64
        hot.append(int(acc))
        acc += hole
      y = r.random()
      if y < 0.6:
        up = int(acc) + r.choice([-1, 0, 1, 1, 2])
      elif y < 0.85:
        up = start + r.randrange(1, max(2, int(acc) - start + 200))
      else:
        up = horizon + 1       # stays down
      up = max(up, start + 1)
      if up < horizon:
        ops.append({'at': up, 'op': 'up', 'port': ep['port']})
        hot.append(up)
        # the first predicted retry after it is back (the one that succeeds)
        a = disc * 1.0
        for w in ws:
          a += w * 64
          if a >= up:
            break
          a += hole
        hot.append(int(a))
        if ep['connect_delay']:
          slow_success.append(int(a) + 1)
      t = max(up, start) + 10
      if t >= horizon:
        break
    cfg['endpoints'].append(ep)
  call_ticks = set(range(16 + r.randrange(period), horizon - 8, period))
  for h in hot:
    for d in r.sample([-2, -1, 0, 1, 2, 3, 8], r.choice([1, 2, 3])):
      if 8 <= h + d < horizon - 8:
        call_ticks.add(h + d)
  if r.random() < 0.15:
    # a burst (concurrency in the pool / several calls failing fast in one tick)
    b = r.randrange(8, horizon - 8)
    for d in (0, 0, 0, 1):
      call_ticks.add(b + d)
    ops.append({'at': b, 'op': 'call', 'id': 'b0'})
    ops.append({'at': b, 'op': 'call', 'id': 'b1'})
  call_ticks = sorted(call_ticks)
  if len(call_ticks) > 170:
    keep = set(r.sample(call_ticks, 170))
    call_ticks = [t for t in call_ticks if t in keep]
  for i, t in enumerate(call_ticks):
    ops.append({'at': t, 'op': 'call', 'id': 'c%d' % i})
  if r.random() < 0.25:
    if slow_success and r.random() < 0.5:
      at = r.choice(slow_success)
    else:
      at = r.choice(hot) + r.choice([-1, 0, 0, 1]) if hot and r.random() < 0.6 else r.randrange(8, horizon)
    ops.append({'at': max(8, min(at, horizon - 1)), 'op': 'close'})
  elif r.random() < 0.3:
    # an application that closes the client the moment a call fails: every call from some tick on (often the start of
    # an outage) is made by a caller that reacts to an error by closing - the close then lands between a fault being
    # raised by the transport and its delivery to the pool / resurrector (notifications travel in their own greenlets)
    downs = [e['at'] for e in ops if e['op'] == 'down']
    t_from = r.choice(downs) if downs and r.random() < 0.7 else r.randrange(8, horizon)
    for e in ops:
      if e['op'] == 'call' and e['at'] >= t_from:
        e['close_on_error'] = True
  if r.random() < 0.25:
    # callers that call again at once when their call fails (up to 3 times in a row), from inside the wake-up of the failure
    for e in ops:
      if e['op'] == 'call' and r.random() < 0.3:
        e['redispatch'] = r.choice([1, 1, 2, 3])
  if r.random() < 0.2:
    # server-set changes: an endpoint leaves (often while it is down) and may join again later (same endpoint, new sink);
    # an endpoint that is not a member at first joins later
    ep = r.choice(cfg['endpoints'])
    if n_ep > 1 and r.random() < 0.3:
      ep['member'] = False
      ops.append({'at': r.randrange(8, horizon), 'op': 'join', 'port': ep['port']})
    else:
      at = (r.choice(hot) + r.choice([-1, 0, 1, 5, 70])) if hot and r.random() < 0.7 else r.randrange(8, horizon)
      at = max(8, min(at, horizon - 2))
      ops.append({'at': at, 'op': 'leave', 'port': ep['port']})
      if r.random() < 0.7:
        ops.append({'at': min(horizon - 1, at + r.choice([0, 1, 30, 300, 2000])), 'op': 'join', 'port': ep['port']})
  for e in ops:
    if e['op'] in ('down', 'up', 'close') and r.random() < 0.3:
      # run as a timer of the virtual clock: before (tie fifo) / after (lifo) the client's own timers of that instant
      e['timer'] = True
  # same-tick ops in a random order (but an endpoint's down before its up, a join after its leave)
  for e in ops:
    e['_k'] = r.random()
  ops.sort(key=lambda e: (e['at'], {'down': 0, 'leave': 0, 'up': 1, 'join': 1}.get(e['op'], e['_k'])))
  for e in ops:
    del e['_k']
  cl = [e['at'] for e in ops if e['op'] == 'close']
  if cl:
    # a handful of calls after the close are enough
    late = [e for e in ops if e['op'] == 'call' and e['at'] > cl[0]]
    drop = set(id(e) for e in late[4:])
    ops = [e for e in ops if id(e) not in drop]
  return {'kind': '%s/%dep' % (stack, n_ep), 'config': cfg, 'ops': ops}


def gen_cases(tier, seed):
  n = 150 if tier == 'quick' else 3000
  out = []
  for i in range(n):
    r = C.case_rng(seed, PID, i)
    out.append(gen_case(r, i, stack=['thrift', 'mux'][i % 2]))
  return out


def search_cases(tier, seed, diverging):
  out = []
  for i in range(600):
    r = C.case_rng(seed + 7919, PID, i)
    out.append(gen_case(r, i, stack=['thrift', 'mux'][i % 2]))
  return out


# ---------------------------------------------------------------------------------------------
# implementation run
# ---------------------------------------------------------------------------------------------
def _run_here(case):
  tr = _S['world'].run(case)
  return {'log': tr['log'], 'calls': tr['calls'], 'servers': tr['servers'], 'crashes': tr['crashes'], 'now': tr['now'],
          'closed_at': tr.get('closed_at'), 'built_at': tr.get('built_at')}


def run_impl(case):
  """Every scenario runs in a forked child of a process that never runs scenarios itself: greenlets, timers and garbage
  left behind by one scenario (a whole client with its loops) cannot act in the world of the next one, and a replay of a
  single case sees exactly what the case saw inside a batch."""
  setup()
  if os.environ.get('C09_NOFORK'):
    return _run_here(case)
  r, w = os.pipe()
  pid = os.fork()
  if pid == 0:
    code = 0
    try:
      os.close(r)
      try:
        import gevent
        gevent.reinit()
      except Exception:
        pass
      try:
        data = json.dumps(_run_here(case))
      except BaseException as e:
        import traceback
        data = json.dumps({'harness_exc': '%s: %s' % (type(e).__name__, e), 'tb': traceback.format_exc()[-1500:]})
      with os.fdopen(w, 'wb') as f:
        f.write(data.encode())
    except BaseException:
      code = 1
    finally:
      os._exit(code)
  os.close(w)
  chunks = []
  while True:
    b = os.read(r, 1 << 20)
    if not b:
      break
    chunks.append(b)
  os.close(r)
  os.waitpid(pid, 0)
  if not chunks:
    return {'harness_exc': 'scenario process died without a result'}
  return json.loads(b''.join(chunks).decode())


# ---------------------------------------------------------------------------------------------
# monitor: the property statement on the implementation's behaviour
# ---------------------------------------------------------------------------------------------
def _connect_of_open(log, oi, port, t):
  """The connect made on behalf of the Open logged at position oi (time t): (position at which its outcome is known,
  outcome) or None.  A connect that is refused or succeeds is logged at once; one that times out ('connect-begin') is
  logged by the fake network when it ends, carrying the time at which it began."""
  for j in range(oi + 1, len(log)):
    f = log[j]
    if f[0] == t and f[3:4] == [port]:
      if f[2] == 'connect':
        return j, f[4] == 'True'
      if f[2] == 'connect-begin':
        for k in range(j + 1, len(log)):
          g = log[k]
          if g[2] == 'connect' and g[3] == port and g[0] == t:
            return k, g[4] == 'True'
        return j, False          # still waiting for the connect to time out at the end of the run: an attempt all the same
    if f[2] in ('u-open', 'rs-close', 'client-close', 'horizon') and f[0] > t:
      # (nothing of this Open can start later than the instant it was called in)
      return None
  return None


def _odur(cfg, ops, port):
  """ticks an Open of this endpoint's sink may take: the connect delay, or the time a blackholed connect takes to time out"""
  d = 0
  for ep in cfg['endpoints']:
    if ep['port'] == port:
      d = max(ep.get('connect_delay', 0), ep.get('init_hole', 0))
  for e in ops:
    if e.get('op') == 'down' and e.get('port') == port:
      d = max(d, e.get('hole', 0))
  return d


class _Inst(object):
  def __init__(self, iid, port, idx, t):
    self.iid, self.port, self.new_idx, self.new_t = iid, port, idx, t
    self.close_idx = None
    self.cur_sid = 0        # the sink most recently created by this instance
    self.sid_closed = {}    # sid -> idx at which the instance closed that sink
    self.connects = []      # (idx, ticks, ok, sid): connect attempts, attributed to the sink they were made for
    self.open_at = []       # (idx of the connect, idx of the u-open it belongs to)
    self.opens = []         # (idx of the connect, ticks, ok, sid, idx at which Open().get() returned ok or None)
    self.estab = {}         # cid -> idx
    self.conn_sid = {}      # cid -> sid
    self.closed = {}        # cid -> idx
    self.killed = {}        # cid -> idx   (the peer reset / closed / went silent on it)
    self.episodes = []      # outages as the client can know them, see _episodes

  def stale(self, sid, idx):
    """The sink had already been closed (dropped) by the instance at log position idx: whatever a transport of it still
    does (e.g. the serial transport's re-open after a request in flight timed out) is not the endpoint's current connection."""
    return sid == -1 or (sid in self.sid_closed and self.sid_closed[sid] < idx)


def _timeline(obs, stack='mux'):
  """Per resurrector instance: its connect attempts, connections and their ends, from the ordered log."""
  log = obs['log']
  insts, by_port = {}, {}
  client_close = None
  get_ok = {}
  slow_reopen = {}
  reopens = set()
  begins = {}
  begin_sid = {}
  begin_of = {}      # position of a late-logged (timed out) connect -> position at which that attempt began
  for idx, e in enumerate(log):
    if e[2] == 'u-open-get' and e[5] == 'ok':
      get_ok[(e[3], e[4])] = idx
  for idx, e in enumerate(log):
    t, k = e[0], e[2]
    if k == 'rs-new':
      it = _Inst(e[3], e[4], idx, t)
      insts[e[3]] = it
      by_port[e[4]] = it
    elif k == 'rs-close':
      if e[3] in insts and insts[e[3]].close_idx is None:
        insts[e[3]].close_idx = idx
    elif k == 'client-close':
      client_close = idx
    elif k == 'u-create':
      if e[3] in insts:
        insts[e[3]].cur_sid = e[4]
    elif k == 'u-close':
      if e[3] in insts:
        insts[e[3]].sid_closed.setdefault(e[4], idx)
    elif k == 'u-open':
      it = insts.get(e[3])
      if it is not None:
        c = _connect_of_open(log, idx, it.port, t)
        if c is not None:
          it.opens.append((c[0], t, c[1], e[4], get_ok.get((e[3], e[4]))))
          it.open_at.append((c[0], idx))
    elif k == 'connect-begin':
      begins.setdefault((e[3], t), []).append(idx)
      jt0 = by_port.get(e[3])
      begin_sid[idx] = (jt0, jt0.cur_sid) if jt0 is not None else None
      prev = log[idx - 1] if idx else None
      if prev is not None and prev[2] == 'close' and prev[3] == e[3] and prev[0] == t:
        slow_reopen[(e[3], t)] = prev[4] if prev[4] is not None else -1
    elif k in ('connect', 'established', 'close', 'peer-reset', 'peer-close', 'peer-silent'):
      it = by_port.get(e[3])
      if it is None:
        continue
      if k == 'connect':
        sid = it.cur_sid
        if begins.get((e[3], t)):
          begin_of[idx] = begins[(e[3], t)].pop(0)
          if begin_sid.get(begin_of[idx]):
            it, sid = begin_sid[begin_of[idx]]      # the sink that was current when the attempt began
        prev = log[idx - 1] if idx else None
        pc = None
        if prev is not None and prev[2] == 'close' and prev[3] == e[3] and prev[0] == t:
          pc = prev[4] if prev[4] is not None else -1
        elif (e[3], t) in slow_reopen:
          pc = slow_reopen[(e[3], t)]
        if pc == -1:
          # re-opened by a transport whose socket had never been connected (its own Open had failed, which was reported
          # then): not a sign of anything new about the endpoint's current connection
          reopens.add(idx)
          sid = -1
        elif pc is not None:
          # a transport re-opening its own socket (serial transport after a timeout): belongs to that connection's sink
          reopens.add(idx)
          for jt in insts.values():
            if jt.port == e[3] and pc in jt.conn_sid:
              it, sid = jt, jt.conn_sid[pc]
        it.connects.append((idx, t, e[4] == 'True', sid))
      elif k == 'established':
        it.estab[e[4]] = idx
        cs = [c for c in it.connects if c[2]]
        it.conn_sid[e[4]] = cs[-1][3] if cs else it.cur_sid
      elif k == 'close':
        if e[4] is not None:
          # the connection may belong to an earlier instance on the same port
          for jt in insts.values():
            if jt.port == e[3] and e[4] in jt.estab and e[4] not in jt.closed:
              jt.closed[e[4]] = idx
      else:
        for jt in insts.values():
          if jt.port == e[3] and e[4] in jt.estab and e[4] not in jt.killed:
            jt.killed[e[4]] = idx
  # connects that were still waiting to time out when the run (or their greenlet) ended
  unfinished = [(b, port) for ((port, _t), bs) in begins.items() for b in bs]
  for it in insts.values():
    it.reopens = reopens
    it.begin_of = begin_of
    it.unfinished = unfinished
    it.stack = stack
    _episodes(it, log)
  return insts, client_close


def _episodes(it, log):
  """Outages of one instance as far as the client can know: an outage starts with the first sign of failure on the
  instance's current sink - a refused connect, or the client dropping a connection the peer had killed without replacing
  it in the same instant - and ends when the first *retry* (Open of a fresh sink by the resurrector) has succeeded."""
  ev = []
  for (i, t, ok, sid) in it.connects:
    if not ok and not it.stale(sid, i):
      ev.append((i, 'F', t))
  for cid, i in it.closed.items():
    sid = it.conn_sid.get(cid)
    if cid in it.killed and it.killed[cid] < i and not it.stale(sid, i):
      t = log[i][0]
      end_i = i
      while end_i + 1 < len(log) and log[end_i + 1][0] == t and (end_i + 1) not in it.begin_of:
        # (an entry of a connect that timed out is appended when it ends but stamped with its start: it is not part of this instant)
        end_i += 1
      # ... and by the end of that instant holds no other connection for this sink (dropping one pooled connection
      # after use while another one stays is ordinary pool shrinking, whatever the peer did to it unnoticed)
      held = [c for c, j in it.estab.items() if j <= end_i and it.conn_sid.get(c) == sid and not (c in it.closed and it.closed[c] <= end_i)]
      # ... unless a caller was handed a connection error right then (the request that was using the connection)
      told = False
      benign = False       # dropped right after the request using it got its reply (a pool that keeps no idle connection)
      first = True
      for e in log[i + 1:end_i + 1]:
        if e[2] in ('send', 'peer-tx'):
          continue
        if e[2] != 'call-done':      # the completions the close was part of come right behind it
          break
        # (errors that say nothing about the connection: refusals of the pool / of a transport that is busy)
        if e[4] not in ('value', 'TimeoutError', 'FailedFastError', 'ChannelConcurrencyError', 'MaxWaitersError', 'ServiceClosedError'):
          told = True
        if first:
          benign = e[4] == 'value'
          first = False
      # (a connection that is still being set up - connect begun, not yet refused / timed out / established - counts as held)
      begun = [b for (k, b) in it.begin_of.items() if b <= end_i < k and log[k][3] == it.port] + \
              [b for (b, port) in it.unfinished if b <= end_i and port == it.port]
      n_ok = sum(1 for (j, _t, ok, sd) in it.connects if j <= end_i and ok and sd == sid)
      n_est = sum(1 for c, j in it.estab.items() if j <= end_i and it.conn_sid.get(c) == sid)
      if begun or n_ok > n_est:
        held = held or ['pending']
      # ThriftMux: the transport's receive loop notices a dead connection by itself; Thrift (pool of serial transports):
      # an idle connection that is dropped tells nothing (pool shrinking, min 0, Open-then-release) - the client notices
      # only through a request that fails on it (told) or a re-open that fails (a failed connect, above)
      noticed = told or (it.stack == 'mux' and not held and not benign)
      if noticed and not any(j > i and tt == t and ok and sd == sid for (j, tt, ok, sd) in it.connects):
        ev.append((i, 'F', t))
  for (i, t, ok, sid, gi) in it.opens:
    if sid >= 2:
      # a successful retry ends the outage when its Open has completed (connection established, handshake done);
      # if that never happens (sink closed meanwhile) it only counts as an attempt
      ev.append((i, 'R-', t) if not ok or gi is None else (gi, 'R+', t))
  # a failed retry is both: process the retry first
  ev.sort(key=lambda x: (x[0], 0 if x[1][0] == 'R' else 1))
  cur = None
  for (i, what, t) in ev:
    # when the attempt was over: a connect that timed out is logged when it ends (stamped with its start), the next
    # entry carries that time
    end = log[i + 1][0] if (i in it.begin_of and i + 1 < len(log)) else t
    if cur is None:
      if what == 'F':
        cur = {'start_idx': i, 'marks': [t], 'ends': [max(end, t)], 'end_idx': None, 'known_at': max(end, t)}
        it.episodes.append(cur)
    else:
      if what == 'F' and len(cur['marks']) == 1:
        # further signs of the same failure before the first retry (e.g. the serial transport's own re-open after a
        # timeout failing a little later): the outage is known to the client by one of them
        cur.setdefault('start_ends', [cur['ends'][0]]).append(max(end, t))
      if what[0] == 'R':
        cur['marks'].append(t)
        cur['ends'].append(max(end, t))
        if what == 'R+':
          cur['end_idx'] = i
          cur = None


def _in_episode(it, idx):
  for ep in it.episodes:
    if ep['start_idx'] < idx and (ep['end_idx'] is None or ep['end_idx'] > idx):
      return ep
  return None


def _live(it, idx):
  return [c for c, i in it.estab.items() if i < idx and not (c in it.closed and it.closed[c] < idx) and not it.stale(it.conn_sid.get(c), idx)]


def _healthy(it, idx):
  """Not in an outage, the latest connect attempt for the current sink succeeded, its connection is established and still
  held, and the peer has not killed any held connection."""
  if _in_episode(it, idx):
    return False
  cs = [(i, o) for (i, _t, o, sid) in it.connects if i < idx and not it.stale(sid, idx)]
  if not cs or not cs[-1][1]:
    return False
  lv = _live(it, idx)
  if sum(1 for (i, o) in cs if o) > sum(1 for c, i in it.estab.items() if i < idx and not it.stale(it.conn_sid.get(c), idx)):
    return False      # a connection is still being established
  return bool(lv) and not any(c in it.killed and it.killed[c] < idx for c in lv)


def _maybe_noticed(it, idx):
  ends = [ep['end_idx'] for ep in it.episodes if ep['end_idx'] is not None and ep['end_idx'] < idx]
  since = max(ends) if ends else -1
  return any(c in it.killed and it.killed[c] < ci and since < ci < idx for c, ci in it.closed.items())


def monitor(case, obs):
  v = []
  cfg = case['config']
  rs = cfg['resurrector']
  w0, wmax, expo = float(rs['initial']), float(rs['max']), rs.get('exponent', 1.2)
  log = obs['log']
  insts, client_close = _timeline(obs, cfg['stack'])
  end_idx = len(log)
  end_t = obs['now']
  cc_t = log[client_close][0] if client_close is not None else None
  served = {}
  for port, s in obs['servers'].items():
    for rq in s['requests']:
      served.setdefault(rq['id'], []).append(int(port))
  done_idx = {}
  route = {}
  for idx, e in enumerate(log):
    if e[2] == 'call-done':
      done_idx.setdefault(e[3], idx)
    elif e[2] == 'rs-req':
      route.setdefault(e[4], []).append((idx, e[3]))

  leaves = [(idx, e[3]) for idx, e in enumerate(log) if e[2] == 'ss-leave']

  def member(it, idx):
    """the instance's endpoint has not left the server set (its sink may be closed only later, when its last request is done)"""
    return not any(it.new_idx < li < idx and p == it.port for (li, p) in leaves)

  def alive(it, idx):
    return it.new_idx < idx and (it.close_idx is None or it.close_idx > idx) and (client_close is None or client_close > idx)

  for cid, c in obs['calls'].items():
    if c.get('issue_error'):
      continue
    done = c['done']
    kind = done[0]['kind'] if done else None
    if kind == 'FailedFastError':
      if done[0]['at'] != c['issued']:
        v.append(('fail-fast-delayed', 'call %s issued at tick %s failed fast only at tick %s' % (cid, c['issued'], done[0]['at'])))
      if cid in served:
        v.append(('fail-fast-but-sent', 'call %s failed fast but reached endpoint(s) %s' % (cid, served[cid])))
    for (ridx, iid) in route.get(cid, []):
      it = insts.get(iid)
      if it is None or not alive(it, ridx):
        continue
      didx = done_idx.get(cid, end_idx)
      ep = _in_episode(it, ridx)
      if ep is not None and not (log[ridx][0] > ep['known_at'] or any(
          e[2] == 'rs-fault' and e[3] == it.iid for e in log[ep['start_idx']:ridx])):
        # routed in the very instant in which the failure became detectable and before the fault notification (it
        # travels transport -> pool -> resurrector in greenlets of its own) has reached the endpoint's sink: nothing is
        # 'down' yet for the client; whatever the call gets, it gets at once.  From the next tick on, or as soon as the
        # sink has been notified, the rule applies.
        ep = None
        if kind == 'FailedFastError':
          continue
      if ep is not None:
        # (1) fail fast while the connection is down
        if kind != 'FailedFastError':
          v.append(('not-failed-fast', 'call %s was routed at tick %s to endpoint %d, whose connection is down since tick %s (reconnection '
                    'attempts so far at %s), and got %s at %s instead of FailedFastError at once' % (
                        cid, log[ridx][0], it.port, ep['marks'][0], [m for m in ep['marks'][1:] if m <= log[ridx][0]][-4:], kind,
                        done[0]['at'] if done else 'no completion')))
        elif cid in served:
          pass      # reported above
      elif kind == 'FailedFastError' and _maybe_noticed(it, ridx):
        # a connection the peer had killed was dropped by the client since the last successful (re)connect, by a path the
        # rules above do not count as noticing it for sure (e.g. the request using it had already timed out): no verdict
        pass
      elif kind == 'FailedFastError':
        # (3) used again once reachable: no fail-fast from an endpoint the client is connected to ...
        v.append(('fail-fast-while-connected', 'call %s failed fast at tick %s on endpoint %d although no connection failure has been seen '
                  'since its last successful (re)connect (connect attempts so far: %s)' % (
                      cid, c['issued'], it.port, [(t, o) for (i, t, o, _s) in it.connects if i < ridx][-4:])))
      if kind == 'FailedFastError':
        # ... nor beside one (the balancer un-penalises a member whose sink reports Open again)
        for jt in insts.values():
          if jt is not it and alive(jt, ridx) and member(jt, ridx) and _healthy(jt, ridx) and _settled(log, jt, ridx):
            v.append(('fail-fast-while-an-endpoint-is-usable', 'call %s failed fast at tick %s on endpoint %d although endpoint %d had '
                      'been (re)connected and was usable' % (cid, c['issued'], it.port, jt.port)))
            break
      # served again: a call routed to a healthy instance whose endpoint stays up gets its reply from that endpoint
      if _healthy(it, ridx) and not _disturbed(log, it.port, ridx, didx) and done and (client_close is None or client_close > didx):
        refused = kind in ('MaxWaitersError', 'ServiceClosedError') and 'pool' in cfg      # a bounded pool may refuse
        if not refused and (kind != 'value' or it.port not in served.get(cid, [])):
          v.append(('healthy-endpoint-not-served', 'call %s routed at tick %s to endpoint %d (connected, reachable) ended as %s, served by %s' % (
              cid, log[ridx][0], it.port, kind, served.get(cid))))

  # (2) retry spacing and (3) liveness of the retry loop, per instance and outage
  tick = 1.0
  delays = dict((ep['port'], ep.get('connect_delay', 0)) for ep in cfg['endpoints'])
  holes = dict((ep['port'], _odur(cfg, case['ops'], ep['port'])) for ep in cfg['endpoints'])
  for it in insts.values():
    odur = delays.get(it.port, 0)     # a gap between attempts = the sleep + the time the failed attempt took
    ep_end = it.close_idx if it.close_idx is not None else end_idx
    if client_close is not None:
      ep_end = min(ep_end, client_close)
    end_time = log[ep_end][0] if ep_end < end_idx else end_t
    for ep in it.episodes:
      if ep['start_idx'] >= ep_end:
        continue
      marks = [m for m in ep['marks'] if m <= end_time]
      ends = list(ep['ends'][:len(marks)])
      if len(marks) > 1 and ep.get('start_ends'):
        # the first delay is counted from the sign of failure that fits the initial interval best
        ends[0] = min(ep['start_ends'], key=lambda x: abs(marks[1] - x - w0 * 64))
      # the delays: from the end of one attempt (or the start of the outage) to the start of the next
      gaps = [marks[k + 1] - ends[k] for k in range(len(marks) - 1)]
      for k, g in enumerate(gaps):
        gs = g / 64.0
        if gs > wmax + (tick + odur) / 64.0:
          v.append(('retry-gap-above-max', 'endpoint %d: %.4f s between the end of the reconnection attempt at tick %s and the next one at tick %s exceeds max %.1f s' % (
              it.port, gs, marks[k], marks[k + 1], wmax)))
        if gs < w0 - tick / 64.0:
          v.append(('retry-faster-than-initial', 'endpoint %d: only %.4f s between ticks %s and %s (initial interval %.1f s)' % (
              it.port, gs, ends[k], marks[k + 1], w0)))
        if k > 0:
          if g < gaps[k - 1] - tick - odur:
            v.append(('retry-gap-shrinks', 'endpoint %d: successive retry delays %.4f s then %.4f s (attempts at %s)' % (
                it.port, gaps[k - 1] / 64.0, gs, marks[max(0, k - 1):k + 2])))
          elif w0 > 1 and expo > 1 and g < gaps[k - 1] + tick - odur and gs < wmax - tick / 64.0 and w0 < wmax:
            v.append(('retry-gap-not-growing', 'endpoint %d: successive retry delays %.4f s then %.4f s below max %.1f s (attempts at %s)' % (
                it.port, gaps[k - 1] / 64.0, gs, wmax, marks[max(0, k - 1):k + 2])))
      # liveness: after the start of the outage and after every failed attempt the next attempt comes within max
      still_down = ep['end_idx'] is None or ep['end_idx'] >= ep_end
      if still_down and marks and end_time > marks[-1] + wmax * 64 + tick + holes.get(it.port, 0):
        v.append(('no-retry-within-max', 'endpoint %d: down since tick %s, last reconnection attempt at tick %s, none until tick %s '
                  '(max interval %.1f s = %d ticks, client not closed)' % (it.port, marks[0], marks[-1], end_time, wmax, wmax * 64)))

  # (4) nothing after close
  all_reopens = set()
  for it in insts.values():
    all_reopens |= it.reopens

  began = {}
  for it in insts.values():
    began = it.begin_of

  def reopen(idx):
    """the serial transport re-opening its own socket: 'close <conn>' immediately followed by the connect"""
    return idx in all_reopens
  if client_close is not None:
    cur = {}
    for idx in range(end_idx):
      e = log[idx]
      if e[2] == 'rs-new':
        cur[e[4]] = insts.get(e[3])
      if e[2] == 'connect' and began.get(idx, idx) > client_close:
        it = cur.get(e[3])
        if reopen(idx):
          sig = 'connect-after-close/serial-transport-reopen'
          why = 'by a serial transport re-opening its socket after a timeout'
        elif it is not None and it.close_idx is None:
          # the retry loop of a ResurrectorSink whose Close() was never called when the client was closed
          sig = 'connect-after-close/sink-not-closed'
          why = 'by the retry loop of the endpoint\'s ResurrectorSink, which was never closed (sinks closed at client close: %s)' % (
              sorted(jt.port for jt in insts.values() if jt.close_idx is not None and jt.close_idx > client_close))
        elif it is not None and any(j == idx and uo < client_close and log[uo][0] == log[client_close][0] for (j, uo) in it.open_at):
          # the connect of an Open() that had been issued before the close, in the same instant, but whose work (a
          # greenlet of the pool) only started after Close() returned
          sig = 'connect-after-close/open-issued-before-close'
          why = ('by an Open() of the endpoint\'s sink that was issued before the close in the same instant and carried out '
                 'after it (the connection it makes is never closed)')
        else:
          sig = 'connect-after-close'
          why = 'although the endpoint\'s sink had been closed'
        v.append((sig, 'connect attempt to endpoint %s at tick %s after the client was closed at tick %s, %s' % (e[3], e[0], cc_t, why)))
  for it in insts.values():
    if it.close_idx is not None:
      newer = any(jt.port == it.port and jt.new_idx > it.close_idx for jt in insts.values())
      if not newer:
        for (i, t, _o, _s) in it.connects:
          if began.get(i, i) > it.close_idx and (client_close is None or i < client_close):
            v.append(('connect-after-close/serial-transport-reopen' if reopen(i) else 'connect-after-close',
                      'endpoint %d: its sink was closed at tick %s, connect attempt at tick %s' % (it.port, log[it.close_idx][0], t)))
  for cr in obs['crashes']:
    if 'resurrector' in cr.get('where', ''):
      v.append(('resurrector-greenlet-crash', '%s: %s at %s' % (cr['type'], cr['value'], cr['where'][-200:])))
  # deduplicate by signature (keep the first message of each)
  seen, out = set(), []
  for s, m in v:
    if s not in seen:
      seen.add(s)
      out.append((s, m))
  return out


def _disturbed(log, port, a, b):
  """Did the endpoint go down (or a connection of it get killed) between log positions a and b?"""
  for e in log[a:b + 1]:
    if e[2] in ('ep-down', 'peer-reset', 'peer-close', 'peer-silent') and e[3] == port:
      return True
  return False


def _settled(log, it, idx):
  """The instance's last successful connect happened in an earlier tick than log position idx (so that its Open has
  completed and the balancer could see it Open before this dispatch)."""
  cs = [t for (i, t, o, _s) in it.connects if i < idx and o]
  return bool(cs) and cs[-1] < log[idx][0]


# ---------------------------------------------------------------------------------------------
# correspondence: one Coq case per ResurrectorSink instance
# ---------------------------------------------------------------------------------------------
ST = {'Closed': 0, 'Idle': 1}


def instance_steps(case, obs):
  """iid -> (port, t0 units, [step dicts]) from the ordered log."""
  log = obs['log']
  calls = obs['calls']
  insts = {}
  for idx, e in enumerate(log):
    k = e[2]
    if k == 'rs-new':
      insts[e[3]] = {'port': e[4], 't0': e[1], 'now': e[1], 'steps': [], 'open_idx': {}}
      continue
    if not (k.startswith('rs-') or k.startswith('u-')):
      continue
    I = insts.get(e[3])
    if I is None:
      continue
    steps = I['steps']

    def label(name, I=I, e=e, steps=steps):
      if e[1] > I['now']:
        steps.append({'l': 'LTick', 't': e[1], 'outs': [], 'st': None, 'conn': None})
        I['now'] = e[1]
      steps.append({'l': name, 'outs': [], 'st': None, 'conn': None, 'idx': idx})
    if k == 'rs-open':
      label('LOpen')
    elif k == 'rs-req':
      label('LReq')
      steps[-1]['cid'] = e[4]
    elif k == 'rs-fault':
      label('LFault')
    elif k == 'rs-close':
      label('LClose')
    elif k == 'rs-state':
      if steps:
        steps[-1]['st'] = ST.get(e[4], 2)
    elif k == 'u-create':
      if steps and steps[-1]['l'] == 'LOpen' and not steps[-1]['outs']:
        steps[-1]['outs'].append(('OCreate', e[4]))
      else:
        label('LWake')
        steps[-1]['outs'].append(('OCreate', e[4]))
    elif k == 'u-open':
      if steps:
        steps[-1]['outs'].append(('OOpenUnder', e[4]))
        steps[-1]['open_idx'] = idx
        I['open_idx'][e[4]] = (idx, e[0])
    elif k == 'u-close':
      if steps:
        steps[-1]['outs'].append(('OCloseUnder', e[4]))
    elif k == 'u-req':
      if steps and steps[-1]['l'] == 'LReq' and steps[-1].get('cid') == e[5]:
        steps[-1]['outs'].append(('OForward', e[4]))
      elif steps:
        steps[-1]['outs'].append(('OForward', -1))
    elif k == 'u-open-get':
      if e[5] == 'killed':
        continue
      label('LOpenDone true' if e[5] == 'ok' else 'LOpenDone false')
      steps[-1]['sid'] = e[4]
  # second pass: fail-fast outputs and connect outcomes
  for I in insts.values():
    port = I['port']
    for s in I['steps']:
      if s['l'] == 'LReq' and not s['outs']:
        c = calls.get(s.get('cid'))
        if c and c['done'] and c['done'][0]['kind'] == 'FailedFastError' and c['done'][0]['at'] == c['issued']:
          s['outs'].append(('OFailFast', None))
      sid = None
      if s['l'] == 'LOpen':
        sid = next((o[1] for o in s['outs'] if o[0] == 'OOpenUnder'), None)
      elif s['l'].startswith('LOpenDone'):
        sid = s.get('sid')
      if sid is not None and sid in I['open_idx']:
        oi, ot = I['open_idx'][sid]
        c = _connect_of_open(log, oi, port, ot)
        started = None if c is None else c[1]
        if s['l'] == 'LOpen':
          s['conn'] = started
        elif not started:
          s['conn'] = False        # unreachable at the start of the attempt (or no connect at all)
        else:
          # reachable at the start; throughout the attempt?
          interrupted = any(e[2] == 'ep-down' and e[3] == port for e in log[oi:s['idx'] + 1])
          s['conn'] = None if interrupted else True
  return insts


def _out_term(o):
  return 'OFailFast' if o[0] == 'OFailFast' else '(%s %s)' % (o[0], C.zlit(o[1]))


def _step_term(s):
  l = s['l']
  if l == 'LTick':
    q, r = divmod(s['t'], TICK_UNITS)
    return '(sK %s)' % C.zlit(q) if r == 0 else '(sT %s)' % C.zlit(s['t'])
  if l == 'LReq' and s['st'] is None and s['conn'] is None and len(s['outs']) == 1:
    o = s['outs'][0]
    if o[0] == 'OFailFast':
      return 'sX'
    if o[0] == 'OForward':
      return '(sF %s)' % C.zlit(o[1])
  if l.startswith('LOpenDone'):
    l = '(%s)' % l
  return '(sG %s %s %s %s)' % (
      l, C.lst([_out_term(o) for o in s['outs']]),
      'None' if s['st'] is None else '(Some %s)' % C.zlit(s['st']),
      'None' if s['conn'] is None else '(Some %s)' % C.blit(s['conn']))


def backoff_table(rs):
  W = _S['world']
  ws = waits(rs['initial'], rs['max'], rs.get('exponent', 1.2), 64)
  tab, seen = [], set()
  for a, b in zip(ws, ws[1:]):
    ua, ub = W.units(a), W.units(b)
    if ua in seen:
      continue
    seen.add(ua)
    tab.append((ua, ub))
  return tab


def to_coq(case, obs):
  setup()
  W = _S['world']
  cfg = case['config']
  rs = cfg['resurrector']
  insts = instance_steps(case, obs)
  tab = C.lst(['(%s, %s)' % (C.zlit(a), C.zlit(b)) for a, b in backoff_table(rs)])
  by_port = {ep['port']: ep for ep in cfg['endpoints']}
  terms = []
  for iid in sorted(insts):
    I = insts[iid]
    odur = _odur(cfg, case['ops'], I['port']) * TICK_UNITS
    if odur:
      odur += 1 << 17      # the end of a timed-out connect is a rounded sum on the double clock (ulp <= 2^-36 s below 2^17 s)
    terms.append('{| c_one := %s; c_w0 := %s; c_wmax := %s; c_odur := %s; c_t0 := %s; c_tab := %s; c_steps := %s |}' % (
        C.zlit(W.UNIT), C.zlit(W.units(rs['initial'])), C.zlit(W.units(rs['max'])), C.zlit(odur), C.zlit(I['t0']), tab,
        C.lst([_step_term(s) for s in I['steps']])))
  return C.lst(terms)


def nontrivial(case, obs):
  return any(e[2] == 'rs-fault' for e in obs['log'])


def describe(case, obs):
  keep = ('rs-new', 'rs-fault', 'rs-close', 'u-create', 'u-open-get', 'connect', 'ep-down', 'ep-up', 'client-close')
  return {'config': case['config'], 'n_ops': len(case['ops']),
          'events': [[round(e[0], 2)] + e[2:] for e in obs['log'] if e[2] in keep][:60],
          'outcomes': _outcomes(obs)}


def _outcomes(obs):
  kinds = {}
  for c in obs['calls'].values():
    k = c['done'][0]['kind'] if c['done'] else ('issue-error' if c.get('issue_error') else 'pending-at-horizon')
    kinds[k] = kinds.get(k, 0) + 1
  return kinds


def stats(cases, obs):
  """Distribution of model branches exercised (a small shadow of the model's control state, for counting only)."""
  br = {}
  kinds = {}
  n_inst = 0
  crashes = {}

  def hit(k):
    br[k] = br.get(k, 0) + 1
  for c, o in zip(cases, obs):
    if not isinstance(o, dict) or 'log' not in o:
      continue
    for k, n in _outcomes(o).items():
      kinds[k] = kinds.get(k, 0) + n
    for cr in o['crashes']:
      crashes[cr['type']] = crashes.get(cr['type'], 0) + 1
    for I in instance_steps(c, o).values():
      n_inst += 1
      has_next, down, pc, closed = False, False, 'none', False
      for s in I['steps']:
        l = s['l']
        if l == 'LOpen':
          hit('LOpen/create' if not has_next else 'LOpen/existing-sink')
          has_next = True
          hit('LOpen/connect-%s' % s['conn'])
        elif l == 'LFault':
          hit('LFault/first(up->down)' if not down else 'LFault/while-down')
          if not down:
            down, has_next, pc = True, False, 'sleep'
        elif l == 'LReq':
          if has_next:
            hit('LReq/forward' + ('-after-close' if closed else ''))
          else:
            hit('LReq/fail-fast-' + ('down-sleeping' if pc == 'sleep' else 'down-opening' if pc == 'open' else 'after-close' if closed else 'never-opened'))
        elif l == 'LWake':
          hit('LWake')
          pc = 'open'
        elif l == 'LOpenDone true':
          hit('LOpenDone/ok')
          has_next, down, pc = True, False, 'none'
        elif l == 'LOpenDone false':
          hit('LOpenDone/failed')
          pc = 'sleep'
        elif l == 'LClose':
          hit('LClose/' + ('up' if has_next and not down else 'down-sleeping' if pc == 'sleep' else 'down-opening' if pc == 'open' else 'idle'))
          down, pc, closed = False, 'none', True
        elif l == 'LTick':
          hit('LTick/' + ('sleeping' if pc == 'sleep' else 'opening' if pc == 'open' else 'no-greenlet'))
  feats = {}

  def feat(k, on=True):
    if on:
      feats[k] = feats.get(k, 0) + 1
  for c in cases:
    if not isinstance(c, dict) or 'config' not in c:
      continue
    cfg, ops = c['config'], c['ops']
    rs = cfg['resurrector']
    feat('blackholed-connects', any(e.get('hole') for e in ops) or any(ep.get('init_hole') for ep in cfg['endpoints']))
    feat('caller-closes-on-error', any(e.get('close_on_error') for e in ops))
    feat('caller-redispatches-on-error', any(e.get('redispatch') for e in ops))
    feat('leave/join', any(e['op'] in ('leave', 'join') for e in ops))
    feat('ops-as-clock-timers', any(e.get('timer') for e in ops))
    feat('pool-options', 'pool' in cfg)
    feat('pool-min-0', cfg.get('pool', {}).get('min') == 0)
    feat('clock-origin-near-power-of-two', 't0' in cfg)
    feat('initial==max', rs['initial'] == rs['max'])
    feat('exponent-1', rs.get('exponent') == 1)
    feat('non-integer-intervals', rs['initial'] != int(rs['initial']) or rs['max'] != int(rs['max']))
    feat('chunked-replies', any(ep.get('chunks') for ep in cfg['endpoints']))
    feat('>=4-outages-of-one-endpoint', any(sum(1 for e in ops if e['op'] == 'down' and e['port'] == ep['port']) >= 4 for ep in cfg['endpoints']))
    feat('timed-client-close', any(e['op'] == 'close' for e in ops))
  return {'resurrector_instances': n_inst, 'model_branches': br, 'generator_features(cases)': feats, 'call_outcomes': kinds, 'greenlet_crash_types': crashes,
          'branches_never_reachable': ['LOpen/existing-sink (excluded by wf_trace)', 'LFault/while-down (proved dead: down_no_fault)']}
