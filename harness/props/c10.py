"""C10 - Timer queue runs each action once, never early, in deadline order.

Implementation under test: the real scales.timer_queue.TimerQueue (Schedule, the cancel closure, the
_TimerWorker greenlet) imported from $SCALES_REPO, constructed with time_source = a virtual clock.  The
names gevent / Event / time inside scales.timer_queue are replaced by the proxies of
harness/c10_vclock.py, so every blocking point of the worker hands control back to the driver below,
which chooses the interleaving: Schedule / cancel calls (also from inside running actions), clock
advances, one worker segment at a time (resumed by the event or by the time-out), one action at a time.
The executed label sequence and the implementation's state after every label are replayed through
`TimerQueue.step` inside Coq (correspondence); `monitor` checks the property statement itself on the
log of calls, spawns and runs, without any reference to the model.

Time unit: 1 tick = 1/256 s; resolutions 4, 64, 256 ticks (1/64, 1/4, 1 s) and 0 (= no rounding, as in
test_timer_queue.py), so every float operation of the code on times is exact.
"""
import sys
from fractions import Fraction

from .. import common as C
from .. import c10_vclock as V

PID = 'C10'
PROPS_FILE = 'Props/C10.v'
COQ_HEADER = 'From Scales Require Import Model.TimerQueue.\nImport TimerQueue.Short.'
COQ_CASE_TYPE = 'TimerQueue.case'
COQ_CHECK = 'TimerQueue.check_case'
COQ_EXPLAIN = 'TimerQueue.explain_case'
SHARD = 400
WORKERS = 1
U = 256.0            # ticks per second
RES = [4, 64, 256, 0]

RULE = ('kind=trace: seeded random op sequences (<= 40 ops) over Schedule (deadline in the past / equal to now / on and off '
        'the resolution grid / equal to or rounding to an existing deadline / earlier than the current head / far; passed as '
        'float or int), cancel (head, pending, exactly at the rounded deadline before and after the worker took the entry, '
        'already fired or dropped, twice, not yet scheduled = skipped), Schedule(None) (rejected), clock advances (1 tick, to / '
        'just before / just after the next deadline), single worker segments resumed by the event or by the time-out (both '
        'when both are possible), single action runs, settle; actions call back into the queue from inside their run '
        '(Schedule nested up to depth 3, cancel others, cancel themselves), raise Exception / a BaseException (gevent.Timeout '
        'subclass) after running, are the very same callable object as an earlier instance (aliasing) or distinct callables '
        'that are == and hash alike; 40% of the cases create a SECOND TimerQueue in the same process with its own history '
        '(monitored too); kind=eager: the same with the worker and actions run to quiescence after every op; kind=long: 150 '
        'ops on one long-lived queue; kind=exh: every sequence of length <= 5 (quick 4) over 8 ops at resolution 4 '
        '(duplicates of an executed label sequence are not re-sent to the model); kind=real: random op sequences on the REAL '
        'gevent hub/Event/spawn with only time virtual (half of them with a second queue on the same hub), checked by the '
        'monitor alone; kind=scen: hand-written scenarios (new earliest deadline during sleep(0), burst during sleep(0), '
        'set()/time-out coincidence in both orders, cancel of head while waiting, cancel exactly at the deadline before / '
        'after the pop, raising actions, same callable thrice, equal callables, self-cancel, idle/busy cycles, same-tick ties '
        'in both registration orders); resolutions 1/64, 1/4, 1 s, 0 and None, occasionally 1/256 s and 256 s; clock starting at '
        '0, small values, just below 2^31 s and just above 2^32 s.  Ops that are not enabled are skipped. non-trivial = at '
        'least one worker segment and one Schedule executed; distinct by canonical JSON of (case, observation)')
TRUSTED = ['harness/c10_vclock.py: deterministic stand-in for gevent Event / sleep / spawn (set wakes the waiter, wait(timeout) '
           'returns True iff woken by set, sleep(0) yields, spawned greenlets start in FIFO order)',
           'independent Python monitor in harness/props/c10.py']
ASSUMPTIONS = ['gevent Event semantics as provided by harness/c10_vclock.py (DESIGN.md section 5, C10 assumptions)',
               'times are multiples of 1/256 s and resolutions are dyadic, so float arithmetic on times is exact (DESIGN 4.2); '
               'for the default resolution 0.01 ceil(d/0.01)*0.01 can be below d by one ulp, which is outside the model',
               "the queue's time_source is the clock on which Event.wait time-outs elapse and never goes backwards; it is constant "
               "within one atomic worker segment (DESIGN 4.1)",
               'cancel() is guaranteed effective only before the worker takes the entry off the queue (C10_cancel_before_take); a '
               'cancel arriving at or after the rounded deadline may find the action already handed to its greenlet, which then '
               'still runs - allowed by the property, pinned by the lock-step replay, not flagged by the monitor']

MANIFEST = {
    'text': ('Theorems C10_once, C10_never_early, C10_cancel, C10_cancel_before_take, C10_cancel_frame, C10_worker_safe, C10_no_lost_wakeup, C10_order, '
             'C10_terminates and the summary C10_fire_spec hold for every resolution r >= 0 and every sequence of Schedule / '
             'cancel / clock-advance / worker-segment / action-run labels from the initial state of the Gallina small-step '
             'transcription of TimerQueue (one label = one atomic segment between gevent yield points); the transcription is '
             'replayed label by label against the real TimerQueue under a virtual clock and a deterministic scheduler on '
             '~2.2k (quick) / ~27k (thorough) traces per run, comparing queue snapshot, event flag, worker position, '
             'resumability, spawned FIFO and run log; 250 / 3000 further runs on the real gevent hub are checked by the '
             'independent monitor (once, never early, cancelled never runs, order, nothing due left at quiescence).'),
    'note': ('Trusted: Coq kernel; harness/c10_vclock.py as a model of gevent Event/sleep/spawn; sampling of interleavings by the '
             'harness. Float rounding for non-dyadic resolutions (default 0.01) is outside the model. All theorems closed under '
             'the global context.'),
    'technique': 'Coq proof (inductive invariant over a small-step model of the worker loop) + trace-driven differential execution model vs code + independent monitor',
    'design_ref': 'DESIGN.md section 5, C10',
}

_S = {}


def setup():
  if _S:
    return
  if C.REPO not in sys.path:
    sys.path.insert(0, C.REPO)
  import scales
  assert scales.__file__.startswith(C.REPO), scales.__file__
  import scales.timer_queue as tqm
  # the module-level queues created at import time are not under test: their (never started) workers must not
  # run on the hub used by the 'real' cases
  for name in ('GLOBAL_TIMER_QUEUE', 'LOW_RESOLUTION_TIMER_QUEUE'):
    try:
      getattr(tqm, name)._worker.kill(block=False)
    except Exception:
      pass
  V.install(tqm)
  _S['tqm'] = tqm
  import logging

  class _Count(logging.Handler):
    def emit(self, record):
      _S['critical'] = _S.get('critical', 0) + 1
  tqm.LOG.addHandler(_Count())
  tqm.LOG.propagate = False
  import atexit
  # at interpreter shutdown TimerQueue.__del__ would call kill() on greenlets that are being finalised (stderr noise only)
  atexit.register(lambda: setattr(tqm.TimerQueue, '__del__', lambda self: None))


# ---------------------------------------------------------------------------------------------
# generators
# ---------------------------------------------------------------------------------------------
def _ceil(d, r):
  return d if r == 0 else -((-d) // r) * r


def _gen_body(rng, now, rr, nsched, depth=0):
  """What an action does when it runs: it calls back into the queue (Schedule again, also re-entrantly nested,
  cancel others, cancel ITSELF)."""
  body = []
  for _ in range(rng.choice([1, 1, 2])):
    x = rng.random()
    if x < 0.6:
      op = {'op': 'sched', 'd': now + rng.choice([-rr, 0, 1, rr, 2 * rr, rng.randrange(0, 4 * rr)])}
      if depth < 2 and rng.random() < 0.3:
        op['body'] = _gen_body(rng, max(now, op['d']), rr, nsched, depth + 1)
      body.append(op)
    elif x < 0.8:
      body.append({'op': 'cancel', 'k': rng.randrange(1, nsched + 3)})
    else:
      body.append({'op': 'cancel', 'k': 'self'})
  return body


def gen_trace(rng, r, n, t0=0):
  rr = r or 8
  now = t0
  ops = []
  dls = []
  nsched = 0
  for _ in range(n):
    x = rng.random()
    if x < 0.30:
      mode = rng.choice(['past', 'now', 'grid', 'off', 'tie', 'tie_round', 'before', 'far', 'off'])
      if mode == 'past':
        d = now - rng.randrange(1, 3 * rr)
      elif mode == 'now':
        d = now
      elif mode == 'grid':
        d = _ceil(now, rr) + rr * rng.randrange(0, 4)
      elif mode == 'off':
        d = now + rng.randrange(1, 4 * rr)
      elif mode == 'tie':
        d = rng.choice(dls) if dls else now + rr
      elif mode == 'tie_round':
        d = (_ceil(rng.choice(dls), rr) if dls else _ceil(now, rr) + rr) - rng.randrange(0, rr)
      elif mode == 'before':
        fut = [x_ for x_ in dls if x_ > now]
        d = (min(fut) if fut else now + 2 * rr) - rng.randrange(1, 2 * rr)
      else:
        d = now + rng.randrange(4 * rr, 12 * rr)
      op = {'op': 'sched', 'd': d}
      if rng.random() < 0.12:
        op['body'] = _gen_body(rng, max(now, d), rr, nsched)
      y = rng.random()
      if y < 0.08 and nsched:
        op['alias'] = rng.randrange(1, nsched + 1)       # the very same callable object as an earlier instance
      elif y < 0.16:
        op['eq'] = True                                  # a distinct callable that is == and hashes like the others
      if rng.random() < 0.08:
        op['raise'] = rng.choice(['exc', 'base'])        # the action raises (Exception / BaseException) after running
      if d % 256 == 0 and rng.random() < 0.5:
        op['int'] = True                                 # deadline passed as an int
      ops.append(op)
      dls.append(d)
      nsched += 1
    elif x < 0.41:
      ops.append({'op': 'cancel', 'k': rng.randrange(1, nsched + 2)})
    elif x < 0.42:
      ops.append({'op': 'sched_none', 'd': now})
    elif x < 0.62:
      fut = [_ceil(x_, r) for x_ in dls if _ceil(x_, r) > now]
      nxt = (min(fut) - now) if fut else rr
      dt = rng.choice([1, rng.randrange(1, rr + 1), rr, 2 * rr, nxt, max(1, nxt - 1), nxt + 1, 0])
      ops.append({'op': 'tick', 'dt': dt})
      now += dt
    elif x < 0.87:
      ops.append({'op': 'worker', 'by': rng.choice(['a', 'a', 'e', 't']), 'pref': rng.choice(['e', 't'])})
    elif x < 0.97:
      ops.append({'op': 'run'})
    else:
      ops.append({'op': 'settle', 'pref': rng.choice(['e', 't'])})
  if rng.random() < 0.6:
    ops.append({'op': 'tick', 'dt': rng.choice([rr, 4 * rr, 16 * rr])})
    ops.append({'op': 'settle', 'pref': rng.choice(['e', 't'])})
  return ops


EXH_OPS = [{'op': 'sched', 'd': 3}, {'op': 'sched', 'd': 4}, {'op': 'sched', 'd': 8}, {'op': 'cancel', 'k': 1},
           {'op': 'tick', 'dt': 4}, {'op': 'worker', 'by': 'e'}, {'op': 'worker', 'by': 't'}, {'op': 'run'}]


def _exh(depth):
  out = []

  def rec(prefix, nsch):
    if prefix:
      out.append({'kind': 'exh', 'r': 4, 'ops': [dict(o) for o in prefix]})
    if len(prefix) == depth:
      return
    for o in EXH_OPS:
      # syntactic pruning of ops that cannot be enabled
      if o['op'] == 'cancel' and nsch == 0:
        continue
      if o['op'] == 'run' and nsch == 0:
        continue
      rec(prefix + [o], nsch + (1 if o['op'] == 'sched' else 0))
  rec([], 0)
  # keep only maximal sequences (every prefix is replayed anyway as part of its extensions)
  return [c for c in out if len(c['ops']) == depth]


def scenarios():
  W = lambda by: {'op': 'worker', 'by': by}
  S = lambda d, **kw: dict({'op': 'sched', 'd': d}, **kw)
  T = lambda dt: {'op': 'tick', 'dt': dt}
  Cn = lambda k: {'op': 'cancel', 'k': k}
  R = {'op': 'run'}
  ST = {'op': 'settle', 'pref': 'e'}
  out = []
  for r in RES:
    g = r or 8
    sc = {
        # new earliest deadline arrives while the worker is in sleep(0)
        'new-head-during-sleep0': [S(10 * g), W('t'), W('e'), S(2 * g), W('t'), W('t'), T(2 * g), W('t'), R, T(8 * g), ST],
        # burst while the worker sleeps
        'burst-during-sleep0': [S(5 * g), W('t'), W('e'), S(4 * g), S(3 * g), S(3 * g), S(6 * g), Cn(3), W('t'), W('t'), T(6 * g), ST],
        # set() and time-out coincide: woken by the time-out although the flag is set (pops the NEW head)
        'timeout-wins-with-flag-set': [S(4 * g), W('t'), W('e'), W('t'), S(2 * g), T(4 * g), W('t'), R, ST],
        # ... and woken by the event although the time-out has elapsed
        'event-wins-after-expiry': [S(4 * g), W('t'), W('e'), W('t'), S(2 * g), T(4 * g), W('e'), W('t'), R, ST],
        # cancel of the head while the worker waits for it, then time-out
        'cancel-head-while-waiting': [S(2 * g), S(3 * g), W('t'), W('e'), W('t'), Cn(1), T(2 * g), W('t'), T(g), ST],
        # cancel after it fired / after it was spawned but before it ran / twice
        'cancel-late': [S(g), W('t'), W('e'), W('t'), T(g), W('t'), Cn(1), R, Cn(1), ST],
        # same-tick ties, both registration orders, and ties created by rounding
        'ties': [S(3 * g), S(3 * g), S(3 * g - (g - 1)), S(2 * g + 1), T(3 * g), ST],
        'ties-reversed': [S(2 * g + 1), S(3 * g - (g - 1)), S(3 * g), S(3 * g), T(3 * g), ST],
        # deadlines in the past and equal to now, scheduled before the worker ever ran and while it idles
        'past-deadlines': [T(5 * g), S(g), S(5 * g), S(-3), ST, W('t'), S(2 * g), ST, S(5 * g), W('e'), W('t'), R],
        # action that re-schedules itself (LowResolutionTime style) and cancels another
        'reschedule-from-action': [S(g, body=[S(2 * g, body=[S(3 * g)]), Cn(3)]), S(4 * g), T(g), ST, T(g), ST, T(g), ST, T(g), ST],
        # everything cancelled while the worker is in sleep(0): queue must not be popped empty under it
        'all-cancelled-during-sleep0': [S(g), W('t'), W('e'), Cn(1), W('t'), S(g), Cn(2), ST, T(g), ST],
        # cancel arriving exactly AT the rounded deadline: before the worker has popped the entry (never runs) ...
        'cancel-at-deadline-before-pop': [S(2 * g), S(2 * g), W('t'), W('e'), W('t'), T(2 * g), Cn(1), W('t'), R, ST],
        'cancel-at-deadline-in-sleep0': [T(g), S(g), S(g), W('t'), Cn(2), W('t'), R, ST],
        # ... and after the worker handed it to its own greenlet (still runs), then after it ran
        'cancel-at-deadline-after-pop': [S(2 * g), S(2 * g), W('t'), W('e'), W('t'), T(2 * g), W('t'), Cn(1), Cn(2), R, R, Cn(1), ST],
        # actions that raise (Exception and BaseException) between others that are due at the same time
        'raising-actions': [S(2 * g, **{'raise': 'exc'}), S(2 * g), S(2 * g, **{'raise': 'base'}), S(2 * g), S(g, **{'raise': 'exc'}),
                            T(2 * g), ST, S(0), ST],
        # the very same callable object scheduled three times (one of the instances cancelled)
        'same-callable-thrice': [S(3 * g), S(2 * g, alias=1), S(3 * g, alias=1), S(4 * g, alias=1), Cn(3), T(2 * g), ST, T(g), ST, T(g), ST],
        # equal-but-not-identical callables, ties, one cancelled
        'equal-callables': [S(2 * g, eq=True), S(2 * g, eq=True), S(g, eq=True), Cn(2), T(g), ST, T(g), ST],
        # an action that cancels itself while running and re-schedules; nested re-entrancy
        'self-cancel-reschedule': [S(g, body=[Cn('self'), S(2 * g, body=[Cn('self'), S(2 * g, body=[Cn(1)])])]), T(g), ST, T(g), ST, T(g), ST],
        # one long-lived queue going idle and busy again many times; int deadlines; None action rejected
        'idle-busy-cycles': [x for i in range(1, 7) for x in (S(256 * i, int=True), {'op': 'sched_none', 'd': 0}, S(256 * i + 1),
                                                             T(128), ST, Cn(2 * i), T(128), ST)],
    }
    for name, ops in sc.items():
      out.append({'kind': 'scen', 'name': name, 'r': r, 'ops': ops})
      out.append({'kind': 'scen', 'name': name + '/eager', 'r': r, 'eager': 'e', 'ops': ops})
      if r == 0:
        out.append({'kind': 'scen', 'name': name + '/resolution-None', 'r': 0, 'res_none': True, 'ops': ops})
      if r == 4:   # the same history with a second queue in the process replaying it half a step behind
        out.append({'kind': 'scen', 'name': name + '/two-queues', 'r': r, 'ops': ops,
                    'decoy': [o for o in ops if o['op'] in ('sched', 'cancel', 'tick')]})
  return out


def gen_cases(tier, seed):
  quick = tier == 'quick'
  out = scenarios()
  n = 900 if quick else 20000
  for i in range(n):
    rng = C.case_rng(seed, PID, i)
    # resolutions: 1/64, 1/4, 1 s, none; sometimes the smallest (1 tick) and a large one (256 s)
    r = RES[i % 4] if i % 7 else rng.choice(RES + [1, 65536])
    # start of the clock: 0, small, and just below 2^31 s / just above 2^32 s (still exact in a double)
    t0 = rng.choice([0, 0, r or 8, 1000, 262144 + 3, 2 ** 39 - 3, 2 ** 40 + 5])
    k = rng.random()
    if k < 0.75:
      c = {'kind': 'trace', 'r': r, 't0': t0, 'ops': gen_trace(rng, r, rng.choice([8, 16, 25, 40]), t0)}
    else:
      c = {'kind': 'eager', 'r': r, 't0': t0, 'eager': rng.choice(['e', 't']),
           'ops': gen_trace(rng, r, rng.choice([8, 16, 25]), t0)}
    if r == 0 and rng.random() < 0.5:
      c['res_none'] = True                       # TimerQueue(resolution=None)
    if rng.random() < 0.4:                       # a second TimerQueue instance in the same process with its own history
      c['decoy'] = [o for o in gen_trace(rng, r, rng.choice([8, 16]), 0) if o['op'] in ('sched', 'cancel', 'tick', 'sched_none')]
    out.append(c)
  for i in range(12 if quick else 150):          # long-lived queue: many operations on one instance
    rng = C.case_rng(seed + 32452843, PID, i)
    r = RES[i % 4]
    c = {'kind': 'long', 'r': r, 't0': 0, 'ops': gen_trace(rng, r, 150, 0)}
    if i % 2:
      c['eager'] = rng.choice(['e', 't'])
    out.append(c)
  for i in range(250 if quick else 3000):
    rng = C.case_rng(seed + 15485863, PID, i)
    r = RES[i % 4]
    c = {'kind': 'real', 'r': r, 't0': rng.choice([0, 1000]), 'ops': gen_trace(rng, r, rng.choice([10, 20, 30]), 0)}
    if i % 2:
      c['decoy'] = [o for o in gen_trace(rng, r, len(c['ops']), 0) if o['op'] in ('sched', 'cancel', 'sched_none')]
    out.append(c)
  out.extend(_exh(4 if quick else 5))
  return out


def search_cases(tier, seed, diverging):
  out = []
  for i in range(6000):
    rng = C.case_rng(seed + 104729, PID, i)
    r = RES[i % 4]
    if i % 2:
      out.append({'kind': 'eager', 'r': r, 't0': 0, 'eager': rng.choice(['e', 't']), 'ops': gen_trace(rng, r, 30)})
    else:
      out.append({'kind': 'trace', 'r': r, 't0': 0, 'ops': gen_trace(rng, r, 40)})
  return out


# ---------------------------------------------------------------------------------------------
# implementation driver
# ---------------------------------------------------------------------------------------------
def _ticks(x, flags):
  f = Fraction(x) * 256
  if f.denominator != 1:
    flags['nonint'] = True
    return f.numerator // f.denominator
  return int(f)


PC = {'top': 0, 'idle': 1, 'sleep0': 2, 'timed': 3, 'sleepn': 5}


class _Boom(Exception):
  expected = True


def _boom_base():
  import gevent

  class _BoomBase(gevent.Timeout):          # a BaseException that is not an Exception, as raised by gevent.Timeout
    expected = True
  return _BoomBase()


class _Act(object):
  """A schedulable callable.  The same object may be scheduled several times (aliasing): `insts` are the
  instances (Schedule calls) that share it; `assigned` is the FIFO of instances for its greenlets that were
  spawned and have not run yet."""

  def __init__(self, book):
    self.book = book
    self.insts = []
    self.assigned = []

  def __call__(self):
    self.book.run(self)


class _EqAct(_Act):
  """Equal-but-not-identical callables: every _EqAct equals every other and hashes alike."""

  def __eq__(self, other):
    return isinstance(other, _EqAct)

  def __ne__(self, other):
    return not isinstance(other, _EqAct)

  def __hash__(self):
    return 7


class _Book(object):
  """The harness's own record of one TimerQueue under test: calls made, which instance each spawned greenlet
  stands for, the event log handed to the monitor."""

  def __init__(self, tqm, case, clock, flags, r):
    self.flags = flags
    self.r = r
    self.clock = clock                 # () -> float seconds
    self.events = []
    self.cancels = {}
    self.spec = {}                     # k -> op
    self.acts = {}                     # k -> callable
    self.nsched = 0
    self.cancelled = set()
    self.taken = set()
    self.runs = []
    self.after_run = None              # hook(k) used by the lock-step recorder
    self.after_call = None             # hook(label)
    res = None if (r == 0 and case.get('res_none')) else r / U
    self.tq = tqm.TimerQueue(time_source=clock, resolution=res)

  def now(self):
    return _ticks(self.clock(), self.flags)

  def cr(self, d):
    return d if self.r == 0 else -((-d) // self.r) * self.r

  def on_spawn(self, fn):
    """Which instance does this new greenlet stand for?  The only one when the callable was scheduled once; for a
    shared callable the pending, un-cancelled instance that is first in (rounded deadline, scheduling order)."""
    insts = getattr(fn, 'insts', None)
    k = -1
    if insts:
      cand = [i for i in insts if i not in self.taken and i not in self.cancelled]
      if cand:
        k = min(cand, key=lambda i: (self.cr(self.spec[i]['d']), i))
      elif len(insts) == 1:
        k = insts[0]
      fn.assigned.append(k)
    self.taken.add(k)
    self.events.append(['spawn', k, self.now()])
    return k

  def run(self, act):
    k = act.assigned.pop(0) if act.assigned else -1
    t = self.now()
    self.runs.append([k, t])
    self.events.append(['run', k, t])
    if self.after_run:
      self.after_run(k)
    op = self.spec.get(k) or {}
    for b in op.get('body') or []:
      self.call(b, k)
    if op.get('raise') == 'exc':
      raise _Boom()
    if op.get('raise') == 'base':
      raise _boom_base()

  def call(self, op, me=None):
    t = op['op']
    if t == 'sched':
      k = self.nsched + 1
      self.nsched = k
      j = op.get('alias')
      if j in self.acts and not isinstance(self.acts[j], _EqAct):
        act = self.acts[j]                      # the very same callable object again
      elif op.get('eq'):
        act = _EqAct(self)
      else:
        act = _Act(self)
      act.insts.append(k)
      self.acts[k] = act
      self.spec[k] = op
      d = op['d']
      dsec = (d // 256) if (op.get('int') and d % 256 == 0) else d / U
      self.events.append(['sched', k, d, self.now()])
      self.cancels[k] = self.tq.Schedule(dsec, act)
      if self.after_call:
        self.after_call(['S', d])
    elif t == 'cancel':
      k = me if op['k'] == 'self' else op['k']
      if k in self.cancels:
        self.events.append(['cancel', k, self.now()])
        self.cancelled.add(k)
        self.cancels[k]()
        if self.after_call:
          self.after_call(['C', k])
    elif t == 'sched_none':
      try:
        self.tq.Schedule(op.get('d', 0) / U, None)
        self.flags['none_accepted'] = True
      except Exception:
        self.flags['none_rejected'] = self.flags.get('none_rejected', 0) + 1


class _Shim(object):
  """Drives one TimerQueue on the deterministic scheduler (harness/c10_vclock.World)."""

  def __init__(self, tqm, case, record):
    self.flags = {}
    self.w = V.World(0.0).activate()
    self.steps = []
    self.rec = record
    self.book = _Book(tqm, case, self.w.time, self.flags, case['r'])
    self.w.on_spawn = self.book.on_spawn
    self.book.after_run = lambda k: self.record(['R'])
    self.book.after_call = self.record

  def tk(self, x):
    return _ticks(x, self.flags)

  def obs(self, full_q, full_ran):
    w, tq = self.w, self.book.tq
    if w.worker_dead():
      pc = [4, 0]
    else:
      kind, exp, _e = w.parked
      pc = [PC[kind], self.tk(exp) if exp is not None else 0]
    en = w.worker_enabled()
    # compact (memory): [pc code, pc expiry, ev, resumable by event, by time-out, qlen, spawned, ranlen, q | None, ran | None]
    o = [pc[0], pc[1], bool(tq._event.is_set()), bool(en[0]), bool(en[1]), len(tq._queue),
         [g.tag if g.tag is not None else -1 for g in w.fifo], len(self.book.runs), None, None]
    if full_q:
      o[8] = sorted([self.tk(e[0]), int(e[1]), bool(e[2])] for e in tq._queue)
    if full_ran:
      o[9] = [list(x) for x in self.book.runs]
    return o

  def record(self, label):
    w = self.w
    if self.rec:
      self.steps.append([label, self.obs(label[0] == 'W', label[0] == 'R')])
    en = w.worker_enabled()
    if not en[0] and not en[1] and not w.fifo:
      self.book.events.append(['quiet', self.tk(w.now)])

  def tick_to(self, t):
    self.w.now = t / U
    self.book.events.append(['tick', self.tk(self.w.now)])
    self.record(['T', self.tk(self.w.now)])

  def worker(self, by, pref):
    w = self.w
    en = w.worker_enabled()
    if by == 'e':
      ok, be = en[0], True
    elif by == 't':
      ok, be = en[1], False
    else:
      ok = en[0] or en[1]
      be = en[0] if (pref == 'e' or not en[1]) else False
    if not ok:
      return False
    w.resume_worker(be)
    if w.worker_exc and not self.flags.get('worker_exc'):
      self.flags['worker_exc'] = w.worker_exc
      self.book.events.append(['worker-died', w.worker_exc, self.tk(w.now)])
    self.record(['W', be])
    return True

  def settle(self, pref):
    w = self.w
    n = 0
    while True:
      bound = 6 * (len(self.book.tq._queue) + len(w.fifo) + self.book.nsched) + 12
      progressed = False
      if w.fifo and pref == 't':
        w.run_next()
        progressed = True
      elif self.worker('a', pref):
        progressed = True
      elif w.fifo:
        w.run_next()
        progressed = True
      if not progressed:
        return
      n += 1
      if n > bound:
        self.flags['livelock'] = True
        self.book.events.append(['livelock', self.tk(w.now)])
        return

  def do(self, op, eager):
    t = op['op']
    if t in ('sched', 'cancel', 'sched_none'):
      self.book.call(op)
    elif t == 'tick':
      self.tick_to(self.tk(self.w.now) + op['dt'])
    elif t == 'worker':
      self.worker(op.get('by', 'a'), op.get('pref', 'e'))
    elif t == 'run':
      if self.w.fifo:
        self.w.run_next()
    elif t == 'settle':
      self.settle(op.get('pref', 'e'))
    if eager:
      self.settle(eager)

  def close(self):
    self.book.tq = None
    self.w.close()


def run_real(case):
  """End-to-end run on the real gevent hub (virtual time only); observed by the monitor alone."""
  tqm = _S['tqm']
  w = V.RealWorld(0.0).activate()
  flags = {}
  book = _Book(tqm, case, w.time, flags, case['r'])
  books = [book]
  decoy = case.get('decoy')
  if decoy is not None:
    books.append(_Book(tqm, case, w.time, {}, case['r']))      # a second queue on the same hub and clock

  def on_spawn(fn):
    b = getattr(fn, 'book', None)
    if b is not None:
      b.on_spawn(fn)
    else:
      book.events.append(['spawn', -1, book.now()])
  w.on_spawn = on_spawn

  def quiet():
    for b in books:
      if b.tq._worker.dead and not b.flags.get('worker_exc'):
        b.flags['worker_exc'] = type(b.tq._worker.exception).__name__
        b.events.append(['worker-died', b.flags['worker_exc'], b.now()])
    if w.livelock:
      if not flags.get('livelock'):
        flags['livelock'] = True
        book.events.append(['livelock', book.now()])
      return
    for b in books:
      b.events.append(['quiet', b.now()])

  def on_time():
    for b in books:
      b.events.append(['tick', b.now()])
  try:
    if case.get('t0'):
      w.advance_to(case['t0'] / U)
      on_time()
    for i, op in enumerate(case['ops']):
      t = op['op']
      if w.livelock:
        break
      if t in ('sched', 'cancel', 'sched_none'):
        book.call(op)
      elif t == 'tick':
        # the clock moves while greenlets are parked; time-outs that elapse on the way fire at their own time
        w.advance_to((book.now() + op['dt']) / U, on_time=on_time)
        quiet()
      elif t in ('worker', 'run'):
        w.yield_once()
      elif t == 'settle':
        w.settle()
        quiet()
      if decoy and i < len(decoy) and decoy[i]['op'] in ('sched', 'cancel', 'sched_none'):
        books[1].call(decoy[i])
    w.settle()
    quiet()
  finally:
    w.close()
  out = {'steps': [], 'events': book.events, 'flags': flags, 'nsched': book.nsched}
  if decoy is not None:
    out['events2'] = books[1].events
  return out


def run_impl(case):
  setup()
  if case['kind'] == 'real':
    return run_real(case)
  tqm = _S['tqm']
  crit0 = _S.get('critical', 0)
  main = _Shim(tqm, case, True)
  decoy = case.get('decoy')
  other = _Shim(tqm, case, False) if decoy is not None else None      # a second, independent queue in the same process
  try:
    eager = case.get('eager')
    if case.get('t0'):
      main.tick_to(case['t0'])
    for i, op in enumerate(case['ops']):
      main.do(op, eager)
      if other is not None and i < len(decoy):
        other.do(decoy[i], 'e')
    if other is not None:
      for op in decoy[len(case['ops']):]:
        other.do(op, 'e')
    if main.steps:
      main.steps[-1][1] = main.obs(True, True)
    if main.w.action_errors:
      main.flags['action_errors'] = list(main.w.action_errors)
    if other is not None and (other.w.action_errors or other.flags):
      main.flags['decoy_flags'] = dict(other.flags, action_errors=list(other.w.action_errors))
    if _S.get('critical', 0) != crit0:
      main.flags['seq_mismatch_logged'] = _S['critical'] - crit0
    out = {'steps': main.steps, 'events': main.book.events, 'flags': main.flags, 'nsched': main.book.nsched}
    if other is not None:
      out['events2'] = other.book.events
    return out
  finally:
    main.close()
    if other is not None:
      other.close()


# ---------------------------------------------------------------------------------------------
# monitor: the property statement on the implementation's log (independent of the model)
#
# What cancel guarantees (and what it does not): an action cancelled while the clock is before its rounded
# deadline never runs.  A cancel that arrives at or after the rounded deadline is only effective if the worker has
# not yet taken the entry off the queue (model: C10_cancel_before_take); once the worker has handed the action to
# its own greenlet it runs even if cancel() arrives at the same clock value - the property allows both, so
# the monitor flags neither; the lock-step replay pins which of the two happened.
# ---------------------------------------------------------------------------------------------
def monitor(case, obs):
  v = _monitor_events(case['r'], obs['events'])
  if 'events2' in obs:
    v += [(s, 'second queue in the same process: ' + m) for s, m in _monitor_events(case['r'], obs['events2'])]
  if obs['flags'].get('action_errors'):
    v.append(('action-error', 'exception inside a harness action: %s' % obs['flags']['action_errors']))
  if obs['flags'].get('decoy_flags', {}).get('action_errors'):
    v.append(('action-error', 'exception inside a harness action (second queue): %s' % obs['flags']['decoy_flags']))
  # de-duplicate by signature, keep first message
  seen = set()
  out = []
  for s, m in v:
    if s not in seen:
      seen.add(s)
      out.append((s, m))
  return out


def _monitor_events(r, ev):
  v = []
  sched = {}          # k -> (d, index in the event log)
  first_cancel = {}   # k -> (time, index)
  spawned_at = {}     # k -> index
  ran = {}            # k -> [times]

  def cr(d):
    return d if r == 0 else -((-d) // r) * r

  for i, e in enumerate(ev):
    t = e[0]
    if t == 'sched':
      sched[e[1]] = (e[2], i)
    elif t == 'cancel':
      first_cancel.setdefault(e[1], (e[2], i))
    elif t == 'spawn':
      a = e[1]
      if a not in sched:
        v.append(('spawned-unscheduled', 'worker spawned something that was never scheduled (or a shared callable more often '
                  'than it has pending instances): %r' % (e,)))
        continue
      if a in spawned_at:
        v.append(('ran-twice', 'action %d taken off the queue twice' % a))
      spawned_at[a] = i
      ka = (cr(sched[a][0]), a)
      if a in first_cancel and first_cancel[a][1] < i and first_cancel[a][0] < ka[0]:
        v.append(('cancelled-ran', 'action %d cancelled at %d < rounded deadline %d was started at %d' % (a, first_cancel[a][0], ka[0], e[2])))
      # order: everything scheduled, not cancelled and not yet taken at this moment is not earlier than a
      for b, (db, ib) in sched.items():
        if b == a or ib > i or b in spawned_at and spawned_at[b] < i:
          continue
        if b in first_cancel and first_cancel[b][1] < i:
          continue
        if (cr(db), b) < ka:
          v.append(('out-of-order', 'action %d (rounded deadline %d) taken at t=%d before pending action %d (rounded deadline %d)'
                    % (a, ka[0], e[2], b, cr(db))))
    elif t == 'run':
      a, tr = e[1], e[2]
      ran.setdefault(a, []).append(tr)
      if a not in sched:
        v.append(('spawned-unscheduled', 'something ran that was never scheduled: %r' % (e,)))
        continue
      d = sched[a][0]
      if len(ran[a]) > 1:
        v.append(('ran-twice', 'action %d ran at %s' % (a, ran[a])))
      if tr < d:
        v.append(('ran-early', 'action %d requested for %d ran at %d' % (a, d, tr)))
      elif tr < cr(d):
        v.append(('ran-before-rounded-deadline', 'action %d requested for %d (rounded %d) ran at %d' % (a, d, cr(d), tr)))
      if a in first_cancel and first_cancel[a][0] < cr(d):
        v.append(('cancelled-ran', 'action %d cancelled at %d < rounded deadline %d ran at %d' % (a, first_cancel[a][0], cr(d), tr)))
    elif t == 'quiet':
      now = e[1]
      for a, (d, ia) in sched.items():
        if a in first_cancel and first_cancel[a][1] < i:
          continue
        if cr(d) <= now and a not in ran:
          v.append(('due-not-run-at-quiescence', 'action %d (rounded deadline %d) has not run at t=%d although the worker is '
                    'blocked and nothing is runnable' % (a, cr(d), now)))
          break
    elif t == 'worker-died':
      v.append(('worker-died', 'the timer worker greenlet died with %s at t=%d' % (e[1], e[2])))
    elif t == 'livelock':
      v.append(('worker-livelock', 'the worker stayed runnable without any Schedule call or clock advance (t=%d)' % e[1]))
  return v


# ---------------------------------------------------------------------------------------------
# translation to Coq
# ---------------------------------------------------------------------------------------------
def _z(n):
  n = int(n)
  return str(n) if n >= 0 else '(%d)' % n


def _label(l):
  t = l[0]
  if t == 'S':
    return 'LS %s' % _z(l[1])
  if t == 'C':
    return 'LC %s' % _z(l[1])
  if t == 'T':
    return 'LT %s' % _z(l[1])
  if t == 'W':
    return 'LW %s' % C.blit(l[1])
  return 'LR'


def _obs(o):
  q = 'None'
  if o[8] is not None:
    q = '(Some [%s])' % ';'.join('(%s,%s,%s)' % (_z(a), _z(b), C.blit(c)) for a, b, c in o[8])
  ran = 'None'
  if o[9] is not None:
    ran = '(Some [%s])' % ';'.join('(%s,%s)' % (_z(a), _z(b)) for a, b in o[9])
  return 'Ob (%s,%s) %s (%s,%s) %s %s [%s] %s %s' % (
      _z(o[0]), _z(o[1]), C.blit(o[2]), C.blit(o[3]), C.blit(o[4]), _z(o[5]), q,
      ';'.join(_z(x) for x in o[6]), _z(o[7]), ran)


_SEEN_EXH = set()


def to_coq(case, obs):
  if not obs['steps']:
    return None
  if case['kind'] == 'exh':
    key = C.canon([l for l, _o in obs['steps']])
    if key in _SEEN_EXH:
      return None
    _SEEN_EXH.add(key)
  return 'mkCase %s [%s]%%Z' % (_z(case['r']), ';\n '.join('(%s, %s)' % (_label(l), _obs(o)) for l, o in obs['steps']))


def nontrivial(case, obs):
  if case['kind'] == 'real':
    return any(e[0] == 'run' for e in obs['events'])
  ls = [l[0] for l, _o in obs['steps']]
  return 'W' in ls and 'S' in ls


def describe(case, obs):
  return {'case': case, 'labels': [l for l, _o in obs['steps']][:60], 'events': obs['events'][:60], 'flags': obs['flags']}


def stats(cases, obs):
  import collections
  labels = collections.Counter()
  trans = collections.Counter()
  schedk = collections.Counter()
  canck = collections.Counter()
  runs = 0
  names = {0: 'Top', 1: 'Idle', 2: 'Sleep0', 3: 'Timed', 4: 'Dead', 5: 'SleepN'}
  for c, o in zip(cases, obs):
    if not isinstance(o, dict) or 'steps' not in o:
      continue
    prev = [0, 0, False, False, True, 0, [], 0, None, None]
    for l, ob in o['steps']:
      labels[l[0]] += 1
      if l[0] == 'W':
        popped = prev[5] - ob[5]
        spn = len(ob[6]) - len(prev[6])
        trans['%s/%s/ev=%d -> %s pop=%s spawn=%s' % (names[prev[0]], 'event' if l[1] else 'timeout', prev[2],
                                                   names[ob[0]], min(popped, 3), min(spn, 3))] += 1
      elif l[0] == 'S':
        schedk['%s sets_event=%d at %s' % ('first' if prev[5] == 0 else 'more', (not prev[2]) and ob[2], names[ob[0]])] += 1
      elif l[0] == 'C':
        canck['at %s' % names[ob[0]]] += 1
      elif l[0] == 'R':
        runs += 1
      prev = ob
  crit = sum(o['flags'].get('seq_mismatch_logged', 0) for o in obs if isinstance(o, dict) and 'flags' in o)
  dims = collections.Counter()
  cwhen = collections.Counter()

  def walk(ops, depth):
    for op in ops:
      if op['op'] == 'sched':
        for key in ('alias', 'eq', 'int'):
          if op.get(key):
            dims['schedule_' + key] += 1
        if op.get('raise'):
          dims['action_raises_' + op['raise']] += 1
        if op.get('body'):
          dims['action_calls_back_depth_%d' % (depth + 1)] += 1
          walk(op['body'], depth + 1)
      elif op['op'] == 'cancel' and op['k'] == 'self':
        dims['action_cancels_itself'] += 1
      elif op['op'] == 'sched_none':
        dims['schedule_None_action'] += 1
  for c, o in zip(cases, obs):
    if not isinstance(o, dict) or 'events' not in o:
      continue
    walk(c['ops'], 0)
    if c.get('decoy') is not None:
      dims['cases_with_second_queue'] += 1
    if c.get('res_none'):
      dims['cases_resolution_None'] += 1
    if c.get('t0', 0) >= 2 ** 39 - 3:
      dims['cases_clock_around_2^31_2^32_s'] += 1
    if c['r'] in (1, 65536):
      dims['cases_resolution_1tick_or_256s'] += 1
    r = c['r']
    sch, sp, rn = {}, {}, {}
    for i, e in enumerate(o['events']):
      if e[0] == 'sched':
        sch[e[1]] = e[2] if r == 0 else -((-e[2]) // r) * r
      elif e[0] == 'spawn':
        sp.setdefault(e[1], i)
      elif e[0] == 'run':
        rn.setdefault(e[1], i)
      elif e[0] == 'cancel' and e[1] in sch:
        k, t = e[1], e[2]
        if k in rn:
          cwhen['after it ran'] += 1
        elif k in sp:
          cwhen['after the worker took it, before it ran (still runs)'] += 1
        elif t < sch[k]:
          cwhen['before the rounded deadline'] += 1
        elif t == sch[k]:
          cwhen['exactly at the rounded deadline, before the worker took it'] += 1
        else:
          cwhen['after the rounded deadline, before the worker took it'] += 1
  return {'input_dimensions': dict(sorted(dims.items())), 'cancel_arrival': dict(sorted(cwhen.items())),
          'seq_mismatch_critical_logged': crit, 'labels_executed': dict(labels), 'worker_segment_branches': dict(sorted(trans.items())),
          'schedule_kinds': dict(sorted(schedk.items())), 'cancel_kinds': dict(canck), 'actions_run': runs}
